//! C24 — expressions parse by the documented precedence/associativity.
//! Oracle: a tree is printed with the parenthesisation the documented table implies, parsed by the
//! real parser, and read back through the `ast` accessors (parentheses erased); both must be equal.
use crate::util::*;
use ast::{AstNode, AstToken};
use serde_json::{json, Value};

#[derive(Clone, Debug, PartialEq, Eq, Hash)]
pub enum E {
    Var(String),
    Int(String),
    /// a block-like operand (`{ a }`, `if a { b } else { 1 }`): an atom for the operator table; read back as <other:...>
    Opaque(String),
    Bin(&'static str, Box<E>, Box<E>),
    Pre(&'static str, Box<E>), // - + ! ~ ^ ^mut
    Call(Box<E>, Vec<E>),
    Index(Box<E>, Box<E>),
    Field(Box<E>, String),
    Try(Box<E>),
    Cast(String, Box<E>),
    Deref(Box<E>),
}

pub const BIN_LEVELS: [&[&str]; 5] = [
    &["||"],
    &["&&"],
    &["<", "<=", ">", ">=", "==", "!="],
    &["+", "-", "|", "~"],
    &["*", "/", "%", "&", "<<", ">>"],
];
pub const PREFIX: [&str; 6] = ["-", "+", "!", "~", "^", "^mut"];

fn level(op: &str) -> usize {
    BIN_LEVELS.iter().position(|l| l.contains(&op)).unwrap()
}

impl E {
    pub fn sexpr(&self) -> String {
        match self {
            E::Var(n) => n.clone(),
            E::Int(n) => n.clone(),
            E::Opaque(t) => format!("<other:{}>", t.chars().take(20).collect::<String>()),
            E::Bin(op, l, r) => format!("({} {} {})", op, l.sexpr(), r.sexpr()),
            E::Pre(op, e) => format!("(pre{} {})", op, e.sexpr()),
            E::Call(f, args) => format!("(call {}{})", f.sexpr(), args.iter().map(|a| format!(" {}", a.sexpr())).collect::<String>()),
            E::Index(a, i) => format!("(index {} {})", a.sexpr(), i.sexpr()),
            E::Field(a, n) => format!("(field {} {})", a.sexpr(), n),
            E::Try(a) => format!("(try {})", a.sexpr()),
            E::Cast(t, e) => format!("(cast {} {})", t, e.sexpr()),
            E::Deref(a) => format!("(deref {})", a.sexpr()),
        }
    }
    pub fn depth(&self) -> usize {
        match self {
            E::Var(_) | E::Int(_) | E::Opaque(_) => 0,
            E::Bin(_, l, r) => 1 + l.depth().max(r.depth()),
            E::Pre(_, e) | E::Try(e) | E::Deref(e) | E::Cast(_, e) | E::Field(e, _) => 1 + e.depth(),
            E::Call(f, a) => 1 + a.iter().map(|x| x.depth()).max().unwrap_or(0).max(f.depth()),
            E::Index(a, i) => 1 + a.depth().max(i.depth()),
        }
    }
    /// the chain of postfix operators applied to the innermost operand
    fn spine(&self) -> Option<&E> {
        match self {
            E::Call(f, _) => Some(f),
            E::Index(a, _) | E::Field(a, _) | E::Try(a) | E::Deref(a) => Some(a),
            _ => None,
        }
    }
    fn spine_has_deref(&self) -> bool {
        matches!(self, E::Deref(_)) || self.spine().is_some_and(|s| s.spine_has_deref())
    }
    fn spine_has_cast(&self) -> bool {
        matches!(self, E::Cast(..)) || self.spine().is_some_and(|s| s.spine_has_cast())
    }
    fn is_bin(&self) -> bool {
        matches!(self, E::Bin(..))
    }
    fn is_pre(&self) -> bool {
        matches!(self, E::Pre(..))
    }
}

/// printer: `extra` adds redundant parentheses / whitespace pseudo-randomly
pub struct Printer<'a> {
    pub rng: Option<&'a mut Rng>,
}

impl Printer<'_> {
    fn maybe_paren(&mut self, s: String) -> String {
        if let Some(r) = self.rng.as_mut() {
            if r.chance(1, 6) {
                return format!("({s})");
            }
        }
        s
    }
    fn sp(&mut self) -> &'static str {
        if let Some(r) = self.rng.as_mut() {
            match r.below(8) {
                0 => "  ",
                1 => "\n",
                2 => " // c\n ",
                _ => " ",
            }
        } else {
            " "
        }
    }
    fn wrap(&mut self, e: &E, need: bool) -> String {
        let s = self.print(e);
        if need {
            format!("({s})")
        } else {
            self.maybe_paren(s)
        }
    }
    pub fn print(&mut self, e: &E) -> String {
        match e {
            E::Var(n) | E::Int(n) | E::Opaque(n) => n.clone(),
            E::Bin(op, l, r) => {
                let lv = level(op);
                // left-associative: equal level on the left needs no parentheses, on the right it does
                let lneed = l.is_bin() && matches!(&**l, E::Bin(o, ..) if level(o) < lv);
                let rneed = r.is_bin() && matches!(&**r, E::Bin(o, ..) if level(o) <= lv);
                let ls = self.wrap(l, lneed);
                let rs = self.wrap(r, rneed);
                let (a, b) = (self.sp(), self.sp());
                format!("{ls}{a}{op}{b}{rs}")
            }
            E::Pre(op, x) => {
                // the operand of a prefix operator takes postfix operators with it, except a
                // dereference, and for `^` also except a cast (dot-instantiation)
                let need = x.is_bin() || x.spine_has_deref() || (op.starts_with('^') && x.spine_has_cast());
                let xs = self.wrap(x, need);
                if *op == "^mut" {
                    format!("^mut {xs}")
                } else {
                    format!("{op}{xs}")
                }
            }
            E::Call(f, args) => {
                let need = f.is_bin() || f.is_pre();
                let fs = self.wrap(f, need);
                let mut s = format!("{fs}(");
                for (i, a) in args.iter().enumerate() {
                    if i > 0 {
                        s.push_str(", ");
                    }
                    s.push_str(&self.print(a));
                }
                s.push(')');
                s
            }
            E::Index(a, i) => {
                let need = a.is_bin() || a.is_pre();
                let as_ = self.wrap(a, need);
                format!("{as_}[{}]", self.print(i))
            }
            E::Field(a, n) => {
                let need = a.is_bin() || a.is_pre() || matches!(&**a, E::Int(_));
                let as_ = self.wrap(a, need);
                format!("{as_}.{n}")
            }
            E::Try(a) => {
                let need = a.is_bin() || a.is_pre();
                let as_ = self.wrap(a, need);
                format!("{as_}.try")
            }
            E::Cast(t, x) => format!("{t}.({})", self.print(x)),
            E::Deref(a) => {
                // `-a^` already means `(-a)^`, so a prefix operand needs no parentheses here
                let need = a.is_bin();
                let as_ = self.wrap(a, need);
                format!("{as_}^")
            }
        }
    }
}

fn tok_text(tok: Option<impl ast::AstToken>, tree: &syntax::SyntaxTree) -> String {
    tok.map(|t| t.text(tree).to_string()).unwrap_or_else(|| "?".into())
}

/// read an ast::Expr back into an s-expression, erasing ParenExpr
pub fn read_back(e: ast::Expr, tree: &syntax::SyntaxTree) -> String {
    fn opt(e: Option<ast::Expr>, tree: &syntax::SyntaxTree) -> String {
        e.map(|e| read_back(e, tree)).unwrap_or_else(|| "<missing>".into())
    }
    match e {
        ast::Expr::Paren(p) => opt(p.expr(tree), tree),
        ast::Expr::VarRef(v) => tok_text(v.name(tree), tree),
        ast::Expr::IntLiteral(i) => i.text(tree).trim().to_string(),
        ast::Expr::Binary(b) => {
            let op = b.op(tree).map(|o| o.text(tree).to_string()).unwrap_or_else(|| "?".into());
            format!("({} {} {})", op, opt(b.lhs(tree), tree), opt(b.rhs(tree), tree))
        }
        ast::Expr::Unary(u) => {
            let op = u.op(tree).map(|o| o.text(tree).to_string()).unwrap_or_else(|| "?".into());
            format!("(pre{} {})", op, opt(u.expr(tree), tree))
        }
        ast::Expr::Ref(r) => {
            let m = if r.mutable(tree).is_some() { "^mut" } else { "^" };
            format!("(pre{} {})", m, opt(r.expr(tree), tree))
        }
        ast::Expr::Deref(d) => format!("(deref {})", opt(d.pointer(tree), tree)),
        ast::Expr::Propagate(p) => format!("(try {})", opt(p.expr(tree), tree)),
        ast::Expr::Call(c) => {
            let args = c
                .arg_list(tree)
                .map(|al| al.args(tree).map(|a| format!(" {}", opt(a.value(tree), tree))).collect::<String>())
                .unwrap_or_default();
            format!("(call {}{})", opt(c.callee(tree), tree), args)
        }
        ast::Expr::IndexExpr(i) => format!(
            "(index {} {})",
            opt(i.array(tree).and_then(|s| s.value(tree)), tree),
            opt(i.index(tree).and_then(|s| s.value(tree)), tree)
        ),
        ast::Expr::Path(p) => format!("(field {} {})", opt(p.previous_part(tree), tree), tok_text(p.field_name(tree), tree)),
        ast::Expr::Cast(c) => {
            let ty = c.ty(tree).and_then(|t| t.expr(tree)).map(|e| read_back(e, tree)).unwrap_or_else(|| "?".into());
            format!("(cast {} {})", ty, opt(c.expr(tree), tree))
        }
        other => format!("<other:{}>", other.text(tree).chars().take(20).collect::<String>()),
    }
}

/// parse `x :: <text>;` and return (errors, s-expression of the value)
pub fn parse_expr(text: &str) -> Result<(usize, String), String> {
    let src = format!("x :: {text};");
    guarded(|| {
        let tokens = lexer::lex(&src);
        let parse = parser::parse_source_file(&tokens, &src);
        let tree = parse.syntax_tree();
        let root = ast::Root::cast(tree.root(), tree).expect("root");
        let mut defs = root.defs(tree);
        let first = defs.next();
        let extra = defs.count();
        let value = match first {
            Some(ast::Define::Binding(b)) => b.value(tree),
            Some(ast::Define::Variable(v)) => v.value(tree),
            None => None,
        };
        let s = match value {
            Some(v) => read_back(v, tree),
            None => "<no value>".into(),
        };
        let s = if extra > 0 { format!("{s} <+{extra} defs>") } else { s };
        (parse.errors().len(), s)
    })
}

pub fn check_tree(rep: &mut Report, e: &E, rng: Option<&mut Rng>) {
    rep.evaluations += 1;
    let text = Printer { rng }.print(e);
    let want = e.sexpr();
    match parse_expr(&text) {
        Err(p) => rep.violation("panic", &format!("parser/ast panicked: {p}"), json!({"text": text, "tree": want})),
        Ok((errs, got)) => {
            if errs > 0 {
                rep.violation("parse_error", &format!("{errs} syntax error(s) for a well-formed expression"), json!({"text": text, "tree": want, "parsed": got}));
            } else if got != want {
                rep.violation("shape", "parsed tree differs from the tree the table dictates", json!({"text": text, "tree": want, "parsed": got}));
            }
            if e.depth() >= 2 {
                rep.sig(want.clone());
            }
            if rep.samples.len() < 5 && e.depth() >= 3 {
                rep.sample(json!({"text": text, "tree": want}));
            }
        }
    }
}

fn leaves() -> Vec<E> {
    vec![E::Var("a".into()), E::Var("b".into()), E::Int("1".into())]
}

/// all trees of depth <= 1 over the given operators
fn depth1(leaves: &[E], bin_ops: &[&'static str], pre_ops: &[&'static str], postfix: bool) -> Vec<E> {
    let mut out = leaves.to_vec();
    for op in bin_ops {
        for l in leaves {
            for r in leaves {
                out.push(E::Bin(op, Box::new(l.clone()), Box::new(r.clone())));
            }
        }
    }
    for x in leaves {
        unary_over(x, pre_ops, postfix, &mut |e| out.push(e));
    }
    out
}

fn unary_over(x: &E, pre_ops: &[&'static str], postfix: bool, f: &mut dyn FnMut(E)) {
    for op in pre_ops {
        f(E::Pre(op, Box::new(x.clone())));
    }
    if postfix {
        f(E::Deref(Box::new(x.clone())));
        f(E::Try(Box::new(x.clone())));
        f(E::Field(Box::new(x.clone()), "f".into()));
        f(E::Call(Box::new(x.clone()), vec![]));
        f(E::Call(Box::new(x.clone()), vec![E::Var("b".into()), x.clone()]));
        f(E::Index(Box::new(x.clone()), Box::new(E::Int("1".into()))));
        f(E::Index(Box::new(E::Var("a".into())), Box::new(x.clone())));
        f(E::Cast("T".into(), Box::new(x.clone())));
    }
}

/// visit every tree of depth exactly d+1 whose children come from `sub` (all trees of depth <= d)
fn next_level(sub: &[E], d: usize, bin_ops: &[&'static str], pre_ops: &[&'static str], postfix: bool, stride: u64, offset: u64, f: &mut dyn FnMut(E)) -> u64 {
    let mut n = 0u64;
    for op in bin_ops {
        for l in sub {
            for r in sub {
                if l.depth() == d || r.depth() == d {
                    n += 1;
                    if n % stride == offset {
                        f(E::Bin(op, Box::new(l.clone()), Box::new(r.clone())));
                    }
                }
            }
        }
    }
    for x in sub {
        if x.depth() == d {
            unary_over(x, pre_ops, postfix, &mut |e| {
                n += 1;
                if n % stride == offset {
                    f(e)
                }
            });
        }
    }
    n
}

pub fn random_tree(rng: &mut Rng, depth: usize) -> E {
    if depth == 0 || rng.chance(1, 6) {
        return match rng.below(4) {
            0 => E::Var("a".into()),
            1 => E::Var("b".into()),
            2 => E::Var("foo_1".into()),
            _ => E::Int(["0", "1", "42", "0x1F", "1_000"][rng.below(5)].into()),
        };
    }
    match rng.below(12) {
        0..=4 => {
            let lv = rng.below(5);
            let op = BIN_LEVELS[lv][rng.below(BIN_LEVELS[lv].len())];
            E::Bin(op, Box::new(random_tree(rng, depth - 1)), Box::new(random_tree(rng, depth - 1)))
        }
        5 | 6 => E::Pre(PREFIX[rng.below(PREFIX.len())], Box::new(random_tree(rng, depth - 1))),
        7 => E::Deref(Box::new(random_tree(rng, depth - 1))),
        8 => {
            let n = rng.below(3);
            E::Call(Box::new(random_tree(rng, depth - 1)), (0..n).map(|_| random_tree(rng, depth - 1)).collect())
        }
        9 => E::Index(Box::new(random_tree(rng, depth - 1)), Box::new(random_tree(rng, depth - 1))),
        10 => {
            if rng.chance(1, 2) {
                E::Field(Box::new(random_tree(rng, depth - 1)), "fld".into())
            } else {
                E::Try(Box::new(random_tree(rng, depth - 1)))
            }
        }
        _ => E::Cast(["T", "i32", "u8"][rng.below(3)].into(), Box::new(random_tree(rng, depth - 1))),
    }
}

/// parse an s-expression we produced back into an E (used for the corpus round trip)
fn sexpr_to_e(s: &str) -> Option<E> {
    fn parse(toks: &[String], pos: &mut usize) -> Option<E> {
        let t = toks.get(*pos)?.clone();
        *pos += 1;
        if t == "(" {
            let head = toks.get(*pos)?.clone();
            *pos += 1;
            let mut args = vec![];
            while toks.get(*pos)? != ")" {
                args.push(parse(toks, pos)?);
            }
            *pos += 1;
            let b = |e: &E| Box::new(e.clone());
            match head.as_str() {
                "call" => Some(E::Call(b(args.first()?), args[1..].to_vec())),
                "index" if args.len() == 2 => Some(E::Index(b(&args[0]), b(&args[1]))),
                "field" if args.len() == 2 => match &args[1] {
                    E::Var(n) => Some(E::Field(b(&args[0]), n.clone())),
                    _ => None,
                },
                "try" if args.len() == 1 => Some(E::Try(b(&args[0]))),
                "deref" if args.len() == 1 => Some(E::Deref(b(&args[0]))),
                "cast" if args.len() == 2 => match &args[0] {
                    E::Var(n) => Some(E::Cast(n.clone(), b(&args[1]))),
                    _ => None,
                },
                h if h.starts_with("pre") && args.len() == 1 => {
                    let op = PREFIX.iter().find(|p| **p == &h[3..])?;
                    Some(E::Pre(op, b(&args[0])))
                }
                h if args.len() == 2 => {
                    let op = BIN_LEVELS.iter().flat_map(|l| l.iter()).find(|o| **o == h)?;
                    Some(E::Bin(op, b(&args[0]), b(&args[1])))
                }
                _ => None,
            }
        } else if t == ")" || t.starts_with('<') {
            None
        } else if t.chars().next()?.is_ascii_digit() {
            Some(E::Int(t))
        } else if t.chars().all(|c| c.is_ascii_alphanumeric() || c == '_') {
            Some(E::Var(t))
        } else {
            None
        }
    }
    let mut toks = vec![];
    let mut cur = String::new();
    for c in s.chars() {
        match c {
            '(' | ')' => {
                if !cur.is_empty() {
                    toks.push(std::mem::take(&mut cur));
                }
                toks.push(c.to_string());
            }
            ' ' => {
                if !cur.is_empty() {
                    toks.push(std::mem::take(&mut cur));
                }
            }
            _ => cur.push(c),
        }
    }
    if !cur.is_empty() {
        toks.push(cur);
    }
    let mut pos = 0;
    let e = parse(&toks, &mut pos)?;
    if pos == toks.len() {
        Some(e)
    } else {
        None
    }
}

/// harvest expressions from a corpus file: every node the ast can cast to an expression whose
/// s-expression lies in our tree language is printed minimally and must parse back to itself
fn corpus_roundtrip(rep: &mut Report, text: &str) {
    let r = guarded(|| {
        let tokens = lexer::lex(text);
        let parse = parser::parse_source_file(&tokens, text);
        if !parse.errors().is_empty() {
            return vec![];
        }
        let tree = parse.syntax_tree();
        let mut out = vec![];
        for n in tree.root().descendant_nodes(tree) {
            if let Some(b) = ast::BinaryExpr::cast(n, tree) {
                out.push(read_back(ast::Expr::Binary(b), tree));
            } else if let Some(u) = ast::UnaryExpr::cast(n, tree) {
                out.push(read_back(ast::Expr::Unary(u), tree));
            }
        }
        out
    });
    let Ok(sexprs) = r else { return };
    for s in sexprs {
        if let Some(e) = sexpr_to_e(&s) {
            if e.depth() >= 2 {
                rep.count("corpus_expressions", 1);
                check_tree(rep, &e, None);
            }
        }
    }
}

pub fn run(args: &Args, corpus: &[String]) -> Value {
    let mut rep = Report::new("C24");
    let shard = args.num("shard", 0);
    let shards = args.num("shards", 1).max(1);
    let all_bin: Vec<&'static str> = BIN_LEVELS.iter().flat_map(|l| l.iter().copied()).collect();
    // (1) every tree of depth <= 2 over every operator (quick: every 8th tree of depth 2)
    let l1 = depth1(&leaves(), &all_bin, &PREFIX, true);
    let lite = args.num("lite", 0) != 0;
    if shard == 0 || lite {
        for (i, e) in l1.iter().enumerate() {
            // interpreted run: the depth-1 trees are spread over the shards (every 4th tree, rotated by the seed)
            if lite && ((i as u64) % shards != shard || ((i as u64) / shards + args.seed) % 4 != 0) {
                continue;
            }
            check_tree(&mut rep, e, None);
        }
    }
    let stride2 = args.num("stride2", if args.thorough() { 1 } else { 8 });
    let mut visited = 0u64;
    // interpreted run (lite): walking the 1.2 M depth-2 trees costs minutes under Miri even when almost all are skipped,
    // so only `--depth2 n` randomly chosen depth-2 trees are built directly
    let l1_for_level2: Vec<E> = if lite { vec![] } else { l1.clone() };
    let total2 = next_level(&l1_for_level2, 1, &all_bin, &PREFIX, true, stride2 * shards, (args.seed % stride2) * shards + shard, &mut |e| {
        visited += 1;
        check_tree(&mut rep, &e, None);
    });
    // block-like operands (an atom for the table) on either side of every binary operator and under the arithmetic prefix operators
    if shard == 0 || lite {
        let opaque = ["{ a }", "if a { b } else { 1 }", "{ a + 1 }"]; // (`comptime` takes a whole expression, it is not an atom)
        let mut n_opaque = 0u64;
        for (k, t) in opaque.iter().enumerate() {
            let o = E::Opaque(t.to_string());
            let a = E::Var("a".into());
            for (j, op) in all_bin.iter().enumerate() {
                if lite && ((k * 31 + j) as u64 % shards != shard || (k + j) % 3 != 0) {
                    continue;
                }
                for e in [
                    E::Bin(op, Box::new(o.clone()), Box::new(a.clone())),
                    E::Bin(op, Box::new(a.clone()), Box::new(o.clone())),
                    E::Bin(op, Box::new(E::Bin(op, Box::new(o.clone()), Box::new(a.clone()))), Box::new(E::Int("1".into()))),
                    E::Bin("+", Box::new(E::Bin(op, Box::new(o.clone()), Box::new(a.clone()))), Box::new(o.clone())),
                ] {
                    n_opaque += 1;
                    check_tree(&mut rep, &e, None);
                }
            }
            for pre in ["-", "!", "~"] {
                n_opaque += 1;
                check_tree(&mut rep, &E::Bin("*", Box::new(E::Pre(pre, Box::new(o.clone()))), Box::new(a.clone())), None);
            }
        }
        rep.count("trees_with_block_like_operands", n_opaque);
    }
    rep.count("trees_depth_le_1_all_ops", l1.len() as u64);
    rep.count("trees_depth_2_all_ops_total", total2);
    rep.count("trees_depth_2_all_ops_visited", visited);
    // (2) every tree of depth <= 3 over one operator from three levels and prefix `-`, leaves {a, 1}
    let triples: Vec<Vec<&'static str>> = if args.thorough() {
        vec![vec!["||", "<", "+"], vec!["&&", "-", "*"], vec!["==", "~", "<<"]]
    } else {
        vec![[vec!["||", "<", "+"], vec!["&&", "-", "*"], vec!["==", "|", "&"]][(args.seed % 3) as usize].clone()]
    };
    let stride3 = args.num("stride3", if args.thorough() { 1 } else { 16 });
    let lv = vec![E::Var("a".into()), E::Int("1".into())];
    for ops in &triples {
        if lite {
            break; // interpreted run: the enumeration itself is too slow under Miri; random trees below cover depth 2..5
        }
        let r1 = depth1(&lv, ops, &["-"], false);
        let mut r2 = r1.clone();
        next_level(&r1, 1, ops, &["-"], false, 1, 0, &mut |e| r2.push(e));
        let mut v3 = 0u64;
        let t3 = next_level(&r2, 2, ops, &["-"], false, stride3 * shards, (args.seed % stride3) * shards + shard, &mut |e| {
            v3 += 1;
            check_tree(&mut rep, &e, None);
        });
        rep.count("trees_depth_3_reduced_total", t3);
        rep.count("trees_depth_3_reduced_visited", v3);
    }
    rep.exhaustive = stride2 == 1 && stride3 == 1;
    rep.notes.push(format!(
        "trees of depth <= 2 over all 19 binary / 6 prefix / 6 postfix operators (stride {stride2}); trees of depth 3 over operator triples {triples:?} + prefix '-' (stride {stride3}); stride 1 = exhaustive"
    ));
    let mut rng = Rng::new(args.seed ^ 0x24 ^ (shard << 40));
    let n_rand = args.num("random", if args.thorough() { 1_500_000 } else { 60_000 }) / shards;
    for i in 0..n_rand {
        let depth = if lite { 2 + rng.below(3) } else { 3 + rng.below(3) };
        let e = random_tree(&mut rng, depth);
        if i % 2 == 0 {
            check_tree(&mut rep, &e, None);
        } else {
            let mut r2 = Rng::new(rng.next());
            check_tree(&mut rep, &e, Some(&mut r2));
        }
    }
    rep.count("random_trees_depth_3_to_5", n_rand);
    if args.num("lite", 0) != 0 {
        let per = args.num("corpusfiles", 6) as usize;
        let mine: Vec<&String> = corpus.iter().enumerate().filter(|(i, _)| *i as u64 % shards == shard).map(|(_, c)| c).collect();
        for k in 0..per.min(mine.len()) {
            corpus_roundtrip(&mut rep, mine[(k * 7919 + args.seed as usize) % mine.len()]);
        }
    } else if shard == 0 {
        for c in corpus {
            corpus_roundtrip(&mut rep, c);
        }
    }
    rep.finish()
}
