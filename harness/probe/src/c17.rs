//! C17 — layouts obey the representation rules. Observes the real calc_layouts/GetLayoutInfo
//! through hook H1 and judges every type with the statement's rules as predicates.
use crate::tygen::*;
use crate::util::*;
use hir::common::Ty;
use internment::Intern;
use serde_json::{json, Value};
use std::collections::HashSet;

struct Obs {
    size: u32,
    align: u32,
    stride: u32,
    offsets: Option<Vec<u32>>,
    disc: Option<u32>,
}

fn observe(t: Intern<Ty>) -> Result<Obs, String> {
    guarded(|| Obs {
        size: codegen::verif::size(t),
        align: codegen::verif::align(t),
        stride: codegen::verif::stride(t),
        offsets: codegen::verif::struct_offsets(t),
        disc: codegen::verif::discriminant_offset(t),
    })
}

fn show(t: &Ty) -> String {
    let s = format!("{t:?}");
    if s.len() > 400 {
        format!("{}…", &s[..400])
    } else {
        s
    }
}

fn kind(t: &Ty) -> &'static str {
    match t {
        Ty::IInt(_) | Ty::UInt(_) => "int",
        Ty::Float(_) => "float",
        Ty::ConcreteArray { .. } | Ty::AnonArray { .. } => "array",
        Ty::Slice { .. } => "slice",
        Ty::Pointer { .. } => "ptr",
        Ty::Distinct { .. } => "distinct",
        Ty::ConcreteStruct { .. } | Ty::AnonStruct { .. } => "struct",
        Ty::Enum { .. } => "enum",
        Ty::EnumVariant { .. } => "variant",
        Ty::Optional { .. } => "optional",
        Ty::ErrorUnion { .. } => "errunion",
        Ty::FunctionPointer { .. } => "fnptr",
        _ => "prim",
    }
}

/// the statement's rules; returns (key, message) of the first rule broken
fn judge(t: Intern<Ty>, ptr_bytes: u32) -> Result<Option<(String, String)>, String> {
    let o = observe(t)?;
    if !(o.align.is_power_of_two() && o.align <= 8) {
        return Ok(Some(("align".into(), format!("align {} is not a power of two <= 8", o.align))));
    }
    if o.stride < o.size || o.stride % o.align != 0 {
        return Ok(Some(("stride".into(), format!("stride {} for size {} align {}", o.stride, o.size, o.align))));
    }
    match t.as_ref() {
        Ty::ConcreteStruct { members, .. } | Ty::AnonStruct { members } => {
            let Some(offs) = &o.offsets else {
                return Ok(Some(("struct".into(), "no struct layout".into())));
            };
            if offs.len() != members.len() {
                return Ok(Some(("struct".into(), format!("{} offsets for {} fields", offs.len(), members.len()))));
            }
            let mut end = 0u32;
            for (i, m) in members.iter().enumerate() {
                let mo = observe(m.ty)?;
                if offs[i] % mo.align != 0 {
                    return Ok(Some(("field_align".into(), format!("field {i} at offset {} but its alignment is {}", offs[i], mo.align))));
                }
                if offs[i] < end {
                    return Ok(Some(("field_overlap".into(), format!("field {i} at offset {} overlaps or precedes the previous field ending at {end}", offs[i]))));
                }
                end = offs[i] + mo.size;
            }
            if end > o.size {
                return Ok(Some(("field_outside".into(), format!("last field ends at {end}, struct size is {}", o.size))));
            }
        }
        Ty::ConcreteArray { size, sub_ty } | Ty::AnonArray { size, sub_ty } => {
            let so = observe(*sub_ty)?;
            if o.size as u64 != *size * so.stride as u64 {
                return Ok(Some(("array".into(), format!("array size {} != {} * stride {}", o.size, size, so.stride))));
            }
        }
        Ty::Distinct { sub_ty, .. } | Ty::EnumVariant { sub_ty, .. } => {
            let so = observe(*sub_ty)?;
            if so.size != o.size || so.align != o.align {
                return Ok(Some(("wrapper".into(), format!("size/align {}/{} differ from the underlying type's {}/{}", o.size, o.align, so.size, so.align))));
            }
        }
        // `^T`, `^mut T` and the opaque `rawptr` / `mut rawptr` are the language's pointers
        Ty::Optional { sub_ty } if matches!(sub_ty.as_ref(), Ty::Pointer { .. } | Ty::RawPtr { .. }) => {
            if o.size != ptr_bytes {
                return Ok(Some(("optptr".into(), format!("optional pointer has size {} (pointer is {ptr_bytes})", o.size))));
            }
        }
        Ty::Optional { sub_ty } if matches!(sub_ty.absolute_ty(), Ty::Pointer { .. } | Ty::RawPtr { .. }) => {
            // a distinct pointer: either representation is compatible with the statement
        }
        Ty::Optional { .. } | Ty::ErrorUnion { .. } | Ty::Enum { .. } => {
            let payloads: Vec<Intern<Ty>> = match t.as_ref() {
                Ty::Optional { sub_ty } => vec![*sub_ty],
                Ty::ErrorUnion { error_ty, payload_ty } => vec![*error_ty, *payload_ty],
                Ty::Enum { variants, .. } => variants.clone(),
                _ => unreachable!(),
            };
            let mut max_size = 0;
            for p in payloads {
                max_size = max_size.max(observe(p)?.size);
            }
            let Some(d) = o.disc else {
                return Ok(Some(("tag".into(), "sum type without a tag offset".into())));
            };
            if d < max_size {
                return Ok(Some(("tag_overlap".into(), format!("tag at offset {d} lies inside the largest payload (size {max_size})"))));
            }
            if d + 1 > o.size {
                return Ok(Some(("tag_outside".into(), format!("tag at offset {d} is outside the type's size {}", o.size))));
            }
            if d != max_size || o.size != max_size + 1 {
                return Ok(Some(("tag_place".into(), format!("tag at {d}, size {}: expected the one-byte tag directly after the largest payload ({max_size})", o.size))));
            }
        }
        Ty::Pointer { .. } | Ty::FunctionPointer { .. } | Ty::String | Ty::RawPtr { .. } => {
            if o.size != ptr_bytes {
                return Ok(Some(("ptrsize".into(), format!("pointer-like type has size {}", o.size))));
            }
        }
        Ty::IInt(w) | Ty::UInt(w) => {
            let want = if *w == u8::MAX { ptr_bytes } else if *w == 0 { 4 } else { *w as u32 / 8 };
            if o.size != want {
                return Ok(Some(("intsize".into(), format!("integer of width {w} has size {}", o.size))));
            }
        }
        _ => {}
    }
    Ok(None)
}

/// C spelling for C-representable types (no 128-bit, no slices/str/any)
fn c_type(t: &Ty, structs: &mut Vec<String>, counter: &mut usize) -> Option<(String, String)> {
    // returns (prefix, suffix) so that "prefix name suffix" declares a field
    Some(match t {
        Ty::IInt(w) if [8, 16, 32, 64].contains(w) => (format!("int{w}_t"), String::new()),
        Ty::UInt(w) if [8, 16, 32, 64].contains(w) => (format!("uint{w}_t"), String::new()),
        Ty::IInt(u8::MAX) => ("intptr_t".into(), String::new()),
        Ty::UInt(u8::MAX) => ("uintptr_t".into(), String::new()),
        Ty::Float(32) => ("float".into(), String::new()),
        Ty::Float(64) => ("double".into(), String::new()),
        Ty::Bool => ("_Bool".into(), String::new()),
        Ty::Char => ("char".into(), String::new()),
        Ty::Pointer { .. } | Ty::RawPtr { .. } | Ty::String => ("void*".into(), String::new()),
        Ty::FunctionPointer { .. } => ("void*".into(), String::new()),
        Ty::Distinct { sub_ty, .. } => return c_type(sub_ty, structs, counter),
        Ty::ConcreteArray { size, sub_ty } if *size > 0 => {
            let (p, s) = c_type(sub_ty, structs, counter)?;
            (p, format!("[{size}]{s}"))
        }
        Ty::ConcreteStruct { members, .. } | Ty::AnonStruct { members } if !members.is_empty() => {
            let mut body = String::new();
            for (i, m) in members.iter().enumerate() {
                let (p, s) = c_type(&m.ty, structs, counter)?;
                body.push_str(&format!(" {p} f{i}{s};"));
            }
            *counter += 1;
            let name = format!("N{}", *counter);
            structs.push(format!("struct {name} {{{body} }};"));
            (format!("struct {name}"), String::new())
        }
        _ => return None,
    })
}

pub fn run(args: &Args) -> Value {
    let mut rep = Report::new("C17");
    let ptr_bits = args.num("ptr", 64) as u32;
    let ptr_bytes = ptr_bits / 8;
    let mut g = Gen::new();
    let mut rng = Rng::new(args.seed ^ 0x17);
    let s0 = g.primitives(false);
    // representative member pool for struct/enum shapes
    let reps: Vec<Intern<Ty>> = vec![
        it(Ty::UInt(8)), it(Ty::UInt(16)), it(Ty::UInt(32)), it(Ty::UInt(64)), it(Ty::UInt(128)), it(Ty::Float(64)),
        it(Ty::Pointer { mutable: false, sub_ty: it(Ty::UInt(8)) }), it(Ty::Void),
    ];
    let mut s1: Vec<Intern<Ty>> = s0.clone();
    for t in &s0 {
        g.unary(*t, &mut s1);
    }
    for e in &reps {
        for p in &s0 {
            s1.push(it(Ty::ErrorUnion { error_ty: *e, payload_ty: *p }));
            s1.push(it(Ty::ErrorUnion { error_ty: *p, payload_ty: *e }));
        }
    }
    // struct / enum shapes: all member tuples of length 1..3 over the representative pool, length 4 sampled
    let mut shapes: Vec<Vec<Intern<Ty>>> = vec![];
    for a in &reps {
        shapes.push(vec![*a]);
        for b in &reps {
            shapes.push(vec![*a, *b]);
            for c in &reps {
                shapes.push(vec![*a, *b, *c]);
            }
        }
    }
    let n4 = if args.thorough() { 4096 } else { 600 };
    for _ in 0..n4 {
        shapes.push((0..4).map(|_| *rng.pick(&reps)).collect());
    }
    let mut structs = vec![];
    for sh in &shapes {
        let st = g.strukt(sh, false);
        structs.push(st);
        s1.push(st);
        let (e, vs) = g.enumm(sh, false);
        s1.push(e);
        s1.extend(vs);
    }
    s1.push(g.strukt(&[], false));
    s1.push(g.fn_ptr(&[s0[0]], s0[1]));
    // depth 2: unary constructors over everything of depth <= 1 (exhaustive), sampled binary/structural
    let mut s2: Vec<Intern<Ty>> = vec![];
    for t in &s1 {
        g.unary(*t, &mut s2);
    }
    let n_s2 = if args.thorough() { 200_000 } else { 20_000 };
    for _ in 0..n_s2 {
        let t = g.random_composite(&mut rng, &s1);
        s2.push(t);
    }
    // depth 3: sampled
    let mut pool2 = s1.clone();
    pool2.extend(s2.iter().copied());
    let mut s3 = vec![];
    let n_s3 = if args.thorough() { 300_000 } else { 20_000 };
    for _ in 0..n_s3 {
        let t = g.random_composite(&mut rng, &pool2);
        s3.push(t);
    }
    let mut all: Vec<Intern<Ty>> = vec![];
    let mut seen = HashSet::new();
    for t in s1.iter().chain(s2.iter()).chain(s3.iter()) {
        if seen.insert(*t) {
            all.push(*t);
        }
    }
    rep.count("types_depth_le_1", s1.len() as u64);
    rep.count("types_depth_2", s2.len() as u64);
    rep.count("types_depth_3_sampled", s3.len() as u64);
    if let Err(p) = guarded(|| codegen::verif::calc_layouts(all.iter().copied(), ptr_bits)) {
        rep.violation("panic", &format!("calc_layouts panicked: {p}"), json!({"ptr_bits": ptr_bits}));
        return rep.finish();
    }
    for t in &all {
        rep.evaluations += 1;
        match judge(*t, ptr_bytes) {
            Err(p) => rep.violation("panic", &format!("layout query panicked: {p}"), json!({"type": show(t), "ptr_bits": ptr_bits})),
            Ok(Some((k, m))) => rep.violation(&k, &m, json!({"type": show(t), "ptr_bits": ptr_bits})),
            Ok(None) => {}
        }
        if !matches!(kind(t), "prim" | "int" | "float") {
            let o = observe(*t).ok();
            if let Some(o) = o {
                rep.sig(format!("{}:{}:{}:{:?}:{:?}", kind(t), o.size, o.align, o.offsets, o.disc));
                if rep.samples.len() < 6 && (o.offsets.as_ref().is_some_and(|v| v.len() >= 3) || o.disc.is_some_and(|d| d > 8)) {
                    rep.sample(json!({"type": show(t), "size": o.size, "align": o.align, "stride": o.stride, "offsets": o.offsets, "tag_offset": o.disc}));
                }
            }
        }
    }
    rep.exhaustive = true;
    rep.notes.push(format!(
        "pointer width {ptr_bits}: exhaustive = every unary constructor (3 array lengths, slice, ^, ^mut, distinct, optional) over all primitives and again over all {} depth<=1 types; struct/enum shapes = all member tuples of length 1..3 over 8 representative member types, length 4 sampled; error unions, depth-2 structural and all depth-3 types sampled",
        s1.len()
    ));
    // C cross-check cases (64-bit only): structs made of C-representable members
    if ptr_bits == 64 {
        let c_members: Vec<Intern<Ty>> = vec![
            it(Ty::UInt(8)), it(Ty::IInt(16)), it(Ty::UInt(32)), it(Ty::IInt(64)), it(Ty::Float(32)), it(Ty::Float(64)), it(Ty::Bool), it(Ty::Char),
            it(Ty::Pointer { mutable: false, sub_ty: it(Ty::UInt(8)) }), it(Ty::ConcreteArray { size: 3, sub_ty: it(Ty::UInt(8)) }),
            it(Ty::ConcreteArray { size: 2, sub_ty: it(Ty::UInt(16)) }), it(Ty::UInt(u8::MAX)),
        ];
        let mut cases = vec![];
        let mut cstructs: Vec<Intern<Ty>> = vec![];
        let n_c = if args.thorough() { 6000 } else { 800 };
        for i in 0..n_c {
            let n = 1 + rng.below(5);
            let ms: Vec<Intern<Ty>> = (0..n).map(|_| *rng.pick(&c_members)).collect();
            // flat structs of scalars (and arrays of scalars) only: capy places a field directly
            // after a nested struct's *size* (re-using its tail padding), which C never does; nested
            // structs are outside the property's C comparison ("structs of scalars")
            let _ = i;
            let st = g.strukt(&ms, false);
            cstructs.push(st);
        }
        if let Err(p) = guarded(|| codegen::verif::calc_layouts(cstructs.iter().copied(), ptr_bits)) {
            rep.violation("panic", &format!("calc_layouts panicked: {p}"), json!({}));
        } else {
            for st in &cstructs {
                let mut defs = vec![];
                let mut counter = cases.len() * 100;
                if let Some((p, _)) = c_type(st, &mut defs, &mut counter) {
                    if let Ok(o) = observe(*st) {
                        let nfields = match st.as_ref() {
                            Ty::ConcreteStruct { members, .. } => members.len(),
                            _ => 0,
                        };
                        cases.push(json!({"defs": defs, "ctype": p, "nfields": nfields, "offsets": o.offsets, "stride": o.stride, "align": o.align, "type": show(st)}));
                    }
                }
            }
        }
        rep.count("c_cases", cases.len() as u64);
        let mut v = rep.finish();
        v["c_cases"] = Value::Array(cases);
        return v;
    }
    rep.finish()
}
