//! C12 — implicit conversion is consistent, order-independent and weaker than casting.
//! Monitors the return values (and panics) of the real Ty relations on a realisable type universe.
use crate::tygen::*;
use crate::util::*;
use hir::common::{MemberTy, Ty};
use internment::Intern;
use serde_json::{json, Value};

pub fn kind(t: &Ty) -> &'static str {
    match t {
        Ty::IInt(0) => "{int}",
        Ty::UInt(0) => "{uint}",
        Ty::Float(0) => "{float}",
        Ty::IInt(_) => "int",
        Ty::UInt(_) => "uint",
        Ty::Float(_) => "float",
        Ty::Bool => "bool",
        Ty::String => "str",
        Ty::Char => "char",
        Ty::AnonArray { .. } => "anon_array",
        Ty::ConcreteArray { .. } => "array",
        Ty::Slice { .. } => "slice",
        Ty::Pointer { .. } => "ptr",
        Ty::Distinct { .. } => "distinct",
        Ty::Type => "type",
        Ty::Any => "any",
        Ty::RawPtr { .. } => "rawptr",
        Ty::RawSlice => "rawslice",
        Ty::FunctionPointer { .. } => "fnptr",
        Ty::AnonStruct { .. } => "anon_struct",
        Ty::ConcreteStruct { .. } => "struct",
        Ty::Enum { .. } => "enum",
        Ty::EnumVariant { .. } => "variant",
        Ty::Nil => "nil",
        Ty::Optional { .. } => "optional",
        Ty::ErrorUnion { .. } => "errunion",
        Ty::Void => "void",
        _ => "other",
    }
}

pub fn show(t: &Ty) -> String {
    match t {
        Ty::IInt(0) => "{int}".into(),
        Ty::UInt(0) => "{uint}".into(),
        Ty::Float(0) => "{float}".into(),
        Ty::IInt(u8::MAX) => "isize".into(),
        Ty::UInt(u8::MAX) => "usize".into(),
        Ty::IInt(w) => format!("i{w}"),
        Ty::UInt(w) => format!("u{w}"),
        Ty::Float(w) => format!("f{w}"),
        Ty::Bool => "bool".into(),
        Ty::String => "str".into(),
        Ty::Char => "char".into(),
        Ty::Type => "type".into(),
        Ty::Any => "any".into(),
        Ty::Void => "void".into(),
        Ty::Nil => "nil".into(),
        Ty::RawSlice => "rawslice".into(),
        Ty::RawPtr { mutable } => if *mutable { "mut rawptr".into() } else { "rawptr".into() },
        Ty::AnonArray { size, sub_ty } => format!("~[{size}]{}", show(sub_ty)),
        Ty::ConcreteArray { size, sub_ty } => format!("[{size}]{}", show(sub_ty)),
        Ty::Slice { sub_ty } => format!("[]{}", show(sub_ty)),
        Ty::Pointer { mutable, sub_ty } => format!("^{}{}", if *mutable { "mut " } else { "" }, show(sub_ty)),
        Ty::Distinct { uid, sub_ty } => format!("distinct'{uid} {}", show(sub_ty)),
        Ty::Optional { sub_ty } => format!("?{}", show(sub_ty)),
        Ty::ErrorUnion { error_ty, payload_ty } => format!("{}!{}", show(error_ty), show(payload_ty)),
        Ty::AnonStruct { members } => format!("~struct{{{}}}", members.iter().map(|m| show(&m.ty)).collect::<Vec<_>>().join(",")),
        Ty::ConcreteStruct { uid, members } => format!("struct'{uid}{{{}}}", members.iter().map(|m| show(&m.ty)).collect::<Vec<_>>().join(",")),
        Ty::Enum { uid, variants } => format!("enum'{uid}{{{}}}", variants.iter().map(|v| show(v)).collect::<Vec<_>>().join(",")),
        Ty::EnumVariant { enum_uid, uid, sub_ty, .. } => format!("variant'{uid}of'{enum_uid}({})", show(sub_ty)),
        Ty::FunctionPointer { param_tys, return_ty } => format!("({})->{}", param_tys.iter().map(|p| show(&p.ty)).collect::<Vec<_>>().join(","), show(return_ty)),
        other => format!("{other:?}"),
    }
}

/// "A is accepted where E is expected", as the checker decides it: can_fit_into, plus the
/// documented rule that a zero-sized value is accepted where `type` is expected
fn accepted(a: &Ty, e: &Ty) -> bool {
    a.can_fit_into(e) || (matches!(e, Ty::Type) && a.is_zero_sized())
}

pub struct Universe {
    pub strong: Vec<Intern<Ty>>, // types that can be written in source
    pub all: Vec<Intern<Ty>>,    // + types that only values have (weak numbers, nil, anonymous aggregates, variants)
}

pub fn universe(g: &mut Gen, rng: &mut Rng, depth2_samples: usize) -> Universe {
    let prims_strong = g.primitives(false);
    let scalars: Vec<Intern<Ty>> = prims_strong.iter().copied().filter(|t| !matches!(t.as_ref(), Ty::Void | Ty::Nil | Ty::Type | Ty::Any | Ty::RawSlice)).collect();
    let mut strong: Vec<Intern<Ty>> = prims_strong.iter().copied().filter(|t| !matches!(t.as_ref(), Ty::Nil)).collect();
    let mut value_only: Vec<Intern<Ty>> = vec![it(Ty::IInt(0)), it(Ty::UInt(0)), it(Ty::Float(0)), it(Ty::Nil)];
    let base: Vec<Intern<Ty>> = strong.clone();
    // one constructor application over every strong primitive (uid pools of size 2 for nominal types)
    for t in &base {
        if matches!(t.as_ref(), Ty::Void) {
            continue;
        }
        strong.push(it(Ty::ConcreteArray { size: 2, sub_ty: *t }));
        strong.push(it(Ty::ConcreteArray { size: 3, sub_ty: *t }));
        strong.push(it(Ty::Slice { sub_ty: *t }));
        strong.push(it(Ty::Pointer { mutable: false, sub_ty: *t }));
        strong.push(it(Ty::Pointer { mutable: true, sub_ty: *t }));
        strong.push(it(Ty::Optional { sub_ty: *t }));
        strong.push(g.distinct(*t));
        strong.push(g.distinct(*t));
        // anonymous array literal of that element type (value-only)
        value_only.push(it(Ty::AnonArray { size: 2, sub_ty: *t }));
    }
    // weak element types occur in anonymous array/struct literals, behind a reference to a literal, and in optionals made by max
    for w in [Ty::IInt(0), Ty::UInt(0), Ty::Float(0)] {
        value_only.push(it(Ty::AnonArray { size: 2, sub_ty: it(w.clone()) }));
        value_only.push(it(Ty::Pointer { mutable: false, sub_ty: it(w.clone()) }));
        value_only.push(it(Ty::Pointer { mutable: true, sub_ty: it(w.clone()) }));
        value_only.push(it(Ty::Optional { sub_ty: it(w.clone()) }));
        value_only.push(it(Ty::AnonStruct { members: vec![MemberTy { name: g.names[0], ty: it(w.clone()) }] }));
    }
    // error unions over a few scalars
    let few: Vec<Intern<Ty>> = vec![it(Ty::IInt(32)), it(Ty::UInt(8)), it(Ty::Bool), it(Ty::String), it(Ty::Float(64)), it(Ty::Void)];
    for e in &few {
        for p in &few {
            if e != p {
                strong.push(it(Ty::ErrorUnion { error_ty: *e, payload_ty: *p }));
            }
        }
    }
    // structs (two declarations with identical members), anonymous structs, enums with variants, fn pointers
    for ms in [vec![scalars[2]], vec![scalars[2], scalars[14]], vec![scalars[7], scalars[13], scalars[0]]] {
        strong.push(g.strukt(&ms, false));
        strong.push(g.strukt(&ms, false));
        value_only.push(g.strukt(&ms, true));
    }
    for payloads in [vec![it(Ty::Void), it(Ty::Void)], vec![it(Ty::IInt(32)), it(Ty::Void), it(Ty::String)], vec![it(Ty::IInt(32)), it(Ty::Void), it(Ty::String)]] {
        let (e, vs) = g.enumm(&payloads, false);
        strong.push(e);
        strong.extend(vs);
    }
    strong.push(g.fn_ptr(&[], it(Ty::Void)));
    strong.push(g.fn_ptr(&[it(Ty::IInt(32))], it(Ty::IInt(32))));
    strong.push(g.fn_ptr(&[it(Ty::IInt(64))], it(Ty::IInt(32))));
    // depth 2: sampled second constructor over strong depth-1 types
    let d1 = strong.clone();
    for _ in 0..depth2_samples {
        let t = *rng.pick(&d1);
        if matches!(t.as_ref(), Ty::Void) {
            continue;
        }
        let n = match rng.below(8) {
            0 => it(Ty::ConcreteArray { size: 2, sub_ty: t }),
            1 => it(Ty::Slice { sub_ty: t }),
            2 => it(Ty::Pointer { mutable: rng.chance(1, 2), sub_ty: t }),
            3 => it(Ty::Optional { sub_ty: t }),
            4 => g.distinct(t),
            5 => it(Ty::ErrorUnion { error_ty: *rng.pick(&few), payload_ty: t }),
            6 => g.strukt(&[t, *rng.pick(&d1)], false),
            _ => {
                value_only.push(it(Ty::AnonArray { size: 2, sub_ty: t }));
                g.strukt(&[t], true)
            }
        };
        strong.push(n);
    }
    let mut all = strong.clone();
    all.extend(value_only);
    let mut seen = std::collections::HashSet::new();
    all.retain(|t| seen.insert(*t));
    let mut seen = std::collections::HashSet::new();
    strong.retain(|t| seen.insert(*t));
    Universe { strong, all }
}

fn check_pair(rep: &mut Report, a: Intern<Ty>, b: Intern<Ty>) {
    rep.evaluations += 1;
    let (ta, tb): (&Ty, &Ty) = (&a, &b);
    let r = guarded(|| {
        let fit = ta.can_fit_into(tb);
        let cast = ta.can_cast_to(tb);
        let weak = ta.might_be_weak() && ta.is_weak_replaceable_by(tb);
        let m_ab = ta.max(tb);
        let m_ba = tb.max(ta);
        (fit, cast, weak, m_ab, m_ba)
    });
    let pair = || json!({"a": show(ta), "b": show(tb)});
    let class = |law: &str| format!("{law}:{}:{}", kind(ta), kind(tb));
    match r {
        Err(p) => rep.violation(&format!("panic:{}:{}", kind(ta), kind(tb)), &format!("a type relation panicked: {p}"), pair()),
        Ok((fit, cast, weak, m_ab, m_ba)) => {
            if fit && !cast {
                rep.violation(&class("fit_not_cast"), "A is implicitly accepted where B is expected but the explicit cast A -> B is rejected", pair());
            }
            if weak && !fit {
                rep.violation(&class("weak_not_fit"), "weak A can be specialised to B but A is not accepted where B is expected", pair());
            }
            if m_ab != m_ba {
                let mut v = pair();
                v["max_ab"] = json!(m_ab.as_ref().map(show));
                v["max_ba"] = json!(m_ba.as_ref().map(show));
                rep.violation(&class("max_order"), "the common type depends on the order of the operands", v);
            }
            if let Some(m) = &m_ab {
                let ok = guarded(|| (accepted(ta, m), accepted(tb, m)));
                match ok {
                    Err(p) => rep.violation(&format!("panic:{}:{}", kind(ta), kind(tb)), &format!("can_fit_into(max) panicked: {p}"), pair()),
                    Ok((fa, fb)) => {
                        if !fa || !fb {
                            let mut v = pair();
                            v["max"] = json!(show(m));
                            v["a_accepted"] = json!(fa);
                            v["b_accepted"] = json!(fb);
                            v["_sig"] = json!(format!("max_not_upper|{}|{}|{}", show(ta), show(tb), show(m)));
                            rep.violation(&class("max_not_upper"), "the common type does not accept both operands", v);
                        }
                    }
                }
                if a != b {
                    rep.sig(format!("max:{}:{}:{}", show(ta), show(tb), show(m)));
                }
                if rep.samples.len() < 6 && a != b && kind(ta) != kind(tb) {
                    rep.sample(json!({"a": show(ta), "b": show(tb), "max": show(m), "a_fits_b": fit, "a_casts_b": cast}));
                }
            } else if fit && a != b {
                rep.sig(format!("fit:{}:{}", show(ta), show(tb)));
            }
        }
    }
}

pub fn run(args: &Args) -> Value {
    let mut rep = Report::new("C12");
    let mut g = Gen::new();
    let mut rng = Rng::new(args.seed ^ 0x12);
    let u = universe(&mut g, &mut rng, if args.thorough() { 2000 } else { 500 });
    rep.count("universe_strong", u.strong.len() as u64);
    rep.count("universe_all", u.all.len() as u64);
    // reflexivity on everything
    for t in &u.all {
        rep.evaluations += 1;
        match guarded(|| t.can_fit_into(t)) {
            Err(p) => rep.violation("panic:refl", &format!("can_fit_into(A, A) panicked: {p}"), json!({"a": show(t)})),
            Ok(false) => rep.violation(&format!("refl:{}", kind(t)), "A is not accepted where A is expected", json!({"a": show(t)})),
            Ok(true) => {}
        }
    }
    // all ordered pairs (value type A, expected/other type B)
    let n = u.all.len();
    let full_pairs = n * n <= 4_000_000 || args.thorough();
    if full_pairs {
        for a in &u.all {
            for b in &u.all {
                check_pair(&mut rep, *a, *b);
            }
        }
        rep.exhaustive = true;
    } else {
        let samples = args.num("pairs", 2_000_000);
        for _ in 0..samples {
            let a = *rng.pick(&u.all);
            let b = *rng.pick(&u.all);
            check_pair(&mut rep, a, b);
        }
    }
    rep.notes.push(format!(
        "universe: {} types (every primitive, weak {{int}}/{{uint}}/{{float}}, nil, void; one constructor over every primitive exhaustively with uid pools of size 2; sampled second constructor); all ordered pairs = {}",
        n, full_pairs
    ));
    rep.finish()
}
