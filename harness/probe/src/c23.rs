//! C23 — parsing is total, terminating (logical-step budget via hook H3) and lossless.
use crate::c22;
use crate::util::*;
use serde_json::{json, Value};
use syntax::{SyntaxElement, SyntaxNode, SyntaxTree};

pub const SET_A: [&str; 14] = ["a", "1", "(", ")", "{", "}", "[", "]", ":", "=", ";", ",", ".", "-"];
pub const SET_B: [&str; 14] = ["a", "if", "else", "while", "switch", "in", "=>", "comptime", "struct", "`", "#", "^", "{", "}"];
pub const SET_C: [&str; 14] = ["a", "::", "(", ")", "->", "{", "}", "enum", "|", "?", "!", ".", "\"s\"", "defer"];

pub struct ParseObs {
    pub tokens: usize,
    pub steps: u64,
    pub errors: usize,
    pub depth: usize,
}

fn tree_depth(node: SyntaxNode, tree: &SyntaxTree, d: usize, max: &mut usize) {
    if d > *max {
        *max = d;
    }
    if d > 5000 {
        return;
    }
    for c in node.child_nodes(tree) {
        tree_depth(c, tree, d + 1, max);
    }
}

/// parse with the real parser and check the three observable claims.
/// Err((key, message)) on violation
pub fn parse_and_check(text: &str, repl: bool, step_limit: u64) -> Result<ParseObs, (String, String)> {
    let r = guarded(|| {
        let tokens = lexer::lex(text);
        let ntok = tokens.len();
        parser::verif::take_steps();
        parser::verif::set_step_limit(step_limit);
        let parse = if repl {
            parser::parse_repl_line(&tokens, text)
        } else {
            parser::parse_source_file(&tokens, text)
        };
        parser::verif::set_step_limit(0);
        let steps = parser::verif::take_steps();
        let tree = parse.syntax_tree();
        // lossless: the tokens of the tree, in order, spell the input
        let mut rebuilt = String::with_capacity(text.len());
        let mut pos_ok = true;
        let mut pos = 0usize;
        for el in tree.root().descendants(tree) {
            if let SyntaxElement::Token(t) = el {
                let r = t.range(tree);
                if u32::from(r.start()) as usize != pos {
                    pos_ok = false;
                }
                pos = u32::from(r.end()) as usize;
                rebuilt.push_str(t.text(tree));
            }
        }
        let mut problems: Vec<(String, String)> = vec![];
        if rebuilt != text {
            problems.push(("lossless".into(), format!("tree text differs from input: {:?}", rebuilt.chars().take(80).collect::<String>())));
        } else if !pos_ok {
            problems.push(("lossless".into(), "tree tokens are not contiguous".into()));
        }
        if ntok > 0 {
            let rr = tree.root().range(tree);
            if u32::from(rr.end()) as usize > text.len() {
                problems.push(("range".into(), "root range exceeds the input".into()));
            }
        }
        let n = text.len() as u32;
        for e in parse.errors() {
            match e.kind {
                parser::SyntaxErrorKind::Missing { offset } => {
                    if u32::from(offset) > n {
                        problems.push(("errloc".into(), format!("error offset {} > len {n}", u32::from(offset))));
                    }
                }
                parser::SyntaxErrorKind::UnexpectedToken { range, .. } | parser::SyntaxErrorKind::UnexpectedNode { range, .. } => {
                    if u32::from(range.end()) > n || range.start() > range.end() {
                        problems.push(("errloc".into(), format!("error range {:?} outside 0..{n}", range)));
                    }
                }
            }
        }
        let mut depth = 0;
        tree_depth(tree.root(), tree, 0, &mut depth);
        (ParseObs { tokens: ntok, steps, errors: parse.errors().len(), depth }, problems)
    });
    parser::verif::set_step_limit(0);
    match r {
        Err(p) => {
            if p.contains("parser step limit") {
                Err(("steps".into(), format!("parser exceeded the logical step budget ({p})")))
            } else {
                Err(("panic".into(), format!("parser panicked: {p}")))
            }
        }
        Ok((obs, problems)) => {
            if let Some(p) = problems.into_iter().next() {
                Err(p)
            } else {
                Ok(obs)
            }
        }
    }
}

pub struct Ctx {
    pub max_ratio_x1000: u64,
    pub worst: String,
    pub budget_c: u64,
}

pub fn step_budget(text_len: usize, c: u64) -> u64 {
    // generous: the budget only has to separate "linear-ish" from "runaway"
    c * (text_len as u64 + 16) * 64
}

pub fn check_one(rep: &mut Report, ctx: &mut Ctx, text: &str, origin: &str) {
    for repl in [false, true] {
        rep.evaluations += 1;
        let limit = step_budget(text.len(), ctx.budget_c);
        match parse_and_check(text, repl, limit) {
            Err((k, m)) => {
                rep.violation(&k, &format!("{} ({})", m, if repl { "repl_line" } else { "source_file" }), json!({"text": text, "repl": repl, "origin": origin}));
            }
            Ok(o) => {
                rep.count("tokens", o.tokens as u64);
                rep.count("steps", o.steps);
                rep.count("syntax_errors", o.errors as u64);
                // linearity monitor: steps per (token+1)(depth+1)
                let denom = (o.tokens as u64 + 1) * (o.depth as u64 + 1);
                let ratio = o.steps * 1000 / denom.max(1);
                if ratio > ctx.max_ratio_x1000 {
                    ctx.max_ratio_x1000 = ratio;
                    ctx.worst = text.chars().take(120).collect();
                }
                if o.errors > 0 && o.tokens >= 2 {
                    rep.sig(format!("{}:{}:{}:{}", repl, o.tokens.min(12), o.errors.min(6), o.depth.min(8)));
                } else if o.tokens >= 3 {
                    rep.sig(format!("ok:{}:{}:{}", repl, o.tokens.min(12), o.depth.min(8)));
                }
                if rep.samples.len() < 4 && o.errors > 0 && o.tokens > 3 && !repl {
                    rep.sample(json!({"text": text.chars().take(80).collect::<String>(), "tokens": o.tokens, "errors": o.errors, "steps": o.steps, "depth": o.depth}));
                }
            }
        }
    }
}

fn enumerate_seqs(set: &[&str], max_len: usize, shard: u64, shards: u64, mut f: impl FnMut(&str)) -> u64 {
    let mut buf = String::new();
    let mut count = 0u64;
    let mut global = 0u64;
    for len in 1..=max_len {
        let total = (set.len() as u64).pow(len as u32);
        for mut code in 0..total {
            global += 1;
            if global % shards != shard {
                continue;
            }
            buf.clear();
            for i in 0..len {
                if i > 0 {
                    buf.push(' ');
                }
                buf.push_str(set[(code % set.len() as u64) as usize]);
                code /= set.len() as u64;
            }
            count += 1;
            f(&buf);
        }
    }
    count
}

/// deep nesting families: must parse (or be rejected) without panic/stack overflow up to depth 200
fn nesting_family(kind: usize, depth: usize) -> String {
    let (open, close, core): (&str, &str, &str) = match kind {
        0 => ("(", ")", "a"),
        1 => ("{", "}", "a"),
        2 => ("[", "]", "a"),
        3 => ("f(", ")", "a"),
        4 => ("if a {", "}", "b"),
        5 => ("a[", "]", "1"),
        6 => ("-", "", "a"),
        7 => ("^", "", "a"),
        8 => (".{ x = ", "}", "1"),
        9 => ("struct { a: ", "}", "i32"),
        10 => ("?", "", "i32"),
        11 => ("comptime {", "}", "1"),
        12 => ("switch e in a { .X => ", "}", "1"),
        13 => ("(x: i32) -> i32 {", "}", "x"),
        14 => ("(", "", "a"),  // unbalanced
        15 => ("", ")", "a"),  // unbalanced
        _ => ("{", "", "a"),
    };
    let mut s = String::from("x :: ");
    for _ in 0..depth {
        s.push_str(open);
    }
    s.push_str(core);
    for _ in 0..depth {
        s.push_str(close);
    }
    s.push(';');
    s
}

fn scaling_unit(kind: usize) -> &'static str {
    match kind {
        0 => "x :: 1 + 2 * 3;\n",
        1 => "f :: (a: i32, b: i32) -> i32 { a + b };\n",
        2 => "x :: ) ( ] ;\n",
        3 => "g :: () { if a { b } else { c } ; while x { y = 1; } }\n",
        4 => "s :: struct { a: i32, b: [3]u8 };\n",
        5 => "x :: a.b.c(1, 2)[3].try;\n",
        6 => "x : = = ;\n",
        7 => "e :: enum { A, B: i32 | 5, };\n",
        _ => "x :: { { ( a ) ( ) } } ] ;\n",
    }
}

pub fn run(args: &Args, corpus: &[String]) -> Value {
    let mut rep = Report::new("C23");
    let shard = args.num("shard", 0);
    let shards = args.num("shards", 1).max(1);
    let max_len = args.num("maxlen", if args.thorough() { 6 } else { 4 }) as usize;
    let mut ctx = Ctx { max_ratio_x1000: 0, worst: String::new(), budget_c: args.num("budgetc", 50) };
    let mut n_enum = 0;
    let lite_early = args.num("lite", 0) != 0;
    let ml_bc = if lite_early { max_len } else { max_len.saturating_sub(1).max(3) };
    for (set, ml) in [(&SET_A, max_len), (&SET_B, ml_bc), (&SET_C, ml_bc)] {
        n_enum += enumerate_seqs(&set[..], ml, shard, shards, |s| check_one(&mut rep, &mut ctx, s, "enum"));
    }
    rep.count("sequences_enumerated", n_enum);
    rep.exhaustive = true;
    rep.notes.push(format!(
        "all token sequences of length <= {max_len} over set A and <= {} over sets B and C (14 tokens each), as source file and as REPL line",
        max_len.saturating_sub(1).max(3)
    ));
    // deep nesting (only shard 0 does the deterministic families)
    // `--lite 1` (interpreted runs under Miri): shallow nesting only, no scaling families
    let lite = args.num("lite", 0) != 0;
    if shard == 0 || lite {
        for kind in 0..17 {
            for depth in [1usize, 2, 5, 20, 60, 120, 200] {
                // interpreted run: shallow nesting only, and the families are spread over the shards
                if lite && (depth > 20 || depth == 2 || (kind as u64 + depth as u64) % shards != shard) {
                    continue;
                }
                let s = nesting_family(kind, depth);
                check_one(&mut rep, &mut ctx, &s, "nesting");
                rep.count("nesting_inputs", 1);
            }
        }
        // scaling families: steps(4n)/steps(n) must stay near 4
        for kind in 0..(if lite { 0 } else { 9 }) {
            let unit = scaling_unit(kind);
            let mut steps = vec![];
            for n in [64usize, 256, 1024] {
                let text = unit.repeat(n);
                match parse_and_check(&text, false, 0) {
                    Ok(o) => steps.push(o.steps),
                    Err((k, m)) => {
                        rep.violation(&k, &m, json!({"text_unit": unit, "repeat": n}));
                        steps.push(0);
                    }
                }
                rep.evaluations += 1;
            }
            rep.count("scaling_families", 1);
            if steps.iter().all(|s| *s > 0) {
                for w in steps.windows(2) {
                    let ratio = w[1] as f64 / w[0] as f64;
                    if ratio > 4.6 {
                        rep.violation(
                            "scaling",
                            &format!("parser steps grow super-linearly: x4 input -> x{ratio:.2} steps ({steps:?})"),
                            json!({"text_unit": unit}),
                        );
                    }
                }
                rep.sig(format!("scale:{kind}"));
            }
        }
    }
    let mut rng = Rng::new(args.seed ^ 0x23 ^ (shard << 32));
    let n_rand = args.num("random", if args.thorough() { 400_000 } else { 20_000 }) / shards;
    let all: Vec<&str> = SET_A.iter().chain(SET_B.iter()).chain(SET_C.iter()).copied().chain(["1.5", "'c'", "0x1F", "true", "..", "...", "<<", ">=", "&&", "||", "~", "*", "/", "%", "+", "distinct", "mut", "extern", "return", "break", "continue", "loop", "try", "catch", "as", "// c\n", "\n", "é", "\u{a0}", "\\"]).collect();
    for _ in 0..n_rand {
        let ml = if lite_early { 12 } else if rng.chance(1, 20) { 400 } else { 24 };
        let len = 1 + rng.below(ml);
        let mut s = String::new();
        for _ in 0..len {
            s.push_str(all[rng.below(all.len())]);
            if rng.chance(3, 4) {
                s.push(' ');
            }
        }
        check_one(&mut rep, &mut ctx, &s, "soup");
    }
    rep.count("random_soups", n_rand);
    if !corpus.is_empty() {
        let n_mut = args.num("mutants", if args.thorough() { 120_000 } else { 6_000 }) / shards;
        if lite {
            // interpreted run: the corpus files are spread over the shards, a few per shard
            let per = args.num("corpusfiles", 6) as usize;
            let mine: Vec<&String> = corpus.iter().enumerate().filter(|(i, _)| *i as u64 % shards == shard).map(|(_, c)| c).collect();
            for k in 0..per.min(mine.len()) {
                let c = mine[(k * 7919 + args.seed as usize) % mine.len()];
                check_one(&mut rep, &mut ctx, c, "corpus");
                rep.count("corpus_files", 1);
            }
        } else if shard == 0 {
            for c in corpus {
                check_one(&mut rep, &mut ctx, c, "corpus");
            }
            rep.count("corpus_files", corpus.len() as u64);
        }
        for _ in 0..n_mut {
            let src = &corpus[rng.below(corpus.len())];
            let m = if rng.chance(1, 2) { c22::mutate(&mut rng, src, 65536) } else { token_mutate(&mut rng, src) };
            check_one(&mut rep, &mut ctx, &m, "mutant");
        }
        rep.count("mutants", n_mut);
    }
    rep.count("max_steps_per_token_depth_x1000", 0);
    rep.counters.insert("max_steps_per_token_depth_x1000".into(), ctx.max_ratio_x1000);
    rep.notes.push(format!("worst steps/((tokens+1)(depth+1)) = {:.3} on {:?}", ctx.max_ratio_x1000 as f64 / 1000.0, ctx.worst));
    rep.finish()
}

/// token-level mutation: delete / duplicate / swap / replace whole tokens of a corpus file
pub fn token_mutate(rng: &mut Rng, src: &str) -> String {
    let toks = match c22::lex_observe(src) {
        Ok(t) => t,
        Err(_) => return src.to_string(),
    };
    let mut parts: Vec<String> = toks.iter().map(|t| src[t.start..t.end].to_string()).collect();
    if parts.is_empty() {
        return String::new();
    }
    for _ in 0..1 + rng.below(3) {
        if parts.is_empty() {
            break;
        }
        let p = rng.below(parts.len());
        match rng.below(5) {
            0 => {
                parts.remove(p);
            }
            1 => {
                let x = parts[p].clone();
                parts.insert(p, x);
            }
            2 => {
                let q = rng.below(parts.len());
                parts.swap(p, q);
            }
            3 => {
                let pool = ["(", ")", "{", "}", "[", "]", ";", ",", ".", ":", "=", "if", "else", "->", "=>", "^", "comptime", "struct", "`", "#"];
                parts[p] = pool[rng.below(pool.len())].to_string();
            }
            _ => {
                let q = (p + rng.below(12)).min(parts.len());
                parts.drain(p..q);
            }
        }
    }
    parts.concat()
}
