//! shared helpers for the probe: PRNG, report, panic capture
use serde_json::{json, Value};
use std::collections::BTreeMap;
use std::panic::{self, AssertUnwindSafe};

#[derive(Clone)]
pub struct Rng(pub u64);

impl Rng {
    pub fn new(seed: u64) -> Self {
        Rng(seed.wrapping_mul(0x9E3779B97F4A7C15) ^ 0xD1B54A32D192ED03)
    }
    pub fn next(&mut self) -> u64 {
        // splitmix64
        self.0 = self.0.wrapping_add(0x9E3779B97F4A7C15);
        let mut z = self.0;
        z = (z ^ (z >> 30)).wrapping_mul(0xBF58476D1CE4E5B9);
        z = (z ^ (z >> 27)).wrapping_mul(0x94D049BB133111EB);
        z ^ (z >> 31)
    }
    pub fn below(&mut self, n: usize) -> usize {
        if n == 0 {
            0
        } else {
            (self.next() % n as u64) as usize
        }
    }
    pub fn chance(&mut self, num: u64, den: u64) -> bool {
        self.next() % den < num
    }
    pub fn pick<'a, T>(&mut self, xs: &'a [T]) -> &'a T {
        &xs[self.below(xs.len())]
    }
}

/// what a check run reports back to the python driver
pub struct Report {
    pub prop: &'static str,
    pub evaluations: u64,
    pub distinct: std::collections::BTreeSet<String>,
    pub violations: Vec<Value>,
    pub samples: Vec<Value>,
    pub counters: BTreeMap<String, u64>,
    pub notes: Vec<String>,
    pub exhaustive: bool,
    pub max_violations: usize,
    pub max_per_key: usize,
    pub dropped_violations: u64,
}

impl Report {
    pub fn new(prop: &'static str) -> Self {
        Report {
            prop,
            evaluations: 0,
            distinct: Default::default(),
            violations: vec![],
            samples: vec![],
            counters: Default::default(),
            notes: vec![],
            exhaustive: false,
            max_violations: std::env::var("PROBE_MAXVIOL").ok().and_then(|v| v.parse().ok()).unwrap_or(40),
            max_per_key: std::env::var("PROBE_MAXPERKEY").ok().and_then(|v| v.parse().ok()).unwrap_or(3),
            dropped_violations: 0,
        }
    }
    pub fn count(&mut self, k: &str, n: u64) {
        *self.counters.entry(k.to_string()).or_insert(0) += n;
    }
    pub fn sig(&mut self, s: String) {
        if self.distinct.len() < 300_000 {
            self.distinct.insert(s);
        }
    }
    pub fn sample(&mut self, v: Value) {
        if self.samples.len() < 8 {
            self.samples.push(v);
        }
    }
    /// `key` identifies the failure class (used for known-finding matching and dedup)
    pub fn violation(&mut self, key: &str, what: &str, witness: Value) {
        let same = self
            .violations
            .iter()
            .filter(|v| v["key"].as_str() == Some(key))
            .count();
        if same >= self.max_per_key || self.violations.len() >= self.max_violations {
            self.dropped_violations += 1;
            self.count(&format!("violations_of_{key}"), 1);
            return;
        }
        self.count(&format!("violations_of_{key}"), 1);
        self.violations
            .push(json!({"key": key, "what": what, "witness": witness}));
    }
    pub fn finish(self) -> Value {
        json!({
            "property": self.prop,
            "evaluations": self.evaluations,
            "distinct_nontrivial": self.distinct.len(),
            "violations": self.violations,
            "dropped_violations": self.dropped_violations,
            "samples": self.samples,
            "counters": self.counters,
            "notes": self.notes,
            "exhaustive": self.exhaustive,
        })
    }
}

/// run `f`, turning a panic into Err(message)
pub fn guarded<T>(f: impl FnOnce() -> T) -> Result<T, String> {
    match panic::catch_unwind(AssertUnwindSafe(f)) {
        Ok(v) => Ok(v),
        Err(e) => {
            let msg = if let Some(s) = e.downcast_ref::<&str>() {
                s.to_string()
            } else if let Some(s) = e.downcast_ref::<String>() {
                s.clone()
            } else {
                "<non-string panic>".to_string()
            };
            let loc = LAST_PANIC_LOC.with(|l| l.borrow().clone());
            Err(format!("{msg} @ {loc}"))
        }
    }
}

thread_local! {
    pub static LAST_PANIC_LOC: std::cell::RefCell<String> = const { std::cell::RefCell::new(String::new()) };
}

pub fn install_quiet_panic_hook() {
    panic::set_hook(Box::new(|info| {
        let loc = info
            .location()
            .map(|l| format!("{}:{}", l.file(), l.line()))
            .unwrap_or_default();
        LAST_PANIC_LOC.with(|l| *l.borrow_mut() = loc);
    }));
}

pub struct Args {
    pub tier: String,
    pub seed: u64,
    pub rest: Vec<String>,
    pub kv: BTreeMap<String, String>,
}

impl Args {
    pub fn parse(args: &[String]) -> Args {
        let mut tier = "quick".to_string();
        let mut seed = 0u64;
        let mut rest = vec![];
        let mut kv = BTreeMap::new();
        let mut i = 0;
        while i < args.len() {
            let a = &args[i];
            if a == "--tier" {
                tier = args[i + 1].clone();
                i += 2;
            } else if a == "--seed" {
                seed = args[i + 1].parse().unwrap_or(0);
                i += 2;
            } else if let Some(k) = a.strip_prefix("--") {
                if i + 1 < args.len() {
                    kv.insert(k.to_string(), args[i + 1].clone());
                    i += 2;
                } else {
                    kv.insert(k.to_string(), String::new());
                    i += 1;
                }
            } else {
                rest.push(a.clone());
                i += 1;
            }
        }
        Args { tier, seed, rest, kv }
    }
    pub fn num(&self, k: &str, default: u64) -> u64 {
        self.kv.get(k).and_then(|v| v.parse().ok()).unwrap_or(default)
    }
    pub fn thorough(&self) -> bool {
        self.tier == "thorough"
    }
}
