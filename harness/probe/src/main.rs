//! probe: runs the real capy library code under generated workloads with oracles.
//! usage: probe <check> [--tier quick|thorough] [--seed N] [--corpus DIR] [--k v]...
//! prints one JSON report on the last stdout line, prefixed with "@@REPORT ".
mod util;
mod c22;
mod c23;
mod c24;
mod c25;
mod c26;
#[cfg(feature = "full")]
mod tygen;
#[cfg(feature = "full")]
mod c17;
#[cfg(feature = "full")]
mod c27;
#[cfg(feature = "full")]
mod c12;
#[cfg(feature = "full")]
mod pipeline;

use util::*;

fn load_corpus(dir: Option<&String>) -> Vec<String> {
    let mut out = vec![];
    if let Some(d) = dir {
        let mut names: Vec<_> = std::fs::read_dir(d)
            .map(|rd| rd.filter_map(|e| e.ok()).map(|e| e.path()).collect())
            .unwrap_or_default();
        names.sort();
        for p in names {
            if let Ok(s) = std::fs::read_to_string(&p) {
                out.push(s);
            }
        }
    }
    out
}

fn main() {
    let argv: Vec<String> = std::env::args().collect();
    if argv.len() < 2 {
        eprintln!("usage: probe <check> ...");
        std::process::exit(2);
    }
    let args = Args::parse(&argv[2..]);
    install_quiet_panic_hook();
    let corpus = load_corpus(args.kv.get("corpus"));
    if let Some(file) = args.kv.get("one") {
        let text = std::fs::read_to_string(file).expect("read --one file");
        let report = match argv[1].as_str() {
            "c22" => {
                let mut rep = Report::new("C22");
                c22::check_one(&mut rep, &text, "replay");
                rep.finish()
            }
            "c23" => {
                let mut rep = Report::new("C23");
                let mut ctx = c23::Ctx { max_ratio_x1000: 0, worst: String::new(), budget_c: args.num("budgetc", 50) };
                c23::check_one(&mut rep, &mut ctx, &text, "replay");
                rep.finish()
            }
            other => {
                eprintln!("--one is not supported for {other}");
                std::process::exit(2);
            }
        };
        println!("@@REPORT {}", report);
        return;
    }
    let report = match argv[1].as_str() {
        "c22" => c22::run(&args, &corpus),
        "c23" => c23::run(&args, &corpus),
        "c24" => c24::run(&args, &corpus),
        "c25" => c25::run(&args, &corpus),
        "c26" => c26::run(&args),
        #[cfg(feature = "full")]
        "c17" => c17::run(&args),
        #[cfg(feature = "full")]
        "c27" => c27::run(&args),
        #[cfg(feature = "full")]
        "c12" => c12::run(&args),
        #[cfg(feature = "full")]
        "pipeline" => pipeline::run(&args),
        "c26replay" => {
            // replay a recorded scheduling log (json array on stdin) against the reference model
            let mut s = String::new();
            std::io::Read::read_to_string(&mut std::io::stdin(), &mut s).unwrap();
            let v: serde_json::Value = serde_json::from_str(&s).unwrap();
            match c26::replay_recorded(v.as_array().unwrap()) {
                Ok((rounds, cyc, dev)) => serde_json::json!({"ok": true, "rounds": rounds, "cyclic_rounds": cyc, "protocol_deviations": dev}),
                Err((k, m)) => serde_json::json!({"ok": false, "key": k, "message": m}),
            }
        }
        other => {
            eprintln!("unknown check {other}");
            std::process::exit(2);
        }
    };
    println!("@@REPORT {}", report);
}
