//! type universe generator shared by C17 (layouts) and C12 (type relations).
//! Only *realisable* types are built: a uid denotes one declaration (same uid => same contents),
//! enum variants only occur with their registered enum.
use crate::util::Rng;
use hir::common::{MemberTy, Name, ParamTy, Ty};
use internment::Intern;
use interner::Interner;

pub struct Gen {
    pub interner: Interner,
    pub next_uid: u32,
    pub names: Vec<Name>,
}

pub fn it(t: Ty) -> Intern<Ty> {
    Intern::new(t)
}

impl Gen {
    pub fn new() -> Self {
        let mut interner = Interner::default();
        let names = ["a", "b", "c", "d", "e", "f"].iter().map(|n| Name(interner.intern(n))).collect();
        Gen { interner, next_uid: 1000, names }
    }
    pub fn uid(&mut self) -> u32 {
        self.next_uid += 1;
        self.next_uid
    }
    pub fn primitives(&self, with_weak: bool) -> Vec<Intern<Ty>> {
        let mut v = vec![];
        for w in [8u8, 16, 32, 64, 128, u8::MAX] {
            v.push(it(Ty::IInt(w)));
            v.push(it(Ty::UInt(w)));
        }
        v.push(it(Ty::Float(32)));
        v.push(it(Ty::Float(64)));
        for t in [Ty::Bool, Ty::Char, Ty::String, Ty::Type, Ty::Any, Ty::RawPtr { mutable: false }, Ty::RawPtr { mutable: true }, Ty::RawSlice, Ty::Void, Ty::Nil] {
            v.push(it(t));
        }
        if with_weak {
            v.push(it(Ty::IInt(0)));
            v.push(it(Ty::UInt(0)));
            v.push(it(Ty::Float(0)));
        }
        v
    }
    pub fn strukt(&mut self, members: &[Intern<Ty>], anon: bool) -> Intern<Ty> {
        let members: Vec<MemberTy> = members.iter().enumerate().map(|(i, t)| MemberTy { name: self.names[i % self.names.len()], ty: *t }).collect();
        if anon {
            it(Ty::AnonStruct { members })
        } else {
            let uid = self.uid();
            it(Ty::ConcreteStruct { uid, members })
        }
    }
    /// builds an enum and registers it with `set_enum_uid`; returns (enum, variants)
    pub fn enumm(&mut self, payloads: &[Intern<Ty>], custom_discriminants: bool) -> (Intern<Ty>, Vec<Intern<Ty>>) {
        let enum_uid = self.uid();
        let mut variants = vec![];
        for (i, p) in payloads.iter().enumerate() {
            let uid = self.uid();
            variants.push(it(Ty::EnumVariant {
                enum_uid,
                variant_name: self.names[i % self.names.len()],
                uid,
                sub_ty: *p,
                discriminant: if custom_discriminants { (i as u64) * 10 + 7 } else { i as u64 },
            }));
        }
        let e = it(Ty::Enum { uid: enum_uid, variants: variants.clone() });
        hir::common::set_enum_uid(enum_uid, e);
        (e, variants)
    }
    pub fn distinct(&mut self, sub: Intern<Ty>) -> Intern<Ty> {
        let uid = self.uid();
        it(Ty::Distinct { uid, sub_ty: sub })
    }
    pub fn fn_ptr(&self, params: &[Intern<Ty>], ret: Intern<Ty>) -> Intern<Ty> {
        it(Ty::FunctionPointer {
            param_tys: params.iter().map(|t| ParamTy { ty: *t, comptime: None, varargs: false, impossible_to_differentiate: false }).collect(),
            return_ty: ret,
        })
    }
    /// every unary constructor applied to `t` (arrays of 3 sizes, slice, both pointers, distinct, optional)
    pub fn unary(&mut self, t: Intern<Ty>, out: &mut Vec<Intern<Ty>>) {
        for n in [0u64, 1, 3] {
            out.push(it(Ty::ConcreteArray { size: n, sub_ty: t }));
        }
        out.push(it(Ty::Slice { sub_ty: t }));
        out.push(it(Ty::Pointer { mutable: false, sub_ty: t }));
        out.push(it(Ty::Pointer { mutable: true, sub_ty: t }));
        out.push(self.distinct(t));
        out.push(it(Ty::Optional { sub_ty: t }));
    }
    pub fn random_composite(&mut self, rng: &mut Rng, pool: &[Intern<Ty>]) -> Intern<Ty> {
        match rng.below(9) {
            0 => it(Ty::ConcreteArray { size: rng.below(5) as u64, sub_ty: *rng.pick(pool) }),
            1 => it(Ty::Slice { sub_ty: *rng.pick(pool) }),
            2 => it(Ty::Pointer { mutable: rng.chance(1, 2), sub_ty: *rng.pick(pool) }),
            3 => {
                let s = *rng.pick(pool);
                self.distinct(s)
            }
            4 => it(Ty::Optional { sub_ty: *rng.pick(pool) }),
            5 => it(Ty::ErrorUnion { error_ty: *rng.pick(pool), payload_ty: *rng.pick(pool) }),
            6 | 7 => {
                let n = 1 + rng.below(4);
                let ms: Vec<_> = (0..n).map(|_| *rng.pick(pool)).collect();
                self.strukt(&ms, rng.chance(1, 4))
            }
            _ => {
                let n = 1 + rng.below(4);
                let ms: Vec<_> = (0..n).map(|_| *rng.pick(pool)).collect();
                self.enumm(&ms, rng.chance(1, 3)).0
            }
        }
    }
}
