//! C22 — lexing is total and lossless.
//! Oracle: coverage invariants + per-kind predicates on (kind name, text), written from the
//! statement / tokenizer.txt, independent of the lexer's code.
use crate::util::*;
use serde_json::json;

pub const ALPHABET: [&str; 24] = [
    "a", "_", "0", "1", "x", "b", "e", ".", "'", "\"", "\\", "/", " ", "\n", "\t", "+", "-", "<",
    "=", "&", "|", "é", "\u{a0}", "#",
];

pub const KEYWORDS: [(&str, &str); 19] = [
    ("As", "as"),
    ("If", "if"),
    ("Else", "else"),
    ("While", "while"),
    ("Loop", "loop"),
    ("Switch", "switch"),
    ("In", "in"),
    ("Distinct", "distinct"),
    ("Mut", "mut"),
    ("Extern", "extern"),
    ("Struct", "struct"),
    ("Enum", "enum"),
    ("Comptime", "comptime"),
    ("Return", "return"),
    ("Break", "break"),
    ("Continue", "continue"),
    ("Defer", "defer"),
    ("Try", "try"),
    ("Catch", "catch"),
];

pub const PUNCT: [(&str, &str); 40] = [
    ("Plus", "+"),
    ("Hyphen", "-"),
    ("Asterisk", "*"),
    ("Slash", "/"),
    ("Percent", "%"),
    ("Left", "<"),
    ("DoubleLeft", "<<"),
    ("LeftEquals", "<="),
    ("Right", ">"),
    ("DoubleRight", ">>"),
    ("RightEquals", ">="),
    ("Bang", "!"),
    ("BangEquals", "!="),
    ("And", "&"),
    ("DoubleAnd", "&&"),
    ("Pipe", "|"),
    ("DoublePipe", "||"),
    ("Equals", "="),
    ("DoubleEquals", "=="),
    ("Tilde", "~"),
    ("Comma", ","),
    ("Dot", "."),
    ("Ellipsis", "..."),
    ("Question", "?"),
    ("Arrow", "->"),
    ("FatArrow", "=>"),
    ("Caret", "^"),
    ("Backtick", "`"),
    ("LParen", "("),
    ("RParen", ")"),
    ("LBrack", "["),
    ("RBrack", "]"),
    ("LBrace", "{"),
    ("RBrace", "}"),
    ("Colon", ":"),
    ("Semicolon", ";"),
    ("Hash", "#"),
    ("NonBreakingSpace", "\u{a0}"),
    ("SingleQuote", "'"),
    ("DoubleQuote", "\""),
];

fn is_digit(c: char) -> bool {
    c.is_ascii_digit() || (!c.is_ascii() && c.is_numeric())
}

/// `(\d[\d_]*)+` : non-empty, starts with a digit, then digits or '_'
fn digits_run(s: &str) -> bool {
    let mut it = s.chars();
    match it.next() {
        Some(c) if is_digit(c) => {}
        _ => return false,
    }
    it.all(|c| is_digit(c) || c == '_')
}

fn is_ident(s: &str) -> bool {
    let mut it = s.chars();
    match it.next() {
        Some(c) if c.is_ascii_alphabetic() || c == '_' => {}
        _ => return false,
    }
    it.all(|c| c.is_ascii_alphanumeric() || c == '_')
}

fn is_int(s: &str) -> bool {
    // (\d[\d_]*)+([eE](\d[\d_]*)+)?
    if let Some(pos) = s.find(['e', 'E']) {
        digits_run(&s[..pos]) && digits_run(&s[pos + 1..])
    } else {
        digits_run(s)
    }
}

fn is_float(s: &str) -> bool {
    // (\d[\d_]*)?\.(\d[\d_]*)+([eE][-+]?(\d[\d_]*)+)?
    let Some(dot) = s.find('.') else { return false };
    let int_part = &s[..dot];
    if !int_part.is_empty() && !digits_run(int_part) {
        return false;
    }
    let rest = &s[dot + 1..];
    if let Some(pos) = rest.find(['e', 'E']) {
        let mut exp = &rest[pos + 1..];
        if exp.starts_with('-') || exp.starts_with('+') {
            exp = &exp[1..];
        }
        digits_run(&rest[..pos]) && digits_run(exp)
    } else {
        digits_run(rest)
    }
}

fn is_hex(s: &str) -> bool {
    s.len() > 2 && s.starts_with("0x") && s[2..].chars().all(|c| c.is_ascii_hexdigit())
}
fn is_bin(s: &str) -> bool {
    s.len() > 2 && s.starts_with("0b") && s[2..].chars().all(|c| c == '0' || c == '1')
}
fn is_ws(s: &str) -> bool {
    !s.is_empty() && s.chars().all(|c| matches!(c, ' ' | '\t' | '\r' | '\n'))
}

/// would this text, alone, be a complete valid token? (used to refute `Error` tokens)
fn is_some_valid_token(s: &str) -> bool {
    // only ASCII texts are judged here: which non-ASCII digits the number rules accept is
    // not something the statement fixes
    s.is_ascii() && is_some_valid_token_ascii(s)
}
fn is_some_valid_token_ascii(s: &str) -> bool {
    is_ws(s)
        || is_ident(s)
        || is_int(s)
        || is_float(s)
        || is_hex(s)
        || is_bin(s)
        || PUNCT[..38].iter().any(|(_, sp)| *sp == s)
}

pub struct Tok {
    pub kind: String,
    pub start: usize,
    pub end: usize,
}

/// run the real lexer and read everything back through the public API
/// the iterator view of the tokens must agree with the indexed view
pub fn iter_observe(text: &str, toks: &[Tok]) -> Result<Option<String>, String> {
    guarded(|| {
        let tokens = lexer::lex(text);
        let via_iter: Vec<(String, usize, usize)> = tokens
            .iter()
            .map(|(k, r)| (format!("{k:?}"), u32::from(r.start()) as usize, u32::from(r.end()) as usize))
            .collect();
        if via_iter.len() != toks.len() {
            return Some(format!("Tokens::iter yields {} tokens, len() is {}", via_iter.len(), toks.len()));
        }
        for (a, b) in via_iter.iter().zip(toks.iter()) {
            if !(a.0 == b.kind && a.1 == b.start && a.2 == b.end) {
                return Some("Tokens::iter disagrees with kind()/range()".to_string());
            }
        }
        None
    })
}

pub fn lex_observe(text: &str) -> Result<Vec<Tok>, String> {
    guarded(|| {
        let tokens = lexer::lex(text);
        let mut out = Vec::with_capacity(tokens.len());
        for i in 0..tokens.len() {
            let kind = format!("{:?}", tokens.kind(i));
            let r = tokens.range(i);
            out.push(Tok {
                kind,
                start: u32::from(r.start()) as usize,
                end: u32::from(r.end()) as usize,
            });
        }
        out
    })
}

/// returns Some((key, message)) on the first violated rule
pub fn check_tokens(text: &str, toks: &[Tok]) -> Option<(String, String)> {
    let n = text.len();
    if toks.is_empty() {
        if n != 0 {
            return Some(("cover".into(), "no tokens for non-empty input".into()));
        }
        return None;
    }
    if toks[0].start != 0 {
        return Some(("cover".into(), format!("first token starts at {}", toks[0].start)));
    }
    let mut prev_end = 0usize;
    for (i, t) in toks.iter().enumerate() {
        if t.start != prev_end {
            return Some(("cover".into(), format!("token {i} starts at {} but previous ended at {prev_end}", t.start)));
        }
        if t.end < t.start {
            return Some(("cover".into(), format!("token {i} has end<start")));
        }
        if t.end > n {
            return Some(("cover".into(), format!("token {i} ends at {} beyond input length {n}", t.end)));
        }
        if !text.is_char_boundary(t.start) || !text.is_char_boundary(t.end) {
            return Some(("charboundary".into(), format!("token {i} {}..{} is not on char boundaries", t.start, t.end)));
        }
        prev_end = t.end;
    }
    if prev_end != n {
        return Some(("cover".into(), format!("last token ends at {prev_end}, input length {n}")));
    }
    for (i, t) in toks.iter().enumerate() {
        let s = &text[t.start..t.end];
        let k = t.kind.as_str();
        let ok = match k {
            "Whitespace" => is_ws(s),
            "Ident" => {
                is_ident(s)
                    && !KEYWORDS.iter().any(|(_, sp)| *sp == s)
                    && s != "true"
                    && s != "false"
            }
            "Float" => is_float(s),
            "Int" => is_int(s),
            "Hex" => is_hex(s),
            "Bin" => is_bin(s),
            "Bool" => s == "true" || s == "false",
            "Escape" => {
                let mut it = s.chars();
                it.next() == Some('\\') && matches!(it.next(), Some(c) if c != '\n') && it.next().is_none()
            }
            "StringContents" => {
                // find the quote that opened this literal
                let mut j = i;
                let mut quote = None;
                while j > 0 {
                    j -= 1;
                    match toks[j].kind.as_str() {
                        "Escape" | "StringContents" => continue,
                        "SingleQuote" => {
                            quote = Some('\'');
                            break;
                        }
                        "DoubleQuote" => {
                            quote = Some('"');
                            break;
                        }
                        _ => break,
                    }
                }
                match quote {
                    None => false,
                    Some(q) => !s.is_empty() && !s.contains(q) && !s.contains('\\') && !s.contains('\n'),
                }
            }
            "CommentLeader" => s == "//",
            "CommentContents" => {
                i > 0 && toks[i - 1].kind == "CommentLeader" && !s.contains('\n')
            }
            "Error" => !s.is_empty() && !is_some_valid_token(s),
            _ => {
                if let Some((_, sp)) = KEYWORDS.iter().find(|(name, _)| *name == k) {
                    *sp == s
                } else if let Some((_, sp)) = PUNCT.iter().find(|(name, _)| *name == k) {
                    *sp == s
                } else {
                    return Some(("kind".into(), format!("token {i}: unknown kind {k}")));
                }
            }
        };
        if !ok {
            return Some((format!("kind:{k}"), format!("token {i} of kind {k} has text {s:?}")));
        }
        // zero-length tokens: only an empty comment body may be empty
        if t.end == t.start && k != "CommentContents" {
            return Some(("empty".into(), format!("token {i} of kind {k} is empty")));
        }
    }
    None
}

pub fn check_one(rep: &mut Report, text: &str, origin: &str) {
    rep.evaluations += 1;
    match lex_observe(text) {
        Err(p) => rep.violation("panic", &format!("lexer panicked: {p}"), json!({"text": text, "origin": origin})),
        Ok(toks) => {
            rep.count("tokens", toks.len() as u64);
            match iter_observe(text, &toks) {
                Err(p) => rep.violation("tokens_iter_panic", &format!("Tokens::iter panicked: {p}"), json!({"text": text, "origin": origin})),
                Ok(Some(m)) => rep.violation("tokens_iter", &m, json!({"text": text, "origin": origin})),
                Ok(None) => {}
            }
            if let Some((key, msg)) = check_tokens(text, &toks) {
                let ks: Vec<String> = toks.iter().map(|t| format!("{}@{}..{}", t.kind, t.start, t.end)).collect();
                rep.violation(&key, &msg, json!({"text": text, "tokens": ks, "origin": origin}));
            }
            if toks.len() >= 2 {
                // signature: the sequence of kinds (bounded)
                let sig: Vec<&str> = toks.iter().take(6).map(|t| t.kind.as_str()).collect();
                rep.sig(sig.join(","));
            }
            if rep.samples.len() < 4 && toks.len() >= 3 {
                let ks: Vec<String> = toks.iter().take(12).map(|t| format!("{}@{}..{}", t.kind, t.start, t.end)).collect();
                rep.sample(json!({"text": text.chars().take(60).collect::<String>(), "tokens": ks}));
            }
        }
    }
}

pub fn enumerate_strings(max_len: usize, mut f: impl FnMut(&str)) {
    let mut idx = vec![0usize; 0];
    let mut buf = String::new();
    f("");
    for len in 1..=max_len {
        idx.clear();
        idx.resize(len, 0);
        loop {
            buf.clear();
            for &i in &idx {
                buf.push_str(ALPHABET[i]);
            }
            f(&buf);
            // increment
            let mut p = len;
            loop {
                if p == 0 {
                    break;
                }
                p -= 1;
                idx[p] += 1;
                if idx[p] < ALPHABET.len() {
                    break;
                }
                idx[p] = 0;
                if p == 0 {
                    p = usize::MAX;
                    break;
                }
            }
            if p == usize::MAX {
                break;
            }
        }
    }
}

pub fn random_text(rng: &mut Rng, max_len: usize) -> String {
    let len = rng.below(max_len + 1);
    let mut s = String::new();
    let style = rng.below(4);
    while s.len() < len {
        match style {
            0 => s.push_str(ALPHABET[rng.below(ALPHABET.len())]),
            1 => {
                // any unicode scalar, biased to low planes
                let c = match rng.below(4) {
                    0 => rng.below(128) as u32,
                    1 => rng.below(0x800) as u32,
                    2 => rng.below(0x10000) as u32,
                    _ => rng.below(0x110000) as u32,
                };
                if let Some(c) = char::from_u32(c) {
                    s.push(c)
                }
            }
            2 => {
                // token soup
                const PIECES: [&str; 40] = [
                    "foo", "_x1", "if", "else", "while", "comptime", "true", "false", "0x1F", "0b101", "12_3", "1e5", "1.5e-3", ".5",
                    "'a'", "'\\n'", "\"str\\t\"", "\"unterminated", "'", "\\", "// c\n", "//", "<<", ">>=", "...", "->", "=>", "^", "`lbl",
                    "(", ")", "{", "}", "[", "]", " ", "\n", "\r\n", "\u{a0}", "٣",
                ];
                s.push_str(PIECES[rng.below(PIECES.len())]);
            }
            _ => {
                let c = (32 + rng.below(95)) as u8 as char;
                s.push(c);
            }
        }
    }
    s
}

pub fn mutate(rng: &mut Rng, src: &str, max_len: usize) -> String {
    let mut chars: Vec<char> = src.chars().collect();
    if chars.len() > max_len {
        let start = rng.below(chars.len() - max_len);
        chars = chars[start..start + max_len].to_vec();
    }
    let n_mut = 1 + rng.below(4);
    for _ in 0..n_mut {
        if chars.is_empty() {
            break;
        }
        let p = rng.below(chars.len());
        match rng.below(5) {
            0 => {
                chars.remove(p);
            }
            1 => {
                let c = ALPHABET[rng.below(ALPHABET.len())].chars().next().unwrap();
                chars.insert(p, c);
            }
            2 => {
                let q = rng.below(chars.len());
                chars.swap(p, q);
            }
            3 => {
                let q = (p + 1 + rng.below(40)).min(chars.len());
                chars.drain(p..q);
            }
            _ => {
                let q = (p + 1 + rng.below(40)).min(chars.len());
                let dup: Vec<char> = chars[p..q].to_vec();
                for (k, c) in dup.into_iter().enumerate() {
                    chars.insert(q + k, c);
                }
            }
        }
    }
    chars.into_iter().collect()
}

pub fn run(args: &Args, corpus: &[String]) -> serde_json::Value {
    let mut rep = Report::new("C22");
    let max_len = args.num("maxlen", if args.thorough() { 5 } else { 4 }) as usize;
    let n_random = args.num("random", if args.thorough() { 2_000_000 } else { 100_000 });
    let n_mut = args.num("mutants", if args.thorough() { 200_000 } else { 10_000 });
    let shard = args.num("shard", 0);
    let shards = args.num("shards", 1).max(1);
    let n_random = n_random / shards;
    let n_mut = n_mut / shards;
    let mut n_enum = 0u64;
    let mut idx = 0u64;
    enumerate_strings(max_len, |s| {
        idx += 1;
        if idx % shards == shard {
            n_enum += 1;
            check_one(&mut rep, s, "enum");
        }
    });
    rep.count("enumerated", n_enum);
    rep.exhaustive = true;
    rep.notes.push(format!("all strings of length <= {max_len} over the 24-symbol alphabet enumerated exhaustively"));
    let mut rng = Rng::new(args.seed ^ 0x22 ^ (shard << 32));
    for _ in 0..n_random {
        let ml = if args.num("lite", 0) != 0 { if rng.chance(1, 20) { 160 } else { 32 } } else if rng.chance(1, 50) { 4096 } else { 48 };
        let s = random_text(&mut rng, ml);
        check_one(&mut rep, &s, "random");
    }
    rep.count("random", n_random);
    if !corpus.is_empty() {
        if args.num("lite", 0) != 0 {
            // interpreted run: the corpus files are spread over the shards, a few per shard
            let per = args.num("corpusfiles", 6) as usize;
            let mine: Vec<&String> = corpus.iter().enumerate().filter(|(i, _)| *i as u64 % shards == shard).map(|(_, c)| c).collect();
            for k in 0..per.min(mine.len()) {
                let c = mine[(k * 7919 + args.seed as usize) % mine.len()];
                check_one(&mut rep, c, "corpus");
                rep.count("corpus_files", 1);
            }
        } else if shard == 0 {
            for c in corpus {
                check_one(&mut rep, c, "corpus");
            }
            rep.count("corpus_files", corpus.len() as u64);
        }
        for _ in 0..n_mut {
            let src = &corpus[rng.below(corpus.len())];
            let m = mutate(&mut rng, src, 65536);
            check_one(&mut rep, &m, "mutant");
        }
        rep.count("mutants", n_mut);
    }
    rep.finish()
}
