//! C27 — distinct compiled entities get distinct symbol names (hook H1 exposes the real mangler).
use crate::util::*;
use hir::common::{ComptimeArgs, ComptimeLoc, ConcreteLoc, FileName, Name, NaiveGlobalLoc, NaiveLambdaLoc};
use interner::Interner;
use la_arena::{Idx, IdxRange, RawIdx};
use serde_json::{json, Value};
use std::collections::HashMap;
use std::path::{Path, PathBuf};

#[derive(Clone, Debug, PartialEq, Eq, Hash)]
pub struct Entity {
    pub in_mod_dir: bool,
    pub path: Vec<String>, // components below cwd / mod dir, the last one is the file ("x.capy")
    pub base: Base,
    pub generic: Option<u32>,
    pub comptime: Option<u32>,
    pub data: Option<&'static str>,
}

#[derive(Clone, Debug, PartialEq, Eq, Hash)]
pub enum Base {
    Global(String),
    Lambda(u32),
}

fn idx<T>(n: u32) -> Idx<T> {
    Idx::from_raw(RawIdx::from(n))
}

pub fn mangle(e: &Entity, cwd: &Path, mod_dir: &Path, interner: &mut Interner) -> Result<String, String> {
    let mut p: PathBuf = if e.in_mod_dir { mod_dir.to_path_buf() } else { cwd.to_path_buf() };
    for c in &e.path {
        p.push(c);
    }
    let file = FileName(interner.intern(&p.to_string_lossy()));
    let args = e.generic.map(|g| ComptimeArgs::new(IdxRange::new(idx(g)..idx(g + 1))));
    let loc: ConcreteLoc = match &e.base {
        Base::Global(n) => {
            let name = Name(interner.intern(n));
            NaiveGlobalLoc { file, name }.make_concrete(args).wrap()
        }
        Base::Lambda(l) => NaiveLambdaLoc { file, expr: idx(*l), lambda: idx(*l) }.make_concrete(args).wrap(),
    };
    let interner: &Interner = interner;
    guarded(|| match e.comptime {
        None => codegen::verif::mangle_concrete(loc, mod_dir, interner),
        Some(c) => codegen::verif::mangle_comptime(ComptimeLoc { loc, expr: idx(c), comptime: idx(c) }, e.data, mod_dir, interner),
    })
}

const DIRS: [&str; 16] = ["a", "b1", "1", "f1", "a.b", "a-b", "src", "x.capy", "x", "2f1", "m1", "_", "A", "ab", "x.capy.capy", "3mod11table"];
const FILES: [&str; 9] = ["x.capy", "1.capy", "f1.capy", "a.b.capy", "a-b.capy", "src.capy", "main.capy", "mod.capy", "x.capy.capy"];
// the last names are chosen so that a length prefix that is not separated from a digit-leading part becomes ambiguous:
// <1><"1"> <3><"mod"> <11><"table3mod1f">  reads the same as  <11><"3mod11table"> <3><"mod"> <1><"f">
const NAMES: [&str; 13] = ["a", "main", "x", "f1", "E", "N1a", "_1", "l5", "g", "a1E", "table3mod1f", "f", "1f"];

/// classification of a collision by the feature of the path that makes the two entities differ,
/// so that the known encodings' weaknesses can be told apart from anything new
fn classify(a: &Entity, b: &Entity) -> String {
    if a.in_mod_dir == b.in_mod_dir && a.base == b.base && a.generic == b.generic && a.comptime == b.comptime && a.data == b.data {
        // only the path differs
        let norm = |p: &Vec<String>, strip_capy: bool, dots: bool, digits: bool| -> Vec<String> {
            p.iter()
                .map(|c| {
                    let mut c = c.clone();
                    if strip_capy {
                        c = c.strip_suffix(".capy").unwrap_or(&c).to_string();
                    }
                    if dots {
                        c = c.replace('.', "-");
                    }
                    if digits && c.starts_with(|ch: char| ch.is_ascii_digit()) {
                        c = format!("{}{}", if a.in_mod_dir && false { "m" } else { "f" }, c);
                    }
                    c
                })
                .collect()
        };
        if a.path.len() == b.path.len() {
            if norm(&a.path, true, false, false) == norm(&b.path, true, false, false) {
                return "path:capy_suffix_of_directory".into();
            }
            if norm(&a.path, true, true, false) == norm(&b.path, true, true, false) {
                return "path:dot_vs_dash".into();
            }
            if norm(&a.path, true, true, true) == norm(&b.path, true, true, true) {
                return "path:digit_escape".into();
            }
        }
        let has_src = |p: &Vec<String>| p.len() >= 2 && p[1] == "src";
        if has_src(&a.path) || has_src(&b.path) {
            return if a.in_mod_dir { "path:src_skipping_in_module".into() } else { "path:src_skipping_local".into() };
        }
        return "path:other".into();
    }
    "entity:other".into()
}

pub fn run(args: &Args) -> Value {
    let mut rep = Report::new("C27");
    let cwd = std::env::current_dir().unwrap();
    let mod_dir = PathBuf::from(args.kv.get("moddir").cloned().unwrap_or_else(|| "/nonexistent_capy_mods".into()));
    let mut interner = Interner::default();
    let mut seen: HashMap<String, Entity> = HashMap::new();
    let mut rng = Rng::new(args.seed ^ 0x27);
    let mut check = |rep: &mut Report, e: Entity, interner: &mut Interner| {
        rep.evaluations += 1;
        match mangle(&e, &cwd, &mod_dir, interner) {
            Err(p) => rep.violation("panic", &format!("mangling panicked: {p}"), json!({"entity": format!("{e:?}")})),
            Ok(m) => {
                if m == "main" || m.starts_with("_CI") || m.starts_with(".str_") || m.starts_with(".i128_") {
                    rep.violation("internal_clash", &format!("entity mangles to the reserved name {m}"), json!({"entity": format!("{e:?}")}));
                }
                if let Some(prev) = seen.get(&m) {
                    if *prev != e {
                        let class = classify(prev, &e);
                        let mut v = json!({"symbol": m, "a": format!("{prev:?}"), "b": format!("{e:?}")});
                        v["class"] = json!(class);
                        rep.violation(&format!("collision:{class}"), &format!("two entities share the symbol {m}"), v);
                    }
                } else {
                    if rep.samples.len() < 6 && (e.comptime.is_some() || e.generic.is_some()) && e.path.len() > 1 {
                        rep.sample(json!({"entity": format!("{e:?}"), "symbol": m}));
                    }
                    if e.path.len() > 1 || e.generic.is_some() || e.comptime.is_some() {
                        rep.sig(m.clone());
                    }
                    seen.insert(m, e);
                }
            }
        }
    };
    // (1) exhaustive over paths of <= 3 components x a few entity kinds
    let mut paths: Vec<Vec<String>> = vec![];
    for f in FILES {
        paths.push(vec![f.to_string()]);
        for d in DIRS {
            paths.push(vec![d.to_string(), f.to_string()]);
            for d2 in DIRS {
                paths.push(vec![d.to_string(), d2.to_string(), f.to_string()]);
            }
        }
    }
    rep.count("paths", paths.len() as u64);
    let quick = !args.thorough();
    for in_mod in [false, true] {
        for p in &paths {
            if in_mod && p.len() < 2 {
                continue; // a module file lives in <mod-dir>/<module>/...
            }
            for (bi, base) in [Base::Global("a".into()), Base::Global("f1".into()), Base::Lambda(1), Base::Lambda(12)].into_iter().enumerate() {
                if quick && bi >= 2 && p.len() == 3 {
                    continue;
                }
                check(&mut rep, Entity { in_mod_dir: in_mod, path: p.clone(), base, generic: None, comptime: None, data: None }, &mut interner);
            }
        }
    }
    // (2) all entity shapes on a few paths: names x lambda ids x generic ids x comptime ids x data suffixes
    let few_paths: Vec<Vec<String>> = vec![vec!["x.capy".into()], vec!["a".into(), "x.capy".into()], vec!["1".into(), "1.capy".into()],
        vec!["1".into(), "src".into(), "mod.capy".into()], vec!["3mod11table".into(), "src".into(), "mod.capy".into()]];
    let ids: Vec<u32> = vec![0, 1, 2, 9, 10, 11, 12, 99, 100, 101, 110, 111, 999];
    for p in &few_paths {
        for in_mod in [false, true] {
            if in_mod && p.len() < 2 {
                continue;
            }
            let mut bases: Vec<Base> = NAMES.iter().map(|n| Base::Global(n.to_string())).collect();
            bases.extend(ids.iter().map(|i| Base::Lambda(*i)));
            for base in &bases {
                for generic in std::iter::once(None).chain(ids.iter().map(|i| Some(*i))) {
                    for comptime in std::iter::once(None).chain(ids.iter().map(|i| Some(*i))) {
                        let datas: Vec<Option<&'static str>> = if comptime.is_some() { vec![None, Some("init_flag"), Some("value")] } else { vec![None] };
                        for data in datas {
                            check(&mut rep, Entity { in_mod_dir: in_mod, path: p.clone(), base: base.clone(), generic, comptime, data }, &mut interner);
                        }
                    }
                }
            }
        }
    }
    // (3) random descriptors
    let n_rand = args.num("random", if args.thorough() { 3_000_000 } else { 150_000 });
    for _ in 0..n_rand {
        let depth = 1 + rng.below(3);
        let mut p: Vec<String> = (0..depth - 1)
            .map(|_| {
                if rng.chance(1, 6) {
                    // a made-up alphanumeric name that starts with a digit (legal for folders and modules)
                    let n = 1 + rng.below(12);
                    let mut s = String::new();
                    s.push((b'0' + rng.below(10) as u8) as char);
                    for _ in 1..n {
                        s.push(*rng.pick(&['1', '2', '3', 'a', 'm', 'o', 'd', 't', 'f']));
                    }
                    s
                } else {
                    DIRS[rng.below(DIRS.len())].to_string()
                }
            })
            .collect();
        p.push(FILES[rng.below(FILES.len())].to_string());
        let in_mod = p.len() >= 2 && rng.chance(1, 3);
        let base = if rng.chance(1, 2) { Base::Global(NAMES[rng.below(NAMES.len())].to_string()) } else { Base::Lambda(rng.below(1000) as u32) };
        let generic = if rng.chance(1, 3) { Some(rng.below(1000) as u32) } else { None };
        let comptime = if rng.chance(1, 3) { Some(rng.below(1000) as u32) } else { None };
        let data = if comptime.is_some() && rng.chance(1, 2) { Some(if rng.chance(1, 2) { "init_flag" } else { "value" }) } else { None };
        check(&mut rep, Entity { in_mod_dir: in_mod, path: p, base, generic, comptime, data }, &mut interner);
    }
    rep.count("distinct_symbols", seen.len() as u64);
    rep.exhaustive = true;
    rep.notes.push("exhaustive: all paths of <= 3 components over 14 directory names x 8 file names, under cwd and under the module dir, for 4 entity bases; all entity shapes (names, lambda/generic/comptime ids incl. 0,9,10,99,100,999, data suffixes) on 3 paths; random descriptors beyond".into());
    rep.finish()
}
