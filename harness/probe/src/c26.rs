//! C26 — scheduling: lock-step reference model (pending set + waits relation) against the real
//! `topo::TopoSort`, driven with the type checker's usage protocol.
use crate::util::*;
use serde_json::{json, Value};
use std::collections::{BTreeMap, BTreeSet, HashSet, VecDeque};
use topo::TopoSort;

#[derive(Clone, Default, Debug)]
pub struct Model {
    pub pending: BTreeSet<u32>,
    pub waits: BTreeMap<u32, BTreeSet<u32>>,
    pub completed: BTreeSet<u32>,
}

impl Model {
    pub fn ready(&self) -> BTreeSet<u32> {
        self.pending
            .iter()
            .copied()
            .filter(|p| {
                self.waits
                    .get(p)
                    .map_or(true, |w| w.iter().all(|d| !self.pending.contains(d)))
            })
            .collect()
    }
    pub fn seed(&mut self, items: &[u32]) {
        for i in items {
            self.pending.insert(*i);
        }
    }
    pub fn complete(&mut self, x: u32) {
        self.pending.remove(&x);
        self.waits.remove(&x);
        self.completed.insert(x);
    }
    pub fn deps(&mut self, x: u32, ds: &[u32]) {
        self.pending.insert(x);
        for d in ds {
            self.pending.insert(*d);
            self.completed.remove(d);
            self.waits.entry(x).or_default().insert(*d);
        }
    }
}

#[derive(Clone)]
struct State {
    real: TopoSort<u32>,
    model: Model,
    round: u32,
    queue: VecDeque<u32>, // items still to process in the current round
    history: Vec<String>,
}

/// compare every observable of the real structure with the model at a round boundary.
/// returns the offered list (in the real order) or a violation
fn observe_round(real: &TopoSort<u32>, model: &Model) -> Result<(bool, Vec<u32>), (String, String)> {
    let ready = model.ready();
    if real.len() != model.pending.len() {
        return Err(("len".into(), format!("len()={} but {} items are pending", real.len(), model.pending.len())));
    }
    if real.is_empty() != model.pending.is_empty() {
        return Err(("is_empty".into(), format!("is_empty()={} but pending={:?}", real.is_empty(), model.pending)));
    }
    let want_cycle = !model.pending.is_empty() && ready.is_empty();
    if real.in_cycle() != want_cycle {
        return Err(("in_cycle".into(), format!("in_cycle()={} expected {}", real.in_cycle(), want_cycle)));
    }
    match real.peek_all() {
        Ok(v) => {
            let got: Vec<u32> = v.into_iter().copied().collect();
            let got_set: BTreeSet<u32> = got.iter().copied().collect();
            if got_set.len() != got.len() {
                return Err(("dup".into(), format!("peek_all offered an item twice: {got:?}")));
            }
            if want_cycle {
                return Err(("cycle_missed".into(), format!("peek_all returned {got:?} but every pending item waits on a pending item")));
            }
            if got_set != ready {
                return Err(("offered".into(), format!("offered {got:?}, ready set is {ready:?}")));
            }
            if real.peek_all_cyclic().is_some() {
                return Err(("cyclic_spurious".into(), "peek_all_cyclic is Some although items are ready".into()));
            }
            Ok((false, got))
        }
        Err(_) => {
            if !want_cycle {
                return Err(("cycle_spurious".into(), format!("cycle reported but ready set is {ready:?} (pending {:?})", model.pending)));
            }
            let Some(all) = real.peek_all_cyclic() else {
                return Err(("cyclic_none".into(), "peek_all is Err but peek_all_cyclic is None".into()));
            };
            let mut got: Vec<u32> = all.into_iter().copied().collect();
            let got_set: BTreeSet<u32> = got.iter().copied().collect();
            if got_set != model.pending {
                return Err(("cyclic_set".into(), format!("cyclic items {got:?} but pending is {:?}", model.pending)));
            }
            got.sort();
            Ok((true, got))
        }
    }
}

fn subsets_nonempty(items: &[u32]) -> Vec<Vec<u32>> {
    let n = items.len();
    let mut out = vec![];
    for mask in 1u32..(1 << n) {
        out.push((0..n).filter(|i| mask & (1 << i) != 0).map(|i| items[i]).collect());
    }
    out
}

pub fn explore(rep: &mut Report, n_items: u32, max_rounds: u32, max_states: usize) -> (u64, u64, bool) {
    let universe: Vec<u32> = (0..n_items).collect();
    let mut seen: HashSet<String> = HashSet::new();
    let mut frontier: VecDeque<State> = VecDeque::new();
    let mut states = 0u64;
    let mut transitions = 0u64;
    let mut complete = true;
    for seed in subsets_nonempty(&universe) {
        let mut real = TopoSort::<u32>::new();
        real.extend(seed.iter().copied());
        let mut model = Model::default();
        model.seed(&seed);
        frontier.push_back(State { real, model, round: 0, queue: VecDeque::new(), history: vec![format!("seed{seed:?}")] });
    }
    while let Some(st) = frontier.pop_front() {
        if states as usize >= max_states {
            complete = false;
            break;
        }
        // at a round boundary?
        let mut st = st;
        if st.queue.is_empty() {
            let obs = guarded(|| observe_round(&st.real, &st.model));
            rep.evaluations += 1;
            match obs {
                Err(p) => {
                    rep.violation("panic", &format!("TopoSort panicked: {p}"), json!({"history": st.history}));
                    continue;
                }
                Ok(Err((k, m))) => {
                    rep.violation(&k, &m, json!({"history": st.history}));
                    continue;
                }
                Ok(Ok((cyclic, offered))) => {
                    if st.model.pending.is_empty() {
                        rep.count("histories_completed", 1);
                        if st.history.len() > 3 {
                            rep.sig(format!("done:{}", st.history.len()));
                        }
                        continue;
                    }
                    if cyclic {
                        rep.count("cyclic_rounds", 1);
                    }
                    if st.round >= max_rounds {
                        rep.count("histories_cut_at_round_bound", 1);
                        continue;
                    }
                    st.round += 1;
                    st.history.push(format!("round{}{}{:?}", st.round, if cyclic { "!cyc" } else { "" }, offered));
                    st.queue = offered.into_iter().collect();
                }
            }
        }
        let key = format!("{:?}|{:?}|{:?}|{}", st.real, st.model.completed, st.queue, st.round);
        if !seen.insert(key) {
            continue;
        }
        states += 1;
        let x = st.queue.pop_front().unwrap();
        // choice 1: x completes
        {
            let mut nx = st.clone();
            let r = guarded(|| {
                let existed = nx.real.remove(&x);
                existed
            });
            transitions += 1;
            match r {
                Err(p) => rep.violation("panic", &format!("remove panicked: {p}"), json!({"history": nx.history, "op": format!("done {x}")})),
                Ok(existed) => {
                    if !existed {
                        rep.violation("remove_absent", "remove() of an offered item returned false", json!({"history": nx.history, "op": format!("done {x}")}));
                    } else {
                        nx.model.complete(x);
                        nx.history.push(format!("done {x}"));
                        frontier.push_back(nx);
                    }
                }
            }
        }
        // choice 2: x registers deps on not-yet-completed items
        let cands: Vec<u32> = universe.iter().copied().filter(|d| !st.model.completed.contains(d)).collect();
        for ds in subsets_nonempty(&cands) {
            let mut nx = st.clone();
            let r = guarded(|| nx.real.insert_deps(x, ds.iter().copied()));
            transitions += 1;
            match r {
                Err(p) => rep.violation("panic", &format!("insert_deps panicked: {p}"), json!({"history": nx.history, "op": format!("deps {x} {ds:?}")})),
                Ok(()) => {
                    nx.model.deps(x, &ds);
                    nx.history.push(format!("deps {x}->{ds:?}"));
                    frontier.push_back(nx);
                }
            }
        }
    }
    (states, transitions, complete)
}

/// one random protocol-conforming history with more items/rounds than the exhaustive bound
pub fn random_history(rep: &mut Report, rng: &mut Rng, n_items: u32, max_rounds: u32) {
    let universe: Vec<u32> = (0..n_items).collect();
    let mut real = TopoSort::<u32>::new();
    let mut model = Model::default();
    let seed: Vec<u32> = universe.iter().copied().filter(|_| rng.chance(1, 2)).collect();
    let seed = if seed.is_empty() { vec![0] } else { seed };
    real.extend(seed.iter().copied());
    model.seed(&seed);
    let mut history = vec![format!("seed{seed:?}")];
    let mut cyc = 0;
    for round in 0..max_rounds {
        rep.evaluations += 1;
        let obs = guarded(|| observe_round(&real, &model));
        let (cyclic, offered) = match obs {
            Err(p) => {
                rep.violation("panic", &format!("TopoSort panicked: {p}"), json!({"history": history}));
                return;
            }
            Ok(Err((k, m))) => {
                rep.violation(&k, &m, json!({"history": history}));
                return;
            }
            Ok(Ok(o)) => o,
        };
        if model.pending.is_empty() {
            break;
        }
        if cyclic {
            cyc += 1;
        }
        history.push(format!("round{round}{}{offered:?}", if cyclic { "!cyc" } else { "" }));
        // completing gets likelier as rounds pass, so that histories end
        for x in offered {
            let cands: Vec<u32> = universe.iter().copied().filter(|d| !model.completed.contains(d)).collect();
            let want_deps = rng.chance(if cyclic { 1 } else { 2 }, 2 + round as u64) && !cands.is_empty();
            if want_deps {
                let mut ds: Vec<u32> = cands.iter().copied().filter(|_| rng.chance(1, 3)).collect();
                if ds.is_empty() {
                    ds.push(*rng.pick(&cands));
                }
                if let Err(p) = guarded(|| real.insert_deps(x, ds.iter().copied())) {
                    rep.violation("panic", &format!("insert_deps panicked: {p}"), json!({"history": history}));
                    return;
                }
                model.deps(x, &ds);
                history.push(format!("deps {x}->{ds:?}"));
            } else {
                match guarded(|| real.remove(&x)) {
                    Err(p) => {
                        rep.violation("panic", &format!("remove panicked: {p}"), json!({"history": history}));
                        return;
                    }
                    Ok(false) => {
                        rep.violation("remove_absent", "remove() of an offered item returned false", json!({"history": history}));
                        return;
                    }
                    Ok(true) => {}
                }
                model.complete(x);
                history.push(format!("done {x}"));
            }
        }
    }
    rep.sig(format!("rand:{}:{}:{}", history.len(), cyc, model.completed.len()));
    if rep.samples.len() < 3 && cyc > 0 {
        rep.sample(json!({"random_history": history}));
    }
}

/// replay a history recorded by hook H2 (real compilation) against the model.
/// events: ["seed", [items]] / ["round", cyclic, [offered], len] / ["done", x] / ["deps", x, [ds]] / ["end"]
pub fn replay_recorded(events: &[Value]) -> Result<(usize, usize, usize), (String, String)> {
    let mut ids: BTreeMap<String, u32> = BTreeMap::new();
    let id = |s: &str, ids: &mut BTreeMap<String, u32>| -> u32 {
        let n = ids.len() as u32;
        *ids.entry(s.to_string()).or_insert(n)
    };
    let mut model = Model::default();
    let mut rounds = 0;
    let mut cyclic_rounds = 0;
    let mut protocol_devs = 0;
    let mut current: Vec<u32> = vec![];
    for ev in events {
        let tag = ev[0].as_str().unwrap_or("");
        match tag {
            "seed" => {
                let items: Vec<u32> = ev[1].as_array().unwrap().iter().map(|s| id(s.as_str().unwrap(), &mut ids)).collect();
                model.seed(&items);
            }
            "round" => {
                rounds += 1;
                let cyclic = ev[1].as_bool().unwrap();
                let offered: Vec<u32> = ev[2].as_array().unwrap().iter().map(|s| id(s.as_str().unwrap(), &mut ids)).collect();
                let len = ev[3].as_u64().unwrap() as usize;
                let off_set: BTreeSet<u32> = offered.iter().copied().collect();
                if off_set.len() != offered.len() {
                    return Err(("dup".into(), format!("round {rounds}: an item was offered twice")));
                }
                if len != model.pending.len() {
                    return Err(("len".into(), format!("round {rounds}: len()={len} but {} pending", model.pending.len())));
                }
                let ready = model.ready();
                if ready.is_empty() {
                    if !cyclic {
                        return Err(("cycle_missed".into(), format!("round {rounds}: nothing is ready but no cycle reported")));
                    }
                    cyclic_rounds += 1;
                    if off_set != model.pending {
                        return Err(("cyclic_set".into(), format!("round {rounds}: cyclic round offered {} of {} pending items", off_set.len(), model.pending.len())));
                    }
                } else {
                    if cyclic {
                        return Err(("cycle_spurious".into(), format!("round {rounds}: cycle reported but {} items are ready", ready.len())));
                    }
                    if off_set != ready {
                        let names: BTreeMap<u32, &String> = ids.iter().map(|(k, v)| (*v, k)).collect();
                        let show = |s: &BTreeSet<u32>| s.iter().map(|i| names[i].clone()).collect::<Vec<_>>();
                        return Err(("offered".into(), format!("round {rounds}: offered {:?} but ready set is {:?}", show(&off_set), show(&ready))));
                    }
                }
                current = offered;
            }
            "done" => {
                let x = id(ev[1].as_str().unwrap(), &mut ids);
                if !current.contains(&x) {
                    return Err(("log".into(), "done for an item that was not offered".into()));
                }
                model.complete(x);
            }
            "deps" => {
                let x = id(ev[1].as_str().unwrap(), &mut ids);
                let ds: Vec<u32> = ev[2].as_array().unwrap().iter().map(|s| id(s.as_str().unwrap(), &mut ids)).collect();
                for d in &ds {
                    if model.completed.contains(d) {
                        protocol_devs += 1;
                    }
                }
                model.deps(x, &ds);
            }
            "end" => {
                if !model.pending.is_empty() {
                    return Err(("end".into(), format!("schedule reported empty with {} items pending", model.pending.len())));
                }
            }
            _ => {}
        }
    }
    Ok((rounds, cyclic_rounds, protocol_devs))
}

pub fn run(args: &Args) -> Value {
    let mut rep = Report::new("C26");
    let (items, rounds) = if args.thorough() { (4, 8) } else { (3, 8) };
    let items = args.num("items", items) as u32;
    let rounds = args.num("rounds", rounds) as u32;
    let max_states = args.num("maxstates", if args.thorough() { 6_000_000 } else { 400_000 }) as usize;
    let (states, transitions, complete) = explore(&mut rep, items, rounds, max_states);
    rep.count("bfs_states", states);
    rep.count("bfs_transitions", transitions);
    rep.exhaustive = complete;
    rep.notes.push(format!(
        "BFS over protocol histories: {items} items, <= {rounds} rounds, states hashed on the real structure's Debug form; complete={complete}"
    ));
    // the bounded-exhaustive space at a smaller bound is always fully explored
    if !complete {
        let mut small = Report::new("C26");
        let (s2, t2, c2) = explore(&mut small, items.min(3), rounds.min(6), usize::MAX);
        rep.notes.push(format!("smaller bound (3 items, 6 rounds) fully explored: states={s2} transitions={t2} complete={c2}"));
        rep.evaluations += small.evaluations;
        rep.violations.extend(small.violations);
    }
    let mut rng = Rng::new(args.seed ^ 0x26);
    let n_rand = args.num("random", if args.thorough() { 400_000 } else { 40_000 });
    for _ in 0..n_rand {
        let n = 2 + rng.below(6) as u32;
        random_history(&mut rep, &mut rng, n, 14);
    }
    rep.count("random_histories", n_rand);
    rep.finish()
}
