//! `probe pipeline`: the same glue as crates/capy/src/main.rs (parse -> index -> lower -> infer with the
//! comptime callback -> remaining comptimes -> compile_obj), with `track_unsafe_to_compile = true`, the
//! scheduling log of hook H2, every diagnostic with its range and rendered header, and a chosen order in which
//! the files are processed. One compilation per process (codegen has process-global state).
use crate::util::*;
use ast::AstNode;
use hir::common::{ComptimeResultMap, FileName, Fqn, Name};
use interner::Interner;
use la_arena::Arena;
use line_index::LineIndex;
use path_clean::PathClean;
use rustc_hash::FxHashMap;
use serde_json::{json, Value};
use std::path::{Path, PathBuf};
use uid_gen::UIDGenerator;

struct Src {
    path: PathBuf,
    contents: String,
    module: FileName,
    diags: Vec<diagnostics::Diagnostic>,
}

fn sha(bytes: &[u8]) -> String {
    // FNV-1a 128-ish (two lanes); enough to compare object files for equality
    let mut a: u64 = 0xcbf29ce484222325;
    let mut b: u64 = 0x84222325cbf29ce4;
    for (i, x) in bytes.iter().enumerate() {
        a = (a ^ *x as u64).wrapping_mul(0x100000001b3);
        b = (b ^ (*x as u64).wrapping_add(i as u64)).wrapping_mul(0x100000001b3).rotate_left(5);
    }
    format!("{a:016x}{b:016x}:{}", bytes.len())
}

pub fn run(args: &Args) -> Value {
    let main_file = args.kv.get("main").expect("--main").clone();
    let mod_dir = PathBuf::from(args.kv.get("moddir").expect("--moddir")).clean();
    let order_seed = args.num("order", 0);
    let codegen_on_error = args.kv.contains_key("force-codegen");
    let cwd = std::env::current_dir().unwrap();
    let entry_path = cwd.join(&main_file).clean();

    let mut interner = Interner::default();
    let mut world_index = hir::WorldIndex::default();
    let mut world_bodies = hir::WorldBodies::default();
    let mut uid_gen = UIDGenerator::default();
    let entry_point_name = Name(interner.intern("main"));

    // discover the file set with the CLI's worklist (each file parsed and lowered once)
    let mut discovered: Vec<PathBuf> = vec![entry_path.clone()];
    {
        let mut seen: std::collections::HashSet<PathBuf> = Default::default();
        seen.insert(entry_path.clone());
        let mut scratch_interner = Interner::default();
        let mut scratch_uid = UIDGenerator::default();
        let mut i = 0;
        while i < discovered.len() {
            let p = discovered[i].clone();
            i += 1;
            let Ok(text) = std::fs::read_to_string(&p) else {
                return json!({"status": "io_error", "file": p.to_string_lossy()});
            };
            let parse = parser::parse_source_file(&lexer::lex(&text), &text);
            let tree = parse.syntax_tree();
            let root = ast::Root::cast(tree.root(), tree).unwrap();
            let (index, _) = hir::index(root, tree, &mut scratch_interner);
            let (bodies, _) = hir::lower(root, tree, &p, &index, &mut scratch_uid, &mut scratch_interner, &mod_dir, false);
            let mut imports: Vec<PathBuf> = bodies.imports().iter().map(|f| PathBuf::from(scratch_interner.lookup(f.0))).collect();
            imports.sort();
            for imp in imports {
                if seen.insert(imp.clone()) {
                    discovered.push(imp);
                }
            }
        }
    }
    // process order: permutation chosen by --order (0 = discovery order)
    let mut order: Vec<usize> = (0..discovered.len()).collect();
    if order_seed != 0 {
        let mut rng = Rng::new(order_seed);
        for i in (1..order.len()).rev() {
            let j = rng.below(i + 1);
            order.swap(i, j);
        }
    }

    let mut sources: Vec<Src> = vec![];
    let mut parses = vec![];
    for &k in &order {
        let path = discovered[k].clone();
        let contents = std::fs::read_to_string(&path).unwrap();
        let module = FileName(interner.intern(&path.to_string_lossy()));
        let parse = parser::parse_source_file(&lexer::lex(&contents), &contents);
        sources.push(Src { path, contents, module, diags: vec![] });
        parses.push(parse);
    }
    for (src, parse) in sources.iter_mut().zip(parses.iter()) {
        let tree = parse.syntax_tree();
        let root = ast::Root::cast(tree.root(), tree).unwrap();
        let validation = ast::validation::validate(root, tree);
        let (index, indexing) = hir::index(root, tree, &mut interner);
        src.diags.extend(parse.errors().iter().cloned().map(diagnostics::Diagnostic::from_syntax));
        src.diags.extend(validation.iter().cloned().map(diagnostics::Diagnostic::from_validation));
        src.diags.extend(indexing.iter().cloned().map(diagnostics::Diagnostic::from_indexing));
        let (bodies, lowering) = hir::lower(root, tree, src.path.as_path(), &index, &mut uid_gen, &mut interner, &mod_dir, false);
        world_index.add_file(src.module, index.clone());
        world_bodies.add_file(src.module, bodies);
        src.diags.extend(lowering.iter().cloned().map(diagnostics::Diagnostic::from_lowering));
    }

    let main_files: Vec<FileName> = sources.iter().filter(|s| world_bodies[s.module].global_exists(entry_point_name)).map(|s| s.module).collect();
    let entry_point = main_files.first().map(|file| Fqn { file: *file, name: entry_point_name });

    let mut comptime_results = ComptimeResultMap::default();
    let mut generic_values = Arena::new();
    let ptr_bits = 64u8;
    let mut comptime_panicked = false;
    let interner_ref: &Interner = &interner;
    let world_bodies_ref: &hir::WorldBodies = &world_bodies;
    let _ = hir_ty::verif::take_sched_log();
    let infer = guarded(|| {
        hir_ty::InferenceCtx::new(&world_index, world_bodies_ref, interner_ref, &mut generic_values, |comptime, tys| {
            if let Some(result) = comptime_results.get(comptime) {
                return result.clone();
            }
            let r = guarded(|| {
                codegen::eval_comptime_blocks(codegen::Verbosity::None, &mut std::iter::once(comptime), &mut comptime_results, &mod_dir, interner_ref, world_bodies_ref, tys, ptr_bits)
            });
            if r.is_err() {
                comptime_panicked = true;
                println!("@@REPORT {}", json!({"status": "comptime_panicked", "panic": r.err()}));
                std::process::exit(0);
            }
            comptime_results[comptime].clone()
        })
        .finish(entry_point, true)
    });
    let sched: Vec<Value> = hir_ty::verif::take_sched_log()
        .into_iter()
        .map(|e| match e {
            hir_ty::verif::SchedEvent::Seed(v) => json!(["seed", v]),
            hir_ty::verif::SchedEvent::Round { cyclic, offered, len } => json!(["round", cyclic, offered, len]),
            hir_ty::verif::SchedEvent::Done(x) => json!(["done", x]),
            hir_ty::verif::SchedEvent::Deps(x, d) => json!(["deps", x, d]),
            hir_ty::verif::SchedEvent::End => json!(["end"]),
        })
        .collect();
    let result = match infer {
        Ok(r) => r,
        Err(p) => return json!({"status": "panic", "phase": "infer", "panic": p, "sched": sched, "files": discovered.len()}),
    };
    let hir_ty::InferenceResult { tys, diagnostics: ty_diagnostics, any_were_unsafe_to_compile } = result;

    // diagnostics: severity, range, model line/col, rendered header
    let mut diag_out = vec![];
    let mut has_errors = false;
    let mut render_problem: Option<String> = None;
    let by_module: FxHashMap<FileName, usize> = sources.iter().enumerate().map(|(i, s)| (s.module, i)).collect();
    let mut emit = |d: &diagnostics::Diagnostic, src: &Src, phase: &str, has_expr: Option<bool>, diag_out: &mut Vec<Value>, render_problem: &mut Option<String>| {
        let is_error = matches!(d.severity(), diagnostics::Severity::Error);
        let range = d.range();
        let line_index = LineIndex::new(&src.contents);
        let rendered = guarded(|| d.display(&src.path.to_string_lossy(), &src.contents, &mod_dir, interner_ref, &line_index, false));
        let (header, first) = match &rendered {
            Ok(lines) => (lines.iter().find(|l| l.contains("--> at")).cloned(), lines.first().cloned()),
            Err(p) => {
                if render_problem.is_none() {
                    *render_problem = Some(format!("{p} (range {:?}, file len {})", range, src.contents.len()));
                }
                (None, None)
            }
        };
        diag_out.push(json!({
            "phase": phase, "error": is_error, "start": u32::from(range.start()), "end": u32::from(range.end()),
            "file": src.path.file_name().map(|f| f.to_string_lossy().to_string()), "header": header, "message": first, "has_expr": has_expr,
        }));
        is_error
    };
    for src in &sources {
        for d in &src.diags {
            has_errors |= emit(d, src, "front", None, &mut diag_out, &mut render_problem);
        }
    }
    let mut error_with_expr = false;
    for d in ty_diagnostics {
        let is_err = d.is_error();
        let has_expr = d.expr.is_some();
        if is_err && has_expr {
            error_with_expr = true;
        }
        let Some(&si) = by_module.get(&d.file) else { continue };
        let dd = diagnostics::Diagnostic::from_ty(d);
        has_errors |= emit(&dd, &sources[si], "type", Some(has_expr), &mut diag_out, &mut render_problem);
    }
    let mut out = json!({
        "status": "ok", "files": discovered.len(), "has_errors": has_errors, "unsafe_flag": any_were_unsafe_to_compile,
        "type_error_with_expr": error_with_expr, "diagnostics": diag_out, "sched": sched, "mains": main_files.len(),
        "render_problem": render_problem,
        "texts": sources.iter().map(|s| json!([s.path.file_name().map(|f| f.to_string_lossy().to_string()), s.contents.len()])).collect::<Vec<_>>(),
    });
    if (has_errors && !codegen_on_error) || main_files.len() != 1 {
        out["codegen"] = json!("skipped");
        return out;
    }
    let cg = guarded(|| {
        codegen::eval_comptime_blocks(codegen::Verbosity::None, &mut world_bodies.find_comptimes(), &mut comptime_results, &mod_dir, interner_ref, world_bodies_ref, &tys, ptr_bits);
        codegen::compile_obj(
            codegen::Verbosity::None,
            entry_point.unwrap().make_concrete(None),
            &mod_dir,
            interner_ref,
            world_bodies_ref,
            &tys,
            &comptime_results,
            target_lexicon::Triple::host(),
        )
    });
    match cg {
        Err(p) => out["codegen"] = json!({"panic": p}),
        Ok(Err(e)) => out["codegen"] = json!({"error": e.to_string()}),
        Ok(Ok(bytes)) => {
            out["codegen"] = json!({"object": sha(&bytes)});
            if let Some(path) = args.kv.get("obj") {
                let _ = std::fs::write(Path::new(path), &bytes);
            }
        }
    }
    out
}
