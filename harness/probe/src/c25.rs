//! C25 — line/column. Oracle: line = number of '\n' bytes before the offset,
//! col = offset - (index after the last '\n' before the offset).
use crate::util::*;
use serde_json::json;

const ALPHA: [&str; 5] = ["a", "\n", "\r", "\t", "é"];

fn model(text: &[u8], offset: usize) -> (u32, u32) {
    let mut line = 0u32;
    let mut start = 0usize;
    for (i, b) in text.iter().enumerate() {
        if i >= offset {
            break;
        }
        if *b == b'\n' {
            line += 1;
            start = i + 1;
        }
    }
    (line, (offset - start) as u32)
}

pub fn check_text(rep: &mut Report, text: &str) {
    let idx = match guarded(|| line_index::LineIndex::new(text)) {
        Ok(i) => i,
        Err(p) => {
            rep.violation("panic", &format!("LineIndex::new panicked: {p}"), json!({"text": text}));
            return;
        }
    };
    let bytes = text.as_bytes();
    let mut lines_seen = 0;
    for off in 0..=bytes.len() {
        rep.evaluations += 1;
        let exp = model(bytes, off);
        match guarded(|| idx.line_col((off as u32).into())) {
            Err(p) => {
                rep.violation("panic", &format!("line_col panicked: {p}"), json!({"text": text, "offset": off}));
                return;
            }
            Ok((l, c)) => {
                if (l.0, c.0) != exp {
                    rep.violation(
                        "linecol",
                        &format!("line_col({off}) = ({},{}) expected ({},{})", l.0, c.0, exp.0, exp.1),
                        json!({"text": text, "offset": off}),
                    );
                    return;
                }
                lines_seen = lines_seen.max(l.0);
            }
        }
    }
    if lines_seen >= 1 {
        // distinct: the pattern of line lengths
        let sig: Vec<String> = text.split('\n').map(|l| l.len().to_string()).collect();
        rep.sig(sig.join("/"));
    }
    if rep.samples.len() < 3 && lines_seen >= 2 {
        rep.sample(json!({"text": text, "offsets": bytes.len() + 1, "last": format!("{:?}", model(bytes, bytes.len()))}));
    }
}

pub fn run(args: &Args, corpus: &[String]) -> serde_json::Value {
    let mut rep = Report::new("C25");
    let max_len = args.num("maxlen", if args.thorough() { 8 } else { 6 }) as usize;
    let mut buf = String::new();
    let mut n = 0u64;
    check_text(&mut rep, "");
    for len in 1..=max_len {
        let total = ALPHA.len().pow(len as u32);
        for mut code in 0..total {
            buf.clear();
            for _ in 0..len {
                buf.push_str(ALPHA[code % ALPHA.len()]);
                code /= ALPHA.len();
            }
            n += 1;
            check_text(&mut rep, &buf);
        }
    }
    rep.count("strings_enumerated", n);
    rep.exhaustive = true;
    rep.notes.push(format!("all strings of length <= {max_len} over {{a,\\n,\\r,\\t,é}} x all byte offsets"));
    // corpus files and random long texts: every offset
    let mut rng = Rng::new(args.seed ^ 0x25);
    let n_files = args.num("files", if args.thorough() { corpus.len() as u64 } else { corpus.len().min(40) as u64 }) as usize;
    for i in 0..n_files {
        let t = &corpus[(i + rng.below(corpus.len().max(1))) % corpus.len()];
        if t.len() < 20000 {
            check_text(&mut rep, t);
            rep.count("corpus_texts", 1);
        }
    }
    let n_rand = args.num("random", if args.thorough() { 20000 } else { 2000 });
    for _ in 0..n_rand {
        let len = rng.below(200);
        let mut s = String::new();
        for _ in 0..len {
            match rng.below(8) {
                0 | 1 => s.push('\n'),
                2 => s.push('\r'),
                3 => s.push('é'),
                4 => s.push('\u{1F600}'),
                _ => s.push((b'a' + rng.below(26) as u8) as char),
            }
        }
        check_text(&mut rep, &s);
    }
    rep.count("random_texts", n_rand);
    rep.finish()
}
