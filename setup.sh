#!/bin/sh
# Builds everything the checks need from files on disk only (offline).
set -e
cd "$(dirname "$0")"
export CARGO_NET_OFFLINE=true
python3 - <<'PY'
import sys
sys.path.insert(0, '.')
from vlib import common as C
C.build_cli()
C.build_probe()
C.build_rt()
C.build_corpus()
C.build_corpus_small()
C.build_probe_miri()
print("setup ok")
PY
