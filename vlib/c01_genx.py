"""C01 generator, part 1: generation context, typed places and PURE typed expressions.

Soundness rules kept here (each verified by hand against README + the CLI):
* both operands of a binary operator have the same type; a bare literal only appears next to a strongly typed
  operand / under an annotation / as a call argument (no weak-literal defaulting anywhere);
* `/` `%` only with divisors that cannot be 0 or -1, shifts only by literal amounts below the width,
  no `/` `%` on 128-bit integers, no 128-bit <-> float casts (known findings with their own pinned repros);
* indexes are literals below the length or `e % len` with e unsigned; unary minus only on signed integers / floats;
* expressions built here never print and never write: evaluation order inside an expression is unobservable.
"""
from .c01_ref import INT_INFO
from .c01_ast import N, Block, T, BOOL, CHAR, VOID, F32, F64, I64, U64, USIZE


class Var:
    def __init__(self, name, ty, mut, kind="local", known=None, level=0, slen=None):
        self.name, self.ty, self.mut, self.kind, self.known, self.level, self.slen = name, ty, mut, kind, known, level, slen


class Ctx:
    def __init__(self, fname, ret, pure):
        self.fname, self.ret, self.pure = fname, ret, pure
        self.scopes = [[]]
        self.targets = []      # enclosing jump targets, innermost last: {"kind": "loop"|"lblock", "label", "vty"}
        self.hoist = []        # stack of statement lists receiving hoisted declarations
        self.budget = 22       # statements left in this function
        self.deferred_names = set()
        self.frozen = []       # variables that must not be written here (scrutinee of an enclosing switch)
        self.in_expr = 0       # > 0 while generating the blocks of an if / block / switch EXPRESSION
        self.depth = 0         # block nesting depth
        self.defers = 0        # enclosing blocks of this function that hold a defer
        self.rec = None        # (FuncDef-like info) when generating a recursive function


def lit(ty, val, bare=True):
    return N("lit", ty=ty, val=val, bare=bare)


def var(v):
    return N("var", name=v.name, ty=v.ty)


def strong(e):
    """make sure e is not a bare literal"""
    if e.k == "lit":
        e.bare = False
    return e


class ExprGen:
    def __init__(self, rng, layer=4):
        self.rng = rng
        self.L = layer
        self.n_name = 0
        self.n_id = 0
        self.tags = set()
        self.prog = None
        self.int_focus = []
        self.called = set()
        self.float_on = False
        self.agg_eq_on = True
        self.variant_direct = False
        self.weak_lit_errunion = False
        self.scrutinee_write = False

    # ------------------------------------------------------------------ small helpers
    def use(self, tag):
        self.tags.add(tag)

    def fresh(self, prefix="v"):
        self.n_name += 1
        return "%s%d" % (prefix, self.n_name)

    def new_id(self):
        self.n_id += 1
        return self.n_id

    def base(self, ty):
        while ty[0] == "distinct":
            ty = self.prog.distincts[ty[1]]
        return ty

    def is_int(self, ty):
        return self.base(ty)[0] == "int"

    def info(self, ty):
        return INT_INFO[self.base(ty)[1]]

    def scalar_printable(self, ty):
        return self.base(ty)[0] in ("int", "bool", "char", "float")

    def tag_int(self, ty):
        bits, _ = self.info(ty)
        n = self.base(ty)[1]
        self.use("isize_usize" if n in ("isize", "usize") else "int%d" % bits)
        if ty[0] == "distinct":
            self.use("distinct")

    # ------------------------------------------------------------------ scopes
    def declare(self, ctx, name, ty, mut, kind="local", known=None, slen=None):
        v = Var(name, ty, mut, kind, known, len(ctx.scopes) - 1, slen)
        ctx.scopes[-1].append(v)
        return v

    def visible(self, ctx):
        seen = set()
        out = []
        for sc in reversed(ctx.scopes):
            for v in reversed(sc):
                if v.name not in seen:
                    seen.add(v.name)
                    out.append(v)
        for name, ty, _ in self.prog.consts:
            if name not in seen:
                seen.add(name)
                out.append(Var(name, ty, False, "global", None, -1))
        return out

    def hoist_decl(self, ctx, ty, init, mut=True, known=None, slen=None):
        """declares a fresh local in front of the statement being generated; returns the Var"""
        name = self.fresh()
        ctx.hoist[-1].append(N("decl", name=name, ty=ty, mut=mut, init=init, annotate=True))
        ctx.budget -= 1
        return self.declare(ctx, name, ty, mut, known=known, slen=slen)

    # ------------------------------------------------------------------ places
    def paths(self, ctx, pred, writable=False, place_only=False, dyn=True, min_level=None):
        """[(expr, ty)] readable (or writable) designators reachable from the visible variables"""
        out = []
        for v in self.visible(ctx):
            if min_level is not None and v.level > min_level:
                continue
            if writable and (v.kind == "global" or v.name in ctx.frozen):
                continue
            e = var(v)
            self._walk(ctx, v, e, v.ty, v.mut and v.kind not in ("counter", "param"), 3, out, pred, writable, dyn)
            if not place_only and not writable and v.known is not None:
                pl = self.known_payload(v)
                if pl is not None:
                    self._walk(ctx, v, pl, pl.ty, False, 2, out, pred, False, dyn)
        return out

    def known_payload(self, v):
        """#unwrap of an immutable binding whose variant the generator knows"""
        b = self.base(v.ty)
        if b[0] == "opt" and v.known == "some":
            explicit = self.rng.chance(1, 2)
            return N("unwrap", e=var(v), target=("type", b[1]), explicit=explicit, ty=b[1])
        if b[0] == "err" and v.known in ("ok", "err"):
            t = b[2] if v.known == "ok" else b[1]
            return N("unwrap", e=var(v), target=("type", t), explicit=True, ty=t)
        if b[0] == "enum":
            pl = self.prog.variant_payload(("variant", b[1], v.known))
            if pl is None:
                return None
            return N("unwrap", e=var(v), target=("variant", v.known), explicit=True, ty=("variant", b[1], v.known))
        return None

    def _walk(self, ctx, v, e, ty, w, depth, out, pred, writable, dyn):
        if pred(ty) and (w or not writable):
            out.append((e, ty))
        if depth == 0:
            return
        b = self.base(ty) if ty[0] != "variant" else ty
        k = b[0]
        if k == "variant":
            pl = self.prog.variant_payload(b)
            if pl is None:
                return
            pb = self.base(pl)
            if pb[0] == "struct":
                for f, ft in self.prog.structs[pb[1]]:
                    self._walk(ctx, v, N("field", base=e, name=f, ty=ft), ft, False, depth - 1, out, pred, writable, dyn)
            elif pb[0] == "array":
                i = self.rng.below(pb[2])
                self._walk(ctx, v, N("index", base=e, idx=lit(USIZE, i), ty=pb[1]), pb[1], False, depth - 1, out, pred, writable, dyn)
            elif pb[0] in ("int", "bool", "char"):
                c = N("cast", ty=pl, e=e)
                if pred(pl) and not writable:
                    out.append((c, pl))
        elif k == "struct":
            for f, ft in self.prog.structs[b[1]]:
                self._walk(ctx, v, N("field", base=e, name=f, ty=ft), ft, w, depth - 1, out, pred, writable, dyn)
        elif k == "array":
            n = b[2]
            for i in set([self.rng.below(n), self.rng.below(n)]):
                idx = lit(USIZE, i)
                if dyn and self.rng.chance(1, 5):
                    idx = self.dyn_index(ctx, n)
                self._walk(ctx, v, N("index", base=e, idx=idx, ty=b[1]), b[1], w, depth - 1, out, pred, writable, dyn)
        elif k == "ptr":
            if writable and ctx.frozen:
                return            # a pointer may alias the frozen variable
            to = b[1]
            tb = self.base(to)
            self._walk(ctx, v, N("deref", e=e, ty=to), to, b[2], 0, out, pred, writable, dyn)
            if tb[0] == "struct":
                for f, ft in self.prog.structs[tb[1]]:
                    self._walk(ctx, v, N("field", base=e, name=f, ty=ft), ft, b[2], depth - 1, out, pred, writable, dyn)
            elif tb[0] == "array":
                i = self.rng.below(tb[2])
                self._walk(ctx, v, N("index", base=N("deref", e=e, ty=to), idx=lit(USIZE, i), ty=tb[1]), tb[1], b[2], depth - 1, out, pred, writable, dyn)
        elif k == "slice" and v.slen and not (writable and ctx.frozen):
            i = self.rng.below(v.slen)
            idx = lit(USIZE, i)
            if dyn and self.rng.chance(1, 5):
                idx = self.dyn_index(ctx, v.slen)
            self._walk(ctx, v, N("index", base=e, idx=idx, ty=b[1]), b[1], w, depth - 1, out, pred, writable, dyn)

    def dyn_index(self, ctx, n):
        """run-time index that is provably below n: (unsigned expression) % n"""
        self.use("dyn_index")
        t = self.rng.pick([USIZE, USIZE, T("u8"), T("u32"), U64])
        if n > 200:
            t = USIZE
        e = strong(self.gen_int(ctx, t, 0, dyn=False))
        return N("bin", op="%", a=e, b=lit(t, n), ty=t)

    # ------------------------------------------------------------------ literals
    def int_value(self, ty):
        bits, signed = self.info(ty)
        hi = (1 << (bits - 1)) - 1 if signed else (1 << bits) - 1
        lo = -(1 << (bits - 1)) if signed else 0
        if bits == 128:
            hi, lo = (1 << 63) - 1, (-(1 << 63) + 1 if signed else 0)
        r = self.rng.below(10)
        if r < 3:
            v = self.rng.below(10)
        elif r < 5:
            v = self.rng.pick([hi, hi - 1, lo, lo + 1])
        elif r < 7:
            v = (1 << self.rng.below(min(bits, 63))) + self.rng.range(-1, 1)
            if signed and self.rng.chance(1, 3):
                v = -v
        else:
            v = self.rng.next() >> self.rng.below(64)
            v = v & ((1 << min(bits, 63)) - 1)
            if signed and self.rng.chance(1, 3):
                v = -v
        return max(lo, min(hi, v))

    def gen_lit(self, ty, bare=True):
        b = self.base(ty)
        if b[0] == "int":
            return lit(ty, self.int_value(ty), bare)
        if b[0] == "bool":
            return lit(ty, self.rng.chance(1, 2), True)
        if b[0] == "char":
            return lit(ty, ord(self.rng.pick("abcdefghijklmnopqrstuvwxyzABCXYZ0123456789 !#%&*+-./:;<=>?@[]^_{|}~")), True)
        if b[0] == "float":
            v = self.rng.range(-64, 64) / 8.0
            if v < 0:
                bare = False if False else bare
            return lit(ty, v, bare)
        raise AssertionError(ty)

    # ------------------------------------------------------------------ expressions
    def gen_expr(self, ctx, ty, d):
        """a pure expression of exactly type ty"""
        b = self.base(ty)
        k = b[0]
        if k == "int":
            return self.gen_int(ctx, ty, d)
        if k == "bool":
            return self.gen_bool(ctx, d)
        if k == "char":
            return self.gen_char(ctx, d)
        if k == "float":
            return self.gen_float(ctx, ty, d)
        return self.gen_agg(ctx, ty, d)

    def pick_path(self, ctx, ty, dyn=True):
        ps = self.paths(ctx, lambda t: t == ty, dyn=dyn)
        return self.rng.pick(ps)[0] if ps else None

    def pure_call(self, ctx, ty, d):
        """call of an earlier PURE function returning ty (None if there is none)"""
        cands = [f for f in self.prog.funcs if f.pure and f.ret == ty and not getattr(f, "rec", False)]
        if not cands or d <= 0:
            return None
        f = self.rng.pick(cands)
        return self.gen_call(ctx, f, max(0, d - 1))

    def gen_int(self, ctx, ty, d, dyn=True):
        self.tag_int(ty)
        bits, signed = self.info(ty)
        rng = self.rng
        opts = [("lit", 3 if d > 0 else 5), ("path", 8)]
        if d > 0:
            opts += [("arith", 6), ("cast", 3), ("bitwise", 2), ("shift", 2), ("unary", 1), ("call", 3), ("opaque", 1), ("len", 1)]
            if bits < 128:
                opts.append(("div", 2))
        for _ in range(4):
            c = rng.weighted(opts)
            if c == "lit":
                return self.gen_lit(ty)
            if c == "path":
                e = self.pick_path(ctx, ty, dyn=dyn and d > 0)
                if e is not None:
                    return e
            elif c == "arith":
                op = rng.pick(["+", "-", "*", "+", "-"])
                a, b_ = self.gen_int(ctx, ty, d - 1), self.gen_int(ctx, ty, d - 1)
                if a.k == "lit" and b_.k == "lit":
                    strong(a)
                return N("bin", op=op, a=a, b=b_, ty=ty)
            elif c == "bitwise":
                self.use("bitwise")
                op = rng.pick(["&", "|", "~"])
                a, b_ = self.gen_int(ctx, ty, d - 1), self.gen_int(ctx, ty, d - 1)
                if a.k == "lit" and b_.k == "lit":
                    strong(a)
                return N("bin", op=op, a=a, b=b_, ty=ty)
            elif c == "shift":
                self.use("shift")
                op = rng.pick(["<<", ">>"])
                a = strong(self.gen_int(ctx, ty, d - 1))
                return N("bin", op=op, a=a, b=lit(ty, rng.below(bits)), ty=ty)
            elif c == "div":
                self.use("div")
                op = rng.pick(["/", "%"])
                a = strong(self.gen_int(ctx, ty, d - 1))
                return N("bin", op=op, a=a, b=self.safe_divisor(ctx, ty, d - 1), ty=ty)
            elif c == "unary":
                op = rng.pick(["-", "~"]) if signed else "~"
                return N("un", op=op, e=strong(self.gen_int(ctx, ty, d - 1)), ty=ty)
            elif c == "cast":
                e = self.cast_source(ctx, ty, d - 1)
                if e is not None:
                    return N("cast", ty=ty, e=e)
            elif c == "call":
                e = self.pure_call(ctx, ty, d)
                if e is not None:
                    return e
            elif c == "opaque":
                self.use("opaque")
                hi = min((1 << (bits - 1)) - 1, 1 << 40)
                o = N("opaque", e=lit(I64, rng.below(hi + 1)), ty=I64)
                return o if ty == I64 else N("cast", ty=ty, e=o)
            elif c == "len" and self.L >= 2:
                ps = self.paths(ctx, lambda t: self.base(t)[0] in ("array", "slice"), dyn=False)
                if ps:
                    self.use("len")
                    ln = N("len", e=rng.pick(ps)[0], ty=USIZE)
                    return ln if ty == USIZE else N("cast", ty=ty, e=ln)
        return self.gen_lit(ty)

    def safe_divisor(self, ctx, ty, d):
        bits, signed = self.info(ty)
        rng = self.rng
        if d <= 0 or rng.chance(1, 2):
            hi = (1 << (min(bits, 64) - 1)) - 1
            v = rng.pick([1, 2, 3, 5, 7, 10, 16, 100, hi, rng.range(1, min(hi, 1000))])
            v = max(1, min(hi, v))
            if signed and rng.chance(1, 3) and v > 1:
                v = -v
            return lit(ty, v)
        e = strong(self.gen_int(ctx, ty, d - 1))
        if signed:
            return N("bin", op="+", a=N("bin", op="&", a=e, b=lit(ty, 7), ty=ty), b=lit(ty, 1), ty=ty)
        return N("bin", op="|", a=e, b=lit(ty, 1), ty=ty)

    def cast_source(self, ctx, ty, d):
        """an expression of another scalar type that may be cast to the integer type ty"""
        rng = self.rng
        r = rng.below(10)
        if r < 6:
            others = [t for t in self.int_focus if t != ty]
            if not others:
                return None
            self.use("cast_int")
            return strong(self.gen_int(ctx, rng.pick(others), d))
        if r < 8:
            self.use("cast_bool")
            return self.gen_bool(ctx, d)
        if r < 9:
            self.use("cast_char")
            return self.gen_char(ctx, d)
        if self.float_on and self.info(ty)[0] <= 64:
            # float -> int: only from an integer-valued small float, f.(i8 / u8 expression): fits every target
            self.use("cast_float")
            ft = rng.pick([F32, F64])
            small = T("i8") if self.info(ty)[1] else T("u8")
            return N("cast", ty=ft, e=strong(self.gen_int(ctx, small, 0)))
        return None

    def gen_bool(self, ctx, d):
        self.use("bool")
        rng = self.rng
        opts = [("lit", 2), ("path", 6)]
        if d > 0:
            opts += [("cmp", 10), ("not", 2), ("logic", 4), ("bitlogic", 1), ("isvar", 3), ("chareq", 1), ("aggeq", 2), ("boolcmp", 1), ("call", 2), ("floatcmp", 1)]
        for _ in range(4):
            c = rng.weighted(opts)
            if c == "lit":
                return self.gen_lit(BOOL)
            if c == "path":
                e = self.pick_path(ctx, BOOL, dyn=d > 0)
                if e is not None:
                    return e
            elif c == "cmp":
                have = [t for t in self.int_focus if self.paths(ctx, lambda x, t=t: x == t, dyn=False)]
                t = rng.pick(have) if have and rng.chance(4, 5) else rng.pick(self.int_focus)
                a, b_ = self.gen_int(ctx, t, d - 1), self.gen_int(ctx, t, d - 1)
                if a.k == "lit" and b_.k == "lit":
                    strong(a)
                self.use("compare")
                return N("bin", op=rng.pick(["==", "!=", "<", "<=", ">", ">="]), a=a, b=b_, ty=BOOL)
            elif c == "not":
                return N("un", op="!", e=self.gen_bool(ctx, d - 1), ty=BOOL)
            elif c == "logic":
                self.use("logic")
                return N("bin", op=rng.pick(["&&", "||"]), a=self.gen_bool(ctx, d - 1), b=self.gen_bool(ctx, d - 1), ty=BOOL)
            elif c == "bitlogic":
                return N("bin", op=rng.pick(["&", "|"]), a=self.gen_bool(ctx, d - 1), b=self.gen_bool(ctx, d - 1), ty=BOOL)
            elif c == "boolcmp":
                return N("bin", op=rng.pick(["==", "!=", "<", ">", "<=", ">="]), a=self.gen_bool(ctx, d - 1), b=self.gen_bool(ctx, d - 1), ty=BOOL)
            elif c == "chareq":
                self.use("char")
                return N("bin", op=rng.pick(["==", "!="]), a=self.gen_char(ctx, d - 1), b=self.gen_char(ctx, d - 1), ty=BOOL)
            elif c == "floatcmp" and self.float_on:
                t = rng.pick([F32, F64])
                a, b_ = self.gen_float(ctx, t, d - 1), self.gen_float(ctx, t, d - 1)
                if a.k == "lit" and b_.k == "lit":
                    strong(a)
                return N("bin", op=rng.pick(["==", "!=", "<", "<=", ">", ">="]), a=a, b=b_, ty=BOOL)
            elif c == "isvar" and self.L >= 3:
                e = self.gen_isvar(ctx)
                if e is not None:
                    return e
            elif c == "aggeq" and self.L >= 2:
                e = self.gen_aggeq(ctx, d)
                if e is not None:
                    return e
            elif c == "call":
                e = self.pure_call(ctx, BOOL, d)
                if e is not None:
                    return e
        return self.gen_lit(BOOL)

    def gen_char(self, ctx, d):
        self.use("char")
        rng = self.rng
        if d > 0 and rng.chance(1, 4):
            u8 = T("u8")
            e = N("bin", op="&", a=strong(self.gen_int(ctx, u8, d - 1)), b=lit(u8, 127), ty=u8)
            self.use("cast_char")
            return N("cast", ty=CHAR, e=e)
        if rng.chance(2, 3):
            e = self.pick_path(ctx, CHAR, dyn=d > 0)
            if e is not None:
                return e
        return self.gen_lit(CHAR)

    def gen_float(self, ctx, ty, d):
        self.use("float")
        rng = self.rng
        opts = [("lit", 3), ("path", 6)]
        if d > 0:
            opts += [("arith", 6), ("fromint", 2), ("conv", 1), ("neg", 1)]
        for _ in range(3):
            c = rng.weighted(opts)
            if c == "lit":
                return self.gen_lit(ty)
            if c == "path":
                e = self.pick_path(ctx, ty, dyn=d > 0)
                if e is not None:
                    return e
            elif c == "arith":
                a, b_ = self.gen_float(ctx, ty, d - 1), self.gen_float(ctx, ty, d - 1)
                if a.k == "lit" and b_.k == "lit":
                    strong(a)
                return N("bin", op=rng.pick(["+", "-", "*"]), a=a, b=b_, ty=ty)
            elif c == "fromint":
                srcs = [t for t in self.int_focus if self.info(t)[0] <= 32 or (self.info(t)[0] == 64 and ty == F64)]
                if srcs:
                    return N("cast", ty=ty, e=strong(self.gen_int(ctx, rng.pick(srcs), d - 1)))
            elif c == "conv":
                other = F32 if ty == F64 else F64
                return N("cast", ty=ty, e=strong(self.gen_float(ctx, other, d - 1)))
            elif c == "neg":
                return N("un", op="-", e=strong(self.gen_float(ctx, ty, d - 1)), ty=ty)
        return self.gen_lit(ty)

    # ------------------------------------------------------------------ sum-type tests / aggregate equality
    def sum_targets(self, ty):
        """[(target, tag)] of a sum type"""
        b = self.base(ty)
        if b[0] == "enum":
            return [(("variant", vn), vn) for vn, _, _ in self.prog.enums[b[1]]]
        if b[0] == "opt":
            return [(("type", b[1]), "some"), (("nil",), "nil")]
        if b[0] == "err":
            return [(("type", b[2]), "ok"), (("type", b[1]), "err")]
        raise AssertionError(ty)

    def is_sum(self, ty):
        return self.base(ty)[0] in ("enum", "opt", "err")

    def gen_isvar(self, ctx):
        ps = self.paths(ctx, self.is_sum, dyn=False)
        if not ps:
            return None
        e, t = self.rng.pick(ps)
        target, _ = self.rng.pick(self.sum_targets(t))
        self.use("is_variant")
        return N("isvar", e=e, target=target, ty=BOOL)

    def eq_comparable(self, ty):
        b = self.base(ty)
        if b[0] in ("int", "bool", "char"):
            return True
        if b[0] == "array":
            return self.eq_comparable(b[1])
        if b[0] == "struct":
            return all(self.eq_comparable(t) for _, t in self.prog.structs[b[1]])
        if b[0] == "enum":
            return all(pl is None or self.eq_comparable(pl) for _, pl, _ in self.prog.enums[b[1]])
        if b[0] == "opt":
            return self.eq_comparable(b[1])
        if b[0] == "err":
            return self.eq_comparable(b[1]) and self.eq_comparable(b[2])
        return False

    def gen_aggeq(self, ctx, d):
        ps = self.paths(ctx, lambda t: self.base(t)[0] in ("struct", "array") and self.eq_comparable(t), dyn=False)
        if not ps or not self.agg_eq_on:
            return None
        e, t = self.rng.pick(ps)
        other = self.gen_agg(ctx, t, max(0, d - 1))
        self.use("agg_eq")
        return N("bin", op=self.rng.pick(["==", "!="]), a=e, b=other, ty=BOOL)

    # ------------------------------------------------------------------ aggregates, sums, pointers, slices, functions
    def gen_agg(self, ctx, ty, d):
        b = self.base(ty)
        k = b[0]
        rng = self.rng
        if k not in ("ptr", "slice", "fn") and rng.chance(2, 5):
            e = self.pick_path(ctx, ty, dyn=d > 0)
            if e is not None:
                if k in ("struct",):
                    self.use("struct_copy")
                if k == "array":
                    self.use("array_copy")
                return e
        if k not in ("ptr", "slice", "fn") and rng.chance(1, 5):
            e = self.pure_call(ctx, ty, d)
            if e is not None:
                return e
        d1 = max(0, d - 1)
        if k == "struct":
            self.use("struct")
            return N("structlit", ty=ty, fields=[(f, self.gen_expr(ctx, ft, d1)) for f, ft in self.prog.structs[b[1]]])
        if k == "array":
            self.use("array")
            return N("arrlit", ty=ty, elems=[self.gen_expr(ctx, b[1], d1) for _ in range(b[2])])
        if k == "enum":
            return self.gen_variant(ctx, ty, d1)
        if k == "opt":
            self.use("optional")
            if rng.chance(1, 3):
                return N("nil", ty=ty)
            return N("wrap", how="some", e=self.sum_inner(ctx, b[1], d1), ty=ty)
        if k == "err":
            self.use("errunion")
            if rng.chance(1, 2):
                inner = self.gate_ok_literal(self.sum_inner(ctx, b[2], d1))
                return N("wrap", how="ok", e=inner, ty=ty)
            return N("wrap", how="err", e=self.sum_inner(ctx, b[1], d1), ty=ty)
        if k == "ptr":
            return self.gen_ptr(ctx, ty)
        if k == "slice":
            return self.gen_slice(ctx, ty)[0]
        if k == "fn":
            return self.gen_fnval(ctx, ty)
        raise AssertionError(ty)

    def gate_ok_literal(self, inner):
        """known finding C01-weak-literal-into-error-union: an untyped literal >= 2^31 (or the `-MAX - 1` spelling of MIN)
        converted to an error union panics codegen / fails the cranelift verifier; only opted-in programs spell it so"""
        if inner.k == "lit" and inner.bare and self.is_int(inner.ty) and (abs(inner.val) >= (1 << 31) or inner.val == -(1 << (self.info(inner.ty)[0] - 1))):
            if self.weak_lit_errunion:
                self.use("weak_lit_errunion")
            else:
                strong(inner)
        return inner

    def sum_inner(self, ctx, ty, d):
        """payload of an optional / error union: an enum payload is first bound to a local of the ENUM type
        (a variant literal converted directly to ?E / E!T is the defect 'variant_direct', produced only in
        programs that opted in)"""
        e = self.gen_expr(ctx, ty, d)
        if self.base(ty)[0] == "enum" and e.k == "wrap" and e.how == "v2e":
            if self.variant_direct and ctx.hoist:
                self.use("variant_direct")
                return e
            if not ctx.hoist:
                ps = self.pick_path(ctx, ty, dyn=False)
                if ps is not None:
                    return ps
            v = self.hoist_decl(ctx, ty, e, mut=False)
            return var(v)
        return e

    def gen_variant(self, ctx, ty, d, vname=None):
        b = self.base(ty)
        self.use("enum")
        vs = self.prog.enums[b[1]]
        vn, pl, disc = self.rng.pick(vs) if vname is None else [x for x in vs if x[0] == vname][0]
        if disc is not None:
            self.use("enum_disc")
        vty = ("variant", b[1], vn)
        if pl is None:
            vl = N("variantlit", ety=b, vname=vn, payload=None, ty=vty)
        elif pl[0] == "struct" and pl[1] in self.prog.inline_structs:
            self.use("enum_struct_payload")
            vl = N("variantlit", ety=b, vname=vn, payload=[(f, self.gen_expr(ctx, ft, d)) for f, ft in self.prog.structs[pl[1]]], ty=vty)
        else:
            self.use("enum_payload")
            vl = N("variantlit", ety=b, vname=vn, payload=self.gen_expr(ctx, pl, d), ty=vty)
        return N("wrap", how="v2e", e=vl, ty=ty)

    def gen_ptr(self, ctx, ty, min_level=None):
        """^place / ^mut place of a visible variable that outlives the pointer (None if there is none)"""
        b = self.base(ty)
        self.use("pointer")
        ps = self.paths(ctx, lambda t: t == b[1], writable=b[2], place_only=True, dyn=False, min_level=min_level)
        ps = [(e, t) for e, t in ps if self.addressable(e)]
        if ps:
            e, _ = self.rng.pick(ps)
            if e.k == "deref" and e.e.ty == ty:
                return e.e           # ^mut (p^) is p
            return N("addr", place=e, mut=b[2], ty=ty)
        if min_level is not None or not ctx.hoist:
            return None
        v = self.hoist_decl(ctx, b[1], self.gen_expr(ctx, b[1], 1), mut=True)
        return N("addr", place=var(v), mut=b[2], ty=ty)

    def addressable(self, e):
        while e.k in ("field", "index"):
            e = e.base
        return e.k in ("var", "deref")

    def gen_slice(self, ctx, ty, want_len=None, min_level=None):
        """(expr, static length): a mutable array variable viewed as a slice"""
        b = self.base(ty)
        self.use("slice")
        cands = [v for v in self.visible(ctx) if v.mut and v.kind == "local" and self.base(v.ty)[0] == "array" and self.base(v.ty)[1] == b[1]
                 and (want_len is None or self.base(v.ty)[2] == want_len) and (min_level is None or v.level <= min_level)]
        if cands:
            v = self.rng.pick(cands)
        else:
            if min_level is not None or not ctx.hoist:
                return None, None
            n = want_len or self.rng.range(1, 5)
            at = ("array", b[1], n)
            v = self.hoist_decl(ctx, at, self.gen_agg(ctx, at, 1), mut=True)
        return N("wrap", how="a2s", e=var(v), ty=ty), self.base(v.ty)[2]

    def gen_fnval(self, ctx, ty):
        """a function value of the alias type: a matching global function, a visible function variable, or a lambda"""
        self.use("fnptr")
        ps, ret = self.prog.fnaliases[ty[1]]
        rng = self.rng
        sig = [t for _, t in ps]
        cands = [f for f in self.prog.funcs if [t for _, t, va in f.params] == sig and f.ret == ret and not any(va for _, _, va in f.params)
                 and not getattr(f, "rec", False) and (f.pure or not ctx.pure)]
        r = rng.below(3)
        if r == 0 and cands:
            f = rng.pick(cands)
            self.called.add(f.name)
            return N("var", name=f.name, ty=ty)
        if r == 1:
            e = self.pick_path(ctx, ty, dyn=False)
            if e is not None:
                return e
        return self.gen_lambda(ctx, ty)

    def gen_lambda(self, ctx, ty):
        raise NotImplementedError

    def gen_call(self, ctx, f, d):
        raise NotImplementedError
