"""Generator + reference evaluator for C20: programs made of 3..12 interdependent globals plus `main`.

Every global definition is a text with placeholders `@{NAME}` for references to other globals, so that the same program can be
laid out in any order and in any partition into files (a placeholder becomes `NAME` or `mK.NAME`). Expressions are small ASTs
(tuples) that are rendered to capy and evaluated in python (the reference semantics: exact integers; all values stay far below
2^62, `%` is only applied to non-negative values, casts are value preserving).
"""
import re

PH = re.compile(r"@\{(\w+)\}")
MODS = [251, 509, 1009]
BUILTIN_INTS = ["i32", "i64", "u16", "u32", "u64"]


class Regen(Exception):
    """the generated program is unsuitable (evaluation budget / magnitude): generate another one"""


INT_BYTES = {"i32": 4, "i64": 8, "u16": 2, "u32": 4, "u64": 8, "usize": 8}


class Ty:
    """kind: i64 | int (any other integer type, alias, distinct) | struct | enum | arr; `bytes` = size of an integer type"""
    __slots__ = ("kind", "text", "ref", "elem", "n", "size", "bytes")

    def __init__(self, kind, text, ref=None, elem=None, n=None, size=None, bytes_=None):
        self.kind, self.text, self.ref, self.elem, self.n, self.size = kind, text, ref, elem, n, size
        self.bytes = bytes_ if bytes_ is not None else INT_BYTES.get(text)


I64 = Ty("i64", "i64")


class Fn:
    __slots__ = ("name", "params", "ret", "body", "pure", "ct", "gkind", "alias_of")

    def __init__(self, name, params, ret, body, pure, ct=(), gkind=None, alias_of=None):
        self.name, self.params, self.ret, self.body, self.pure = name, params, ret, body, pure
        self.ct, self.gkind, self.alias_of = list(ct), gkind, alias_of


class Ctx:
    def __init__(self, vars_, callees, pure, calls_left=3):
        self.vars = list(vars_)        # (name, Ty)
        self.callees = list(callees)   # function names that may be called
        self.pure = pure
        self.stmts = []
        self.calls_left = calls_left
        self.in_generic = False        # no inline comptime blocks inside generic bodies (capy: todo!() for comptime inside a generic function)

    def sub(self, extra_vars=()):
        c = Ctx(self.vars + list(extra_vars), self.callees, self.pure, self.calls_left)
        c.in_generic = self.in_generic
        return c


# --------------------------------------------------------------------------- rendering

def rx(a):
    t = a[0]
    if t == "lit":
        return str(a[1])
    if t == "var":
        return a[1]
    if t == "g":
        return f"i64.(@{{{a[1]}}})" if a[2] else f"@{{{a[1]}}}"
    if t == "bin":
        return f"({rx(a[2])} {a[1]} {rx(a[3])})"
    if t == "mod":
        return f"({rx(a[1])} % {a[2]})"
    if t == "call":
        return f"@{{{a[1]}}}(" + ", ".join(rx(x) for x in a[2]) + ")"
    if t == "gcall":
        return f"@{{{a[1]}}}(" + ", ".join(list(a[2]) + [rx(x) for x in a[4]]) + ")"
    if t == "cast":
        return f"{a[1]}.({rx(a[2])})"
    if t == "toi":
        return f"i64.({rx(a[1])})"
    if t == "fld":
        return f"{rx(a[1])}.{a[2]}"
    if t == "idx":
        return f"{rx(a[1])}[{a[2]}]"
    if t == "len":
        return f"i64.({rx(a[1])}.len)"
    if t == "mkS":
        return f"{a[1]}.{{ " + ", ".join(f"{f} = {rx(e)}" for f, e in a[2]) + " }"
    if t == "mkA":
        return f"{a[1]}.[" + ", ".join(rx(e) for e in a[2]) + "]"
    if t == "mkE":
        return f"{a[1]}.{a[2]}" if a[3] is None else f"{a[1]}.{a[2]}.({rx(a[3])})"
    if t == "if":
        return f"if {rx(a[2])} {a[1]} {rx(a[3])} {rblock(a[4])} else {rblock(a[5])}"
    if t == "sw":
        arms = ", ".join(f".{v} => {rblock(b)}" for v, b in a[3])
        return f"switch {a[2]} in {rx(a[1])} {{ {arms} }}"
    if t == "block":
        return rblock(a)
    if t == "ct":           # an inline comptime block (closed: it refers to globals only)
        return "comptime " + rblock(a[1])
    raise ValueError(t)


def rstmt(s):
    t = s[0]
    if t == "let":          # ('let', name, type text | None, ast | None)
        ann = f" : {s[2]}" if s[2] else ""
        if s[3] is None:
            return f"{s[1]}{ann};"
        return f"{s[1]}{ann} = {rx(s[3])};" if s[2] else f"{s[1]} := {rx(s[3])};"
    if t == "ev":
        return f"vr_i64({s[1]}, {rx(s[2])});"
    if t == "evb":      # the tag byte of an enum is the last of the s[3] bytes printed
        return f"vr_bytes({s[1]}, ^{s[2]}, {s[3]});"
    if t == "larr":
        return f"{s[1]} : [{rx(s[2])}]i64;"
    if t == "asg":
        return f"{s[1]} = {rx(s[2])};"
    if t == "sti":
        return f"{s[1]}[{s[2]}] = {rx(s[3])};"
    if t == "ifs":
        return f"if {rx(s[2])} {s[1]} {rx(s[3])} {{ " + " ".join(rstmt(x) for x in s[4]) + " }"
    raise ValueError(t)


def rblock(b, indent=None):
    assert b[0] == "block"
    if indent is None:
        return "{ " + " ".join([rstmt(s) for s in b[1]] + [rx(b[2])]) + " }"
    pad = " " * indent
    return "{\n" + "".join(f"{pad}{rstmt(s)}\n" for s in b[1]) + f"{pad}{rx(b[2])}\n}}"


# --------------------------------------------------------------------------- reference evaluation

class Ev:
    def __init__(self, prog, budget=150000):
        self.p, self.log, self.steps, self.budget = prog, [], 0, budget

    def call(self, name, args, ctenv=None):
        f = self.p.fns[name]
        while f.alias_of:
            f = self.p.fns[f.alias_of]
        env = dict(ctenv or {})
        for (pn, _), v in zip(f.params, args):
            env[pn] = v
        return self.block(f.body, env)

    def block(self, b, env):
        env = dict(env)
        for s in b[1]:
            self.stmt(s, env)
        return self.ex(b[2], env)

    def stmt(self, s, env):
        t = s[0]
        if t == "let":
            env[s[1]] = self.ex(s[3], env) if s[3] is not None else s[4]   # s[4]: default value of an uninitialised local
        elif t == "ev":
            self.log.append(("I", s[1], str(self.ex(s[2], env))))
        elif t == "evb":
            v = env[s[2]]
            d = self.p.enum_disc(v)
            self.log.append(("X", s[1], None if d is None else f"{d:02x}"))
        elif t == "larr":
            env[s[1]] = [0] * self.ex(s[2], env)
        elif t == "asg":
            env[s[1]] = self.ex(s[2], env)
        elif t == "sti":
            env[s[1]][s[2]] = self.ex(s[3], env)
        elif t == "ifs":
            if self.cmp(s[1], self.ex(s[2], env), self.ex(s[3], env)):
                for x in s[4]:
                    self.stmt(x, env)
        else:
            raise ValueError(t)

    @staticmethod
    def cmp(op, a, b):
        return {"<": a < b, "==": a == b, "<=": a <= b, ">": a > b}[op]

    def ex(self, a, env):
        self.steps += 1
        if self.steps > self.budget:
            raise Regen("evaluation budget")
        t = a[0]
        if t == "lit":
            return a[1]
        if t == "var":
            return env[a[1]]
        if t == "g":
            return self.p.gval[a[1]]
        if t == "bin":
            x, y = self.ex(a[2], env), self.ex(a[3], env)
            r = x + y if a[1] == "+" else x * y if a[1] == "*" else x - y
            if r < 0 or r >= 1 << 60:
                raise Regen("magnitude")
            return r
        if t == "mod":
            x = self.ex(a[1], env)
            if x < 0:
                raise Regen("negative modulo")
            return x % a[2]
        if t == "call":
            return self.call(a[1], [self.ex(x, env) for x in a[2]])
        if t == "gcall":
            return self.call(a[1], [self.ex(x, env) for x in a[4]], a[3])
        if t in ("cast", "toi"):
            return self.ex(a[-1], env)
        if t == "fld":
            return self.ex(a[1], env)[a[2]]
        if t == "idx":
            return self.ex(a[1], env)[a[2]]
        if t == "len":
            return len(self.ex(a[1], env))
        if t == "mkS":
            return {f: self.ex(e, env) for f, e in a[2]}
        if t == "mkA":
            return [self.ex(e, env) for e in a[2]]
        if t == "mkE":
            return ("E", a[4], a[2], None if a[3] is None else self.ex(a[3], env))
        if t == "if":
            return self.block(a[4] if self.cmp(a[1], self.ex(a[2], env), self.ex(a[3], env)) else a[5], env)
        if t == "sw":
            v = self.ex(a[1], env)
            for vn, b in a[3]:
                if vn == v[2]:
                    e2 = dict(env)
                    e2[a[2]] = v[3]
                    return self.block(b, e2)
            raise ValueError("no arm")
        if t == "block":
            return self.block(a, env)
        if t == "ct":
            return self.block(a[1], {})
        raise ValueError(t)


# --------------------------------------------------------------------------- the program

KIND_WEIGHTS = [("struct", 4), ("enum", 3), ("alias", 3), ("distinct", 1), ("cttype", 1), ("const", 6), ("comptime", 4), ("fn", 7), ("recfn", 2),
                ("genT", 2), ("genN", 2), ("genId", 1), ("tygen", 1), ("fnalias", 1)]


class Prog:
    def __init__(self, rng):
        self.rng = rng
        self.order, self.text, self.kind = [], {}, {}
        self.int_tys, self.struct_tys, self.enum_tys = [], [], []
        self.structs, self.enums = {}, {}
        self.consts = []          # (name, sem)
        self.cints = []           # comptime int globals
        self.cstructs = []        # (name, Ty)
        self.gval = {}
        self.fns, self.fn_order = {}, []
        self.tygens = []
        self.uid = 0
        self.evid = 0
        self.lid = 0

    # ---- small helpers
    def name(self, prefix):
        self.uid += 1
        return f"{prefix}{self.uid}"

    def local(self, prefix):
        self.lid += 1
        return f"{prefix}{self.lid}"

    def event(self):
        self.evid += 1
        return self.evid

    def add(self, name, kind, text):
        self.order.append(name)
        self.kind[name] = kind
        self.text[name] = text

    def deps(self, name):
        return set(PH.findall(self.text[name]))

    def enum_disc(self, v):
        for vn, _, d in self.enums[v[1]]:
            if vn == v[2]:
                return d
        return None

    def usize_consts(self):
        return [n for n, s in self.consts if s == "usize"]

    def pure_fns(self):
        return [n for n in self.fn_order if self.fns[n].pure]

    def plain_callees(self, pure):
        return [n for n in self.fn_order if (self.fns[n].pure or not pure)]

    # ---- types
    def pick_int_ty(self, allow_i64=True):
        r = self.rng
        if self.int_tys and r.chance(2, 3):
            return r.pick(self.int_tys)
        if allow_i64 and r.chance(1, 2):
            return I64
        return Ty("int", r.pick(BUILTIN_INTS))

    def ct_size(self):
        """-> (n, ast): an inline comptime block usable as an array length / comptime usize argument. It calls pure functions (plain, self- and mutually
        recursive ones) and reads consts; its value is needed while the body / definition that contains it is type-checked."""
        r = self.rng
        ctx = self.pure_ctx(calls=2)
        e = self.gen_int(ctx, 1)
        if self.rec and r.chance(2, 3):
            e = ("bin", "+", e, ("call", r.pick(r.pick(self.rec)), [("lit", r.range(0, 5)), self.small(ctx, 0)]))
        elif self.pure_fns() and r.chance(1, 2):
            fs = [n for n in self.pure_fns() if self.fns[n].ret.kind == "i64" and not self.fns[n].ct]
            if fs:
                ctx.calls_left = 1
                e = ("bin", "+", e, self.gen_call(r.pick(fs), ctx, 0))
        e = ("bin", "+", ("mod", e, 4), ("lit", 1))
        blk = ("block", ctx.stmts, ("cast", "usize", ("cast", "i64", e)))
        n = Ev(self, 60000).block(blk, {})
        return n, ("ct", blk)

    def can_ct(self):
        return bool(self.rec or self.consts or self.pure_fns())

    def pick_size(self, ct_ok=True):
        """-> (n, size ast)"""
        r = self.rng
        if ct_ok and self.can_ct() and r.chance(1, 4):
            return self.ct_size()
        us = self.usize_consts()
        if us and r.chance(3, 4):
            n = r.pick(us)
            return self.gval[n], ("g", n, False)
        v = r.range(1, 5)
        return v, ("lit", v)

    def field_ty(self):
        r = self.rng
        k = r.below(10)
        if k < 2 and self.struct_tys:
            return r.pick(self.struct_tys)
        if k < 3 and self.enum_tys:
            return r.pick(self.enum_tys)
        if k < 6:
            n, size = self.pick_size()
            return Ty("arr", None, elem=self.pick_int_ty(), n=n, size=size)
        return self.pick_int_ty()

    def ty_text(self, ty):
        if ty.kind == "arr":
            return f"[{rx(ty.size)}]{self.ty_text(ty.elem)}"
        return ty.text

    # ---- value generation
    def gen_value(self, ty, ctx, d):
        r = self.rng
        if ty.kind == "i64":
            return self.small(ctx, d)
        if ty.kind == "int":
            return ("cast", ty.text, ("mod", self.gen_int(ctx, d), 251))
        if ty.kind == "arr":
            return ("mkA", self.ty_text(ty.elem), [self.gen_value(ty.elem, ctx, min(d, 1)) for _ in range(ty.n)])
        if ty.kind == "struct":
            vs = [n for n, t in ctx.vars if t.kind == "struct" and t.ref == ty.ref]
            if vs and r.chance(1, 2):
                return ("var", r.pick(vs))
            fs = [n for n in ctx.callees if self.fns[n].ret.kind == "struct" and self.fns[n].ret.ref == ty.ref and not self.fns[n].ct]
            if fs and ctx.calls_left > 0 and r.chance(1, 2):
                return self.gen_call(r.pick(fs), ctx, d - 1)
            cs = [n for n, t in self.cstructs if t.ref == ty.ref]
            if cs and r.chance(1, 3):
                return ("g", r.pick(cs), False)
            return ("mkS", ty.text, [(f, self.gen_value(ft, ctx, d - 1)) for f, ft in self.structs[ty.ref]])
        if ty.kind == "enum":
            vs = [n for n, t in ctx.vars if t.kind == "enum" and t.ref == ty.ref]
            if vs and r.chance(1, 2):
                return ("var", r.pick(vs))
            fs = [n for n in ctx.callees if self.fns[n].ret.kind == "enum" and self.fns[n].ret.ref == ty.ref and not self.fns[n].ct]
            if fs and ctx.calls_left > 0 and r.chance(1, 2):
                return self.gen_call(r.pick(fs), ctx, d - 1)
            return self.mk_enum(ty, r.pick(self.enums[ty.ref]), ctx, d)
        raise ValueError(ty.kind)

    def mk_enum(self, ty, variant, ctx, d):
        vn, pt, _ = variant
        return ("mkE", ty.text, vn, None if pt is None else self.gen_value(pt, ctx, d - 1), ty.ref)

    def small(self, ctx, d):
        return ("mod", self.gen_int(ctx, d), self.rng.pick(MODS))

    def gen_call(self, fname, ctx, d):
        f = self.fns[fname]
        ctx.calls_left -= 1
        args = [self.gen_value(t, ctx, max(d, 0)) for _, t in f.params]
        return ("call", fname, args)

    def gen_gcall(self, fname, ctx, d):
        f = self.fns[fname]
        r = self.rng
        ctx.calls_left -= 1
        if f.gkind == "genN":
            n, size = self.pick_size(ct_ok=not ctx.in_generic)
            return ("gcall", fname, [rx(size)], {"n": n}, [self.small(ctx, d)])
        if f.gkind == "genT":
            ty = self.pick_int_ty()
            return ("toi", ("gcall", fname, [ty.text], {}, [("cast", ty.text, ("mod", self.gen_int(ctx, d), 251))]))
        raise ValueError(f.gkind)

    def int_leaves(self, base, ty, out, depth=0):
        """int-valued read expressions below a struct-typed expression"""
        for f, ft in self.structs[ty.ref]:
            e = ("fld", base, f)
            if ft.kind == "i64":
                out.append(e)
            elif ft.kind == "int":
                out.append(("toi", e))
            elif ft.kind == "arr":
                out.append(("len", e))
                for i in range(ft.n):
                    out.append(("idx", e, i) if ft.elem.kind == "i64" else ("toi", ("idx", e, i)))
            elif ft.kind == "struct" and depth < 3:
                self.int_leaves(e, ft, out, depth + 1)
        return out

    def atom(self, ctx, d):
        r = self.rng
        opts = [("lit", 3)]
        ivars = [n for n, t in ctx.vars if t.kind == "i64"]
        if ivars:
            opts.append(("var", 5))
        if self.consts:
            opts.append(("const", 6))
        if self.cints:
            opts.append(("cint", 3))
        svars = [(n, t) for n, t in ctx.vars if t.kind == "struct"]
        if svars:
            opts.append(("leaf", 4))
        if self.cstructs:
            opts.append(("cleaf", 2))
        if self.rec:
            opts.append(("rec", 2))
        if ctx.calls_left > 0 and d > 0:
            if [n for n in ctx.callees if self.fns[n].ret.kind == "i64" and not self.fns[n].ct]:
                opts.append(("call", 12))
            if [n for n in ctx.callees if self.fns[n].gkind in ("genT", "genN")]:
                opts.append(("gcall", 4))
        k = r.weighted(opts)
        if k == "lit":
            return ("lit", r.range(0, 20))
        if k == "var":
            return ("var", r.pick(ivars))
        if k == "const":
            return ("g", r.pick(self.consts)[0], True)
        if k == "cint":
            return ("g", r.pick(self.cints), True)
        if k == "leaf":
            n, t = r.pick(svars)
            ls = self.int_leaves(("var", n), t, [])
            return r.pick(ls) if ls else ("lit", 1)
        if k == "cleaf":
            n, t = r.pick(self.cstructs)
            ls = self.int_leaves(("g", n, False), t, [])
            return r.pick(ls) if ls else ("lit", 2)
        if k == "rec":
            return ("call", r.pick(r.pick(self.rec)), [("lit", r.range(0, 6)), self.small(ctx, 0)])
        if k == "call":
            return self.gen_call(r.pick([n for n in ctx.callees if self.fns[n].ret.kind == "i64" and not self.fns[n].ct]), ctx, d - 1)
        return self.gen_gcall(r.pick([n for n in ctx.callees if self.fns[n].gkind in ("genT", "genN")]), ctx, d - 1)

    def gen_int(self, ctx, d):
        r = self.rng
        if d <= 0 or r.chance(1, 4):
            return self.atom(ctx, d)
        k = r.below(10)
        if k < 6:
            return ("bin", "+", self.gen_int(ctx, d - 1), self.gen_int(ctx, d - 1))
        if k < 8:
            return ("bin", "*", self.gen_int(ctx, d - 1), ("lit", r.range(2, 9)))
        return self.atom(ctx, d)

    # ---- digests: every int below a value, as one int expression (statements go to ctx.stmts)
    def digest(self, var, ty, ctx):
        """var: name of a local holding a struct / enum / int-like value"""
        if ty.kind == "i64":
            return ("var", var)
        if ty.kind == "int":
            return ("toi", ("var", var))
        if ty.kind == "enum":
            return self.digest_enum(("var", var), ty, ctx)
        return self.digest_struct(("var", var), ty, ctx)

    def digest_struct(self, base, ty, ctx):
        terms = []
        for f, ft in self.structs[ty.ref]:
            e = ("fld", base, f)
            if ft.kind == "i64":
                terms.append(e)
            elif ft.kind == "int":
                terms.append(("toi", e))
            elif ft.kind == "arr":
                terms.append(("bin", "*", ("len", e), ("lit", 100)))
                for i in range(ft.n):
                    terms.append(("idx", e, i) if ft.elem.kind == "i64" else ("toi", ("idx", e, i)))
            elif ft.kind == "struct":
                terms.append(self.digest_struct(e, ft, ctx))
            elif ft.kind == "enum":
                terms.append(self.digest_enum(e, ft, ctx))
        out = terms[0]
        for t in terms[1:]:
            out = ("bin", "+", out, t)
        return out

    def digest_enum(self, e, ty, ctx):
        bind = self.local("v")
        arms = []
        for i, (vn, pt, _) in enumerate(self.enums[ty.ref]):
            base = ("lit", 1000 * (i + 1))
            if pt is None:
                arms.append((vn, ("block", [], base)))
            elif pt.kind in ("i64", "int"):
                arms.append((vn, ("block", [], ("bin", "+", base, ("toi", ("var", bind))))))
            else:
                sub = ctx.sub()
                x = self.digest_struct(("var", bind), pt, sub)
                arms.append((vn, ("block", sub.stmts, ("bin", "+", base, x))))
        t = self.local("t")
        ctx.stmts.append(("let", t, "i64", ("sw", e, bind, arms)))
        return ("var", t)

    # ---- global generators
    def gen_alias(self):
        r = self.rng
        name = self.name("T")
        # aliases of other globals are kept to ~1/3 of the aliases: capy cannot use them across files (kf/C20_xfile_alias), and every split layout with one
        # is lost to that finding
        k = r.below(10)
        if k < 1 and self.struct_tys:
            t = r.pick(self.struct_tys)
            self.struct_tys.append(Ty("struct", f"@{{{name}}}", ref=t.ref))
            self.add(name, "alias", f"{name} :: {t.text};")
        elif k < 2 and self.enum_tys:
            t = r.pick(self.enum_tys)
            self.enum_tys.append(Ty("enum", f"@{{{name}}}", ref=t.ref))
            self.add(name, "alias", f"{name} :: {t.text};")
        elif k < 4 and self.int_tys:
            t = r.pick(self.int_tys)
            self.int_tys.append(Ty("int", f"@{{{name}}}", bytes_=t.bytes))
            self.add(name, "alias", f"{name} :: {t.text};")
        else:
            b = r.pick(BUILTIN_INTS)
            self.int_tys.append(Ty("int", f"@{{{name}}}", bytes_=INT_BYTES[b]))
            self.add(name, "alias", f"{name} :: {b};")

    def gen_distinct(self):
        name = self.name("D")
        t = self.pick_int_ty()
        self.int_tys.append(Ty("int", f"@{{{name}}}", bytes_=t.bytes))
        self.add(name, "distinct", f"{name} :: distinct {t.text};")

    def gen_cttype(self):
        r = self.rng
        name = self.name("Y")
        if self.consts:
            c, _ = r.pick(self.consts)
            k = r.range(0, 8)
            a, b = r.sample(["i64", "i32", "u32", "u64"], 2)
            self.add(name, "cttype", f"{name} :: comptime {{ if @{{{c}}} > {k} {{ {a} }} else {{ {b} }} }};")
            chosen = a if self.gval[c] > k else b
        else:
            chosen = r.pick(["i64", "i32", "u32"])
            self.add(name, "cttype", f"{name} :: comptime {{ {chosen} }};")
        self.int_tys.append(Ty("int", f"@{{{name}}}", bytes_=INT_BYTES[chosen]))

    def gen_struct(self):
        r = self.rng
        name = self.name("S")
        fields = [(f"f{i}", self.field_ty()) for i in range(r.range(1, 4))]
        if not any(t.kind in ("i64", "int", "arr") for _, t in fields):
            fields.append((f"f{len(fields)}", I64))
        self.structs[name] = fields
        self.struct_tys.append(Ty("struct", f"@{{{name}}}", ref=name))
        body = ", ".join(f"{f}: {self.ty_text(t)}" for f, t in fields)
        self.add(name, "struct", f"{name} :: struct {{ {body} }};")

    def gen_enum(self):
        r = self.rng
        name = self.name("E")
        nv = r.range(2, 4)
        plain = r.chance(1, 3)
        explicit = r.chance(1, 2)
        u8s = [n for n, s in self.consts if s == "u8"]
        used, variants, parts = set(), [], []
        for i in range(nv):
            vn = "ABCD"[i]
            pt = None
            if not plain and r.chance(2, 3):
                k = r.below(6)
                pt = r.pick(self.struct_tys) if (k < 2 and self.struct_tys) else self.pick_int_ty()
            disc, dtext = None, ""
            if explicit:
                cands = [n for n in u8s if self.gval[n] not in used]
                if cands and r.chance(2, 3):
                    c = r.pick(cands)
                    disc, dtext = self.gval[c], f" | @{{{c}}}"
                else:
                    disc = r.pick([v for v in range(0, 250) if v not in used])
                    dtext = f" | {disc}"
                used.add(disc)
            variants.append((vn, pt, disc))
            parts.append(vn + (f": {pt.text}" if pt is not None else "") + dtext)
        self.enums[name] = variants
        self.enum_tys.append(Ty("enum", f"@{{{name}}}", ref=name))
        self.add(name, "enum", f"{name} :: enum {{ {', '.join(parts)} }};")

    def pure_ctx(self, vars_=(), calls=2):
        return Ctx(vars_, self.plain_callees(True), True, calls)

    def comptime_text(self, ctx, expr):
        if ctx.stmts:
            return "comptime " + rblock(("block", ctx.stmts, expr))
        return f"comptime {{ {rx(expr)} }}"

    def gen_const(self):
        r = self.rng
        sem = r.weighted([("usize", 5), ("u8", 3), ("i64", 3), ("i32", 1)])
        name = self.name("N")
        same = [n for n, s in self.consts if s == sem]
        k = r.below(10)
        ann = {"usize": "usize", "u8": "u8", "i64": "i64", "i32": None}[sem]
        if sem == "usize":
            tus = [t for t in self.int_tys if t.text in self._usize_aliases]
            if tus and r.chance(1, 3):
                ann = r.pick(tus).text
        lo, hi = {"usize": (1, 5), "u8": (0, 250), "i64": (0, 900), "i32": (0, 900)}[sem]
        if sem == "i64" and self.cints and r.chance(1, 2):
            same = same + list(self.cints)      # `N :: K;` where K is a comptime global
        if k < 3 and same:
            ref = r.pick(same)
            val = self.gval[ref]
            # a comptime global made of literals only is an i32: an i64 annotation on a binding to it is not generated (capy accepts it and then reads 8 bytes)
            text = f"{name} :: @{{{ref}}};" if (r.chance(1, 2) or ann is None or ref in self.cints) else f"{name} : {ann} : @{{{ref}}};"
        elif k < 7 and sem != "i32" and (self.consts or self.pure_fns()):
            ctx = self.pure_ctx()
            e = self.gen_int(ctx, 2)
            if sem == "usize":
                e = ("bin", "+", ("mod", e, 5), ("lit", 1))
            elif sem == "u8":
                e = ("mod", e, 251)
            else:
                e = ("mod", e, 1009)
            val = Ev(self, 60000).block(("block", ctx.stmts, e), {})
            # the arithmetic is pinned to i64 first: a cast re-types untyped literal arithmetic below it, so `u8.((20 * 8 * 9) % 251)`
            # is computed in u8 (wraps at 256) while the reference evaluates it with unbounded integers
            text = f"{name} : {ann} : " + self.comptime_text(ctx, ("cast", ann, ("cast", "i64", e))) + ";"
        else:
            val = r.range(lo, hi)
            text = f"{name} : {ann} : {val};" if ann else f"{name} :: {val};"
        self.gval[name] = val
        self.consts.append((name, sem))
        self.add(name, "const", text)

    _usize_aliases = ()

    def gen_usize_alias(self):
        name = self.name("T")
        self.add(name, "alias", f"{name} :: usize;")
        t = Ty("int", f"@{{{name}}}", bytes_=8)
        self._usize_aliases = tuple(self._usize_aliases) + (t.text,)
        # not registered in int_tys for value generation: 64-bit anyway, but keep it out so that `usize` casts stay rare
        self.int_tys.append(t)

    def gen_comptime(self):
        r = self.rng
        name = self.name("K")
        if self.struct_tys and r.chance(1, 4):
            ty = r.pick(self.struct_tys)
            ctx = self.pure_ctx()
            e = self.gen_value(ty, ctx, 2)
            if e[0] == "g":
                e = ("mkS", ty.text, [(f, self.gen_value(ft, ctx, 1)) for f, ft in self.structs[ty.ref]])
            self.gval[name] = Ev(self, 60000).block(("block", ctx.stmts, e), {})
            self.cstructs.append((name, Ty("struct", ty.text, ref=ty.ref)))
            self.add(name, "comptime", f"{name} :: " + self.comptime_text(ctx, e) + ";")
            return
        ctx = self.pure_ctx(calls=3)
        if r.chance(1, 3):
            t = self.local("t")
            ctx.stmts.append(("let", t, "i64", self.small(ctx, 2)))
            ctx.vars.append((t, I64))
        e = self.small(ctx, 2)
        self.gval[name] = Ev(self, 60000).block(("block", ctx.stmts, e), {})
        self.cints.append(name)
        ann = " : i64 : " if r.chance(1, 2) else " :: "
        self.add(name, "comptime", f"{name}{ann}" + self.comptime_text(ctx, e) + ";")

    def fn_text(self, f):
        ps = [f"comptime {n}: {t}" for n, t in f.ct] + [f"{n}: {self.ty_text(t) if isinstance(t, Ty) else t}" for n, t in f.params]
        ret = f.ret if isinstance(f.ret, str) else self.ty_text(f.ret)
        return f"{f.name} :: ({', '.join(ps)}) -> {ret} " + rblock(f.body, indent=4)

    def body_prelude(self, f_params, pure, ctx):
        """common statements: event, digests of aggregate parameters, a few lets"""
        r = self.rng
        if not pure:
            ctx.stmts.append(("ev", self.event(), ("var", f_params[0][0])))
        for n, t in f_params:
            if t.kind in ("struct", "enum") and r.chance(3, 4):
                d = self.digest(n, t, ctx)
                v = self.local("t")
                ctx.stmts.append(("let", v, "i64", ("mod", d, r.pick(MODS))))
                ctx.vars.append((v, I64))
            elif t.kind == "int":
                v = self.local("t")
                ctx.stmts.append(("let", v, "i64", ("toi", ("var", n))))
                ctx.vars.append((v, I64))
        if self.can_ct() and not ctx.in_generic and r.chance(1, 3):
            v = self.inline_ct_array(ctx)
            ctx.vars.append((v, I64))
        for _ in range(r.below(3)):
            v = self.local("t")
            k = r.below(6)
            if k == 0 and self.usize_consts():
                a = self.local("a")
                ctx.stmts.append(("larr", a, ("g", r.pick(self.usize_consts()), False)))
                ctx.stmts.append(("let", v, "i64", ("len", ("var", a))))
            elif k == 1:
                sa, sb = ctx.sub(), ctx.sub()
                xa, xb = self.small(sa, 1), self.small(sb, 1)
                ctx.calls_left = min(sa.calls_left, sb.calls_left)
                ctx.stmts.append(("let", v, "i64", ("if", r.pick(["<", "==", "<=", ">"]), self.atom(ctx, 0), ("lit", r.range(0, 12)),
                                                   ("block", sa.stmts, xa), ("block", sb.stmts, xb))))
            elif k == 2 and self.int_tys:
                t = r.pick(self.int_tys)
                q = self.local("q")
                ctx.stmts.append(("let", q, t.text, self.gen_value(t, ctx, 1)))
                ctx.stmts.append(("let", v, "i64", ("toi", ("var", q))))
            else:
                ctx.stmts.append(("let", v, "i64", self.small(ctx, 2)))
            ctx.vars.append((v, I64))

    def inline_ct_array(self, ctx):
        """`a : [comptime { .. }]i64;` + a store to and a read of the last element + `.len`; -> name of the i64 local holding len * 100 + element"""
        n, size = self.ct_size()
        a, v = self.local("a"), self.local("t")
        ctx.stmts.append(("larr", a, size))
        ctx.stmts.append(("sti", a, n - 1, self.small(ctx, 1)))
        ctx.stmts.append(("let", v, "i64", ("bin", "+", ("bin", "*", ("len", ("var", a)), ("lit", 100)), ("idx", ("var", a), n - 1))))
        return v

    def gen_fn(self):
        r = self.rng
        name = self.name("f")
        pure = r.chance(1, 2)
        params = [(self.local("p"), I64)]
        for _ in range(r.below(3)):
            k = r.below(7)
            if k < 3 and self.struct_tys:
                t = r.pick(self.struct_tys)
            elif k < 4 and self.enum_tys:
                t = r.pick(self.enum_tys)
            elif k < 5 and self.int_tys:
                t = r.pick(self.int_tys)
            else:
                t = I64
            params.append((self.local("p"), t))
        ctx = Ctx(params, self.plain_callees(pure), pure, calls_left=3)
        self.body_prelude(params, pure, ctx)
        k = r.below(10)
        if k < 2 and self.struct_tys:
            ret = r.pick(self.struct_tys)
            e = ("mkS", ret.text, [(f, self.gen_value(ft, ctx, 1)) for f, ft in self.structs[ret.ref]])
        elif k < 3 and self.enum_tys:
            ret = r.pick(self.enum_tys)
            vs = self.enums[ret.ref]
            ev = self.local("e")
            ctx.stmts.append(("let", ev, ret.text, self.mk_enum(ret, vs[0], ctx, 1)))
            for i, v in enumerate(vs[1:]):
                ctx.stmts.append(("ifs", "==", ("mod", ("var", params[0][0]), len(vs)), ("lit", i + 1), [("asg", ev, self.mk_enum(ret, v, ctx, 1))]))
            e = ("var", ev)
        else:
            ret = I64
            e = self.small(ctx, 2)
            for n, t in ctx.vars:
                if t.kind == "i64":
                    e = ("mod", ("bin", "+", e, ("var", n)), r.pick(MODS))
        f = Fn(name, params, ret, ("block", ctx.stmts, e), pure)
        self.fns[name] = f
        self.fn_order.append(name)
        self.add(name, "fn", self.fn_text(f))

    def gen_recfn(self, single=False):
        """a mutually recursive pair (or one self-recursive function) with a bounded depth argument"""
        r = self.rng
        if single:
            na = nb = self.name("r")
        else:
            na, nb = self.name("r"), self.name("r")
        for me, other in (((na, nb),) if single else ((na, nb), (nb, na))):
            params = [("n", I64), ("acc", I64)]
            cb = Ctx([("acc", I64)], self.plain_callees(True), True, 1)
            base = ("mod", ("bin", "+", ("var", "acc"), self.gen_int(cb, 1)), r.pick(MODS))
            cs = Ctx([("acc", I64), ("n", I64)], self.plain_callees(True), True, 1)
            step = ("mod", ("bin", "+", ("bin", "*", ("var", "acc"), ("lit", r.range(2, 5))), self.gen_int(cs, 1)), r.pick(MODS))
            body = ("block", [], ("if", "<=", ("var", "n"), ("lit", 0), ("block", cb.stmts, base),
                                  ("block", cs.stmts, ("call", other, [("bin", "-", ("var", "n"), ("lit", 1)), step]))))
            self.fns[me] = Fn(me, params, I64, body, True)
        for me in ((na,) if single else (na, nb)):
            self.add(me, "recfn", self.fn_text(self.fns[me]))
        self.rec.append((na, nb))

    def gen_generic(self, gkind):
        r = self.rng
        name = self.name("g")
        pure = r.chance(2, 3)
        if gkind == "genN":
            params = [("x", I64)]
            ctx = Ctx(params, self.plain_callees(pure), pure, 2)
            ctx.in_generic = True
            if not pure:
                ctx.stmts.append(("ev", self.event(), ("var", "x")))
            ctx.stmts.append(("larr", "a", ("var", "n")))
            ctx.stmts.append(("let", "l", "i64", ("len", ("var", "a"))))
            ctx.vars.append(("l", I64))
            e = ("mod", ("bin", "+", ("bin", "+", ("bin", "*", ("var", "l"), ("lit", r.range(2, 9))), ("var", "x")), self.gen_int(ctx, 2)), r.pick(MODS))
            f = Fn(name, params, I64, ("block", ctx.stmts, e), pure, ct=[("n", "usize")], gkind="genN")
        elif gkind == "genT":
            params = [("x", "T")]
            ctx = Ctx([], self.plain_callees(pure), pure, 2)
            ctx.in_generic = True
            ctx.stmts.append(("let", "xi", "i64", ("toi", ("var", "x"))))
            ctx.vars.append(("xi", I64))
            if not pure:
                ctx.stmts.append(("ev", self.event(), ("var", "xi")))
            e = ("cast", "T", ("mod", ("bin", "+", ("var", "xi"), self.gen_int(ctx, 2)), 251))
            f = Fn(name, params, "T", ("block", ctx.stmts, e), pure, ct=[("T", "type")], gkind="genT")
        else:
            f = Fn(name, [("x", "T")], "T", ("block", [], ("var", "x")), True, ct=[("T", "type")], gkind="genId")
        f.ret = f.ret if not isinstance(f.ret, str) else Ty("T", f.ret)
        f.params = [(n, t if isinstance(t, Ty) else Ty("T", t)) for n, t in f.params]
        self.fns[name] = f
        self.fn_order.append(name)
        self.add(name, gkind, self.fn_text(f))

    def gen_tygen(self):
        r = self.rng
        name = self.name("V")
        self.add(name, "tygen", f"{name} :: (comptime T: type, comptime n: usize) -> type {{ struct {{ buf: [n]T, len: i64 }} }}")
        self.tygens.append(name)

    def gen_tyinst(self):
        r = self.rng
        g = r.pick(self.tygens)
        name = self.name("W")
        elem = self.pick_int_ty()
        n, size = self.pick_size()
        call = f"@{{{g}}}({elem.text}, {rx(size)})"
        # `comptime V(T, comptime { .. })` without braces ends in an internal error in any order (codegen functions.rs:852 / :724): braces when the size is a block
        self.add(name, "tyinst", f"{name} :: comptime {call};" if (r.chance(1, 2) and size[0] != "ct") else f"{name} :: comptime {{ {call} }};")
        self.structs[name] = [("buf", Ty("arr", None, elem=elem, n=n, size=size)), ("len", I64)]
        self.struct_tys.append(Ty("struct", f"@{{{name}}}", ref=name))

    def gen_fnalias(self):
        r = self.rng
        cands = [n for n in self.fn_order if not self.fns[n].ct and not self.fns[n].alias_of]
        if not cands:
            return self.gen_fn()
        t = r.pick(cands)
        name = self.name("h")
        f0 = self.fns[t]
        self.fns[name] = Fn(name, f0.params, f0.ret, f0.body, f0.pure, alias_of=t)
        self.fn_order.append(name)
        self.add(name, "fnalias", f"{name} :: @{{{t}}};")

    # ---- uses (statements of main or of a wrapper)
    def use_global(self, g, ctx):
        """statements that observe global g through events"""
        r = self.rng
        k = self.kind[g]
        S = ctx.stmts
        ph = f"@{{{g}}}"
        if k in ("alias", "distinct", "cttype", "struct", "enum", "tyinst"):
            ty = next((t for t in self.int_tys + self.struct_tys + self.enum_tys if t.text == ph), None)
            if ty is None:
                return
            if ty.kind == "enum":
                vs = self.enums[ty.ref]
                for v in (vs if len(vs) <= 3 else r.sample(vs, 3)):
                    e = self.local("e")
                    S.append(("let", e, ty.text, self.mk_enum(ty, v, ctx, 1)))
                    S.append(("ev", self.event(), self.digest(e, ty, ctx)))
                    if all(p is None or p.kind in ("i64", "int") for _, p, _ in vs):
                        # README: the discriminant is a u8 that comes after the payload
                        S.append(("evb", self.event(), e, max([0] + [p.bytes for _, p, _ in vs if p is not None]) + 1))
                return
            if ty.kind == "struct" and g in self.structs and r.chance(1, 3):
                # default-initialised local (only when no enum is inside: enums have no default value)
                if self.defaultable(ty):
                    q = self.local("z")
                    S.append(("let", q, ty.text, None, self.default(ty)))
                    S.append(("ev", self.event(), self.digest(q, ty, ctx)))
            q = self.local("q")
            e = self.gen_value(ty, ctx, 2)
            if e[0] in ("var", "g"):
                e = ("mkS", ty.text, [(f, self.gen_value(ft, ctx, 1)) for f, ft in self.structs[ty.ref]]) if ty.kind == "struct" else e
            S.append(("let", q, ty.text if (r.chance(2, 3) or ty.kind == "int") else None, e))
            S.append(("ev", self.event(), self.digest(q, ty, ctx)))
        elif k == "const":
            S.append(("ev", self.event(), ("g", g, True)))
            if (g, "usize") in self.consts:
                a = self.local("a")
                S.append(("larr", a, ("g", g, False)))
                S.append(("ev", self.event(), ("len", ("var", a))))
        elif k == "comptime":
            if g in self.cints:
                S.append(("ev", self.event(), ("g", g, True)))
            else:
                ty = dict(self.cstructs)[g]
                q = self.local("q")
                S.append(("let", q, None, ("g", g, False)))
                S.append(("ev", self.event(), self.digest(q, ty, ctx)))
        elif k in ("fn", "fnalias"):
            f = self.fns[g]
            ctx.calls_left = 3
            e = self.gen_call(g, ctx, 1)
            self.observe(e, f.ret, ctx)
        elif k == "recfn":
            S.append(("ev", self.event(), ("call", g, [("lit", r.range(0, 6)), ("lit", r.range(0, 200))])))
        elif k in ("genT", "genN"):
            for _ in range(r.range(1, 2)):
                ctx.calls_left = 3
                S.append(("ev", self.event(), self.gen_gcall(g, ctx, 1)))
        elif k == "genId":
            tys = [I64] + self.int_tys[:3] + self.struct_tys[:3] + self.enum_tys[:2]
            ty = r.pick(tys)
            q = self.local("q")
            ctx.calls_left = 2
            S.append(("let", q, None, ("gcall", g, [ty.text], {}, [self.gen_value(ty, ctx, 1)])))
            S.append(("ev", self.event(), self.digest(q, ty, ctx)))
        elif k == "tygen":
            elem = self.pick_int_ty()
            n, size = self.pick_size()
            z = self.local("z")
            arr = Ty("arr", None, elem=elem, n=n, size=size)
            call = f"{ph}({elem.text}, {rx(size)})"
            S.append(("let", z, f"comptime {{ {call} }}" if (size[0] == "ct" or r.chance(1, 3)) else f"comptime {call}", None, {"buf": [0] * n, "len": 0}))
            S.append(("ev", self.event(), ("bin", "+", ("len", ("fld", ("var", z), "buf")), ("fld", ("var", z), "len"))))

    def observe(self, e, ty, ctx):
        if ty.kind == "i64":
            ctx.stmts.append(("ev", self.event(), e))
        else:
            q = self.local("q")
            ctx.stmts.append(("let", q, None, e))
            ctx.stmts.append(("ev", self.event(), self.digest(q, ty, ctx)))

    def defaultable(self, ty):
        for _, ft in self.structs[ty.ref]:
            if ft.kind == "enum" or (ft.kind == "struct" and not self.defaultable(ft)):
                return False
        return True

    def default(self, ty):
        out = {}
        for f, ft in self.structs[ty.ref]:
            out[f] = [0] * ft.n if ft.kind == "arr" else self.default(ft) if ft.kind == "struct" else 0
        return out

    rec = ()

    # ---- whole program
    def generate(self):
        r = self.rng
        self.rec = []
        n = r.range(3, 12)
        if r.chance(1, 4):
            self.gen_usize_alias()
        while len(self.order) < n:
            k = r.weighted(KIND_WEIGHTS)
            if k == "struct":
                self.gen_struct()
            elif k == "enum":
                self.gen_enum()
            elif k == "alias":
                self.gen_alias()
            elif k == "distinct":
                self.gen_distinct()
            elif k == "cttype":
                self.gen_cttype()
            elif k == "const":
                self.gen_const()
            elif k == "comptime":
                self.gen_comptime()
            elif k == "fn":
                self.gen_fn()
            elif k == "recfn":
                if r.chance(1, 3):
                    self.gen_recfn(single=True)
                elif len(self.order) + 2 <= n:
                    self.gen_recfn()
            elif k in ("genT", "genN", "genId"):
                self.gen_generic(k)
            elif k == "tygen":
                if len(self.order) + 2 <= n:
                    self.gen_tygen()
                    self.gen_tyinst()
                elif self.tygens:
                    self.gen_tyinst()
            elif k == "fnalias":
                self.gen_fnalias()
        # main: every global nobody refers to is used here, plus some more
        used = set()
        for g in self.order:
            used |= self.deps(g)
        ctx = Ctx([], list(self.fn_order), False, 3)
        todo = [g for g in self.order if g not in used]
        rest = [g for g in self.order if g in used]
        todo += r.sample(rest, min(len(rest), r.range(1, 3)))
        r.shuffle(todo)
        for g in todo:
            self.use_global(g, ctx)
        for _ in range(r.range(1, 3)):
            ctx.calls_left = 3
            ctx.stmts.append(("ev", self.event(), self.small(ctx, 2)))
        if self.can_ct():
            for _ in range(r.range(1, 2)):
                ctx.calls_left = 2
                ctx.stmts.append(("ev", self.event(), ("var", self.inline_ct_array(ctx))))
            gs = [n for n in self.fn_order if self.fns[n].gkind == "genN"]
            if gs and r.chance(1, 2):       # an inline comptime block as the comptime argument of a generic
                n, size = self.ct_size()
                ctx.stmts.append(("ev", self.event(), ("gcall", r.pick(gs), [rx(size)], {"n": n}, [self.small(ctx, 1)])))
        ctx.calls_left = 1
        ret = ("cast", "i32", ("mod", self.gen_int(ctx, 1), 97))
        body = ("block", ctx.stmts, ret)
        self.main_body = body
        self.add("main", "main", "main :: () -> i32 " + rblock(body, indent=4))
        ev = Ev(self)
        rc = ev.block(body, {})
        self.expected_log, self.expected_rc = ev.log, rc
        return self

    def shape(self):
        """(kind multiset, dependency shape) of the program"""
        kinds = tuple(sorted(self.kind[g] for g in self.order))
        edges = tuple(sorted((self.kind[g], self.kind[d]) for g in self.order for d in self.deps(g)))
        return kinds, edges


def generate(rng):
    """-> Prog (retries when the reference evaluation leaves its budget)"""
    for _ in range(50):
        try:
            return Prog(rng).generate()
        except Regen:
            continue
    raise RuntimeError("generator cannot produce a program")


# --------------------------------------------------------------------------- layouts

def render_file(defs_text, here, where):
    """defs_text: list of definition texts (placeholders); here: this file's index; where: name -> file index"""
    def sub(m):
        n = m.group(1)
        w = where[n]
        return n if w == here else f"m{w}.{n}"
    return "\n".join(PH.sub(sub, t) for t in defs_text) + "\n"
