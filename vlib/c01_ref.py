"""C01 reference interpreter: the meaning of a generated program (typed AST of c01_gen), written from the
language reference (/repo/README.md) and the statement of C08 for integer arithmetic - never from capy's code.

Model: integers are python ints kept in the range of their type (wrap-around on + - *, casts by value modulo
2^width, so the source signedness decides sign-/zero-extension); aggregates have VALUE semantics (copied on
binding, assignment, argument passing, return, construction); pointers are references to cells (local slot,
field, element); slices reference the cells of an array; defers run LIFO when their block is left (normally or
by break/continue/return/.try); the language-defined runtime faults (index out of range, #unwrap of the wrong
variant) stop the program. Anything the language does not define (division by zero, MIN / -1, oversized shift,
float->int out of range) raises Undefined: such a program is discarded by the generator, never judged.
"""
import struct as _struct

INT_INFO = {
    "i8": (8, True), "i16": (16, True), "i32": (32, True), "i64": (64, True), "i128": (128, True), "isize": (64, True),
    "u8": (8, False), "u16": (16, False), "u32": (32, False), "u64": (64, False), "u128": (128, False), "usize": (64, False),
}


class Fault(Exception):
    def __init__(self, cls):
        Exception.__init__(self, cls)
        self.cls = cls


class Undefined(Exception):
    pass


class _Break(Exception):
    def __init__(self, label, value):
        self.label, self.value = label, value


class _Continue(Exception):
    def __init__(self, label):
        self.label = label


class _Return(Exception):
    def __init__(self, value):
        self.value = value


class Cell:
    __slots__ = ("v",)

    def __init__(self, v):
        self.v = v


class Arr:
    __slots__ = ("cells",)

    def __init__(self, cells):
        self.cells = cells


class Str:
    __slots__ = ("cells",)

    def __init__(self, cells):
        self.cells = cells      # dict field -> Cell


class Sum:
    __slots__ = ("tag", "payload")

    def __init__(self, tag, payload):
        self.tag, self.payload = tag, payload


class Ptr:
    __slots__ = ("cell",)

    def __init__(self, cell):
        self.cell = cell


class Slc:
    __slots__ = ("arr",)

    def __init__(self, arr):
        self.arr = arr


class Fn:
    __slots__ = ("fdef",)

    def __init__(self, fdef):
        self.fdef = fdef


def copyv(v):
    if isinstance(v, Arr):
        return Arr([Cell(copyv(c.v)) for c in v.cells])
    if isinstance(v, Str):
        return Str({k: Cell(copyv(c.v)) for k, c in v.cells.items()})
    if isinstance(v, Sum):
        return Sum(v.tag, copyv(v.payload))
    return v


def store(cell, v):
    """assignment: the old object keeps its identity (pointers into it stay valid), contents are replaced by a copy"""
    _store(cell, copyv(v))


def _store(cell, v):
    old = cell.v
    if isinstance(v, Arr) and isinstance(old, Arr) and len(old.cells) == len(v.cells):
        for c, n in zip(old.cells, v.cells):
            _store(c, n.v)
    elif isinstance(v, Str) and isinstance(old, Str):
        for k, c in old.cells.items():
            _store(c, v.cells[k].v)
    else:
        cell.v = v


def equal(a, b):
    if isinstance(a, Arr):
        return len(a.cells) == len(b.cells) and all(equal(x.v, y.v) for x, y in zip(a.cells, b.cells))
    if isinstance(a, Str):
        return all(equal(c.v, b.cells[k].v) for k, c in a.cells.items())
    if isinstance(a, Sum):
        return a.tag == b.tag and (a.payload is None or equal(a.payload, b.payload))
    return a == b


def wrap(bits, signed, v):
    v &= (1 << bits) - 1
    if signed and v >> (bits - 1):
        v -= 1 << bits
    return v


def f32round(x):
    try:
        return _struct.unpack("<f", _struct.pack("<f", x))[0]
    except OverflowError:
        return float("inf") if x > 0 else float("-inf")


class Interp:
    def __init__(self, prog, max_steps=300000, max_events=3000):
        self.p = prog
        self.steps = 0
        self.max_steps, self.max_events = max_steps, max_events
        self.log = []
        self.globals = {}
        self.depth = 0
        self.stats = {}

    # ------------------------------------------------------------------ types
    def base(self, ty):
        while ty[0] == "distinct":
            ty = self.p.distincts[ty[1]]
        return ty

    def int_info(self, ty):
        ty = self.base(ty)
        if ty[0] == "variant":
            ty = self.base(self.p.variant_payload(ty))
        return INT_INFO[ty[1]]

    def fields_of(self, ty):
        ty = self.base(ty)
        if ty[0] == "struct":
            return self.p.structs[ty[1]]
        if ty[0] == "variant":
            return self.fields_of(self.p.variant_payload(ty))
        raise AssertionError(ty)

    def default(self, ty):
        t = self.base(ty)
        k = t[0]
        if k == "int" or k == "char":
            return 0
        if k == "bool":
            return False
        if k == "float":
            return 0.0
        if k == "array":
            return Arr([Cell(self.default(t[1])) for _ in range(t[2])])
        if k == "struct":
            return Str({f: Cell(self.default(ft)) for f, ft in self.p.structs[t[1]]})
        if k == "opt":
            return Sum("nil", None)
        raise Undefined("no default for " + str(ty))

    # ------------------------------------------------------------------ running
    def tick(self):
        self.steps += 1
        if self.steps > self.max_steps:
            raise Undefined("step budget")

    def emit(self, tag, ident, val):
        if len(self.log) >= self.max_events:
            raise Undefined("event budget")
        self.log.append((tag, ident, val))

    def run(self):
        """-> (log, exit status, fault class or None)"""
        for name, ty, lit in self.p.consts:
            self.globals[name] = Cell(self.eval(lit, None))
        for f in self.p.funcs:
            self.globals[f.name] = Cell(Fn(f))
        main = self.p.main
        try:
            v = self.call(Fn(main), [])
        except Fault as f:
            return self.log, 1, f.cls
        if main.ret[0] == "void":
            return self.log, 0, None
        bits, signed = self.int_info(main.ret)
        return self.log, wrap(bits, signed, v) % 256, None

    def call(self, fn, argvals):
        """argvals: one entry per parameter (a list of values for a varargs parameter)"""
        self.tick()
        self.depth += 1
        if self.depth > 60:
            raise Undefined("call depth")
        fd = fn.fdef
        frame = {}
        for (pname, pty, va), av in zip(fd.params, argvals):
            if va:
                if len(av) >= 2 and isinstance(av[0], (Sum, Str)):
                    self.stats["varargs_aggregate_elems_ge2"] = self.stats.get("varargs_aggregate_elems_ge2", 0) + 1
                frame[pname] = Cell(Slc(Arr([Cell(copyv(x)) for x in av])))
            else:
                frame[pname] = Cell(copyv(av))
        env = [frame]
        try:
            v = self.exec_block(fd.body, env, fresh=False)
        except _Return as r:
            v = r.value
        except (_Break, _Continue):
            raise Undefined("jump escaped a function")
        finally:
            self.depth -= 1
        return copyv(v)

    def lookup(self, name, env):
        if env is not None:
            for fr in reversed(env):
                c = fr.get(name)
                if c is not None:
                    return c
        c = self.globals.get(name)
        if c is None:
            raise Undefined("unbound name " + name)
        return c

    # ------------------------------------------------------------------ blocks and statements
    def exec_block(self, b, env, fresh=True):
        """runs the statements, evaluates the tail, then the defers (LIFO); a labeled block catches its break"""
        if fresh:
            env.append({})
        defers = []
        try:
            try:
                for s in b.stmts:
                    self.exec_stmt(s, env, defers)
                v = self.eval(b.tail, env) if b.tail is not None else None
                if v is not None:
                    v = copyv(v)
            except (_Break, _Continue, _Return):
                self.run_defers(defers, env)
                raise
            self.run_defers(defers, env)
            return v
        except _Break as br:
            if b.label is not None and br.label == b.label:
                return br.value
            if b.label is not None and br.label is None:
                # an unlabeled break directly inside a labeled block: the generator never relies on this
                raise Undefined("unlabeled break inside a labeled block")
            raise
        finally:
            if fresh:
                env.pop()

    def run_defers(self, defers, env):
        while defers:
            s = defers.pop()
            self.exec_stmt(s, env, None)

    def exec_stmt(self, s, env, defers):
        self.tick()
        k = s.k
        if k == "decl":
            if s.init is None:
                v = self.default(s.ty)
            else:
                v = copyv(self.eval(s.init, env))
            env[-1][s.name] = Cell(v)
        elif k == "assign":
            v = self.eval(s.e, env)
            cell = self.place(s.place, env)
            if s.op != "=":
                v = self.binop(s.op[:-1], s.place.ty, cell.v, v)
            store(cell, v)
        elif k == "expr":
            self.eval(s.e, env)
        elif k == "print":
            self.do_print(s.id, s.e.ty, self.eval(s.e, env))
        elif k == "ev":
            self.emit("E", s.id, "")
        elif k == "if":
            if self.eval(s.cond, env):
                self.exec_block(s.then, env)
            elif s.els is not None:
                if getattr(s.els, "k", None) == "if":
                    self.exec_stmt(s.els, env, defers)
                else:
                    self.exec_block(s.els, env)
        elif k == "while" or k == "loop":
            while True:
                self.tick()
                if k == "while" and not self.eval(s.cond, env):
                    break
                try:
                    self.exec_block(s.body, env)
                except _Break as br:
                    if br.label is None or br.label == s.label:
                        break
                    raise
                except _Continue as c:
                    if c.label is None or c.label == s.label:
                        continue
                    raise
        elif k == "block":
            self.exec_block(s.block, env)
        elif k == "break":
            v = copyv(self.eval(s.value, env)) if s.value is not None else None
            raise _Break(s.label, v)
        elif k == "continue":
            raise _Continue(s.label)
        elif k == "return":
            v = copyv(self.eval(s.value, env)) if s.value is not None else None
            raise _Return(v)
        elif k == "defer":
            defers.append(s.stmt)
        else:
            raise AssertionError("statement " + k)

    def do_print(self, ident, ty, v):
        t = self.base(ty)
        if t[0] == "int":
            bits, signed = INT_INFO[t[1]]
            if bits == 128:
                self.emit("H", ident, "%032x" % (v & ((1 << 128) - 1)))
            elif signed:
                self.emit("I", ident, str(v))
            else:
                self.emit("U", ident, str(v))
        elif t[0] == "bool":
            self.emit("B", ident, "1" if v else "0")
        elif t[0] == "char":
            self.emit("U", ident, str(v))
        elif t[0] == "float":
            if t[1] == 64:
                self.emit("D", ident, "%016x" % _struct.unpack("<Q", _struct.pack("<d", v))[0])
            else:
                self.emit("F", ident, "%08x" % _struct.unpack("<I", _struct.pack("<f", v))[0])
        else:
            raise AssertionError("cannot print " + str(ty))

    # ------------------------------------------------------------------ places
    def container(self, e, env):
        """the live aggregate object designated by e (through a pointer if e is one)"""
        v = self.eval(e, env)
        if isinstance(v, Ptr):
            v = v.cell.v
        return v

    def place(self, e, env):
        k = e.k
        if k == "var":
            return self.lookup(e.name, env)
        if k == "field":
            return self.container(e.base, env).cells[e.name]
        if k == "index":
            c = self.container(e.base, env)
            i = self.eval(e.idx, env)
            if isinstance(c, Slc):
                if i < 0 or i >= len(c.arr.cells):
                    raise Fault("index")
                return c.arr.cells[i]
            if i < 0 or i >= len(c.cells):
                raise Fault("index")
            return c.cells[i]
        if k == "deref":
            return self.eval(e.e, env).cell
        raise AssertionError("not a place: " + k)

    # ------------------------------------------------------------------ expressions
    def eval(self, e, env):
        k = e.k
        if k == "lit":
            return e.val
        if k == "var":
            return self.lookup(e.name, env).v
        if k in ("field", "index", "deref"):
            return self.place(e, env).v
        if k == "bin":
            op = e.op
            if op == "&&":
                return bool(self.eval(e.a, env)) and bool(self.eval(e.b, env))
            if op == "||":
                return bool(self.eval(e.a, env)) or bool(self.eval(e.b, env))
            a = self.eval(e.a, env)
            b = self.eval(e.b, env)
            return self.binop(op, e.a.ty, a, b)
        if k == "un":
            v = self.eval(e.e, env)
            t = self.base(e.ty)
            if e.op == "!":
                return not v
            if t[0] == "float":
                if e.op == "-":
                    return -v
                raise AssertionError(e.op)
            bits, signed = self.int_info(t)
            if e.op == "-":
                return wrap(bits, signed, -v)
            if e.op == "~":
                return wrap(bits, signed, ~v)
            raise AssertionError(e.op)
        if k == "cast":
            return self.cast(e.e.ty, e.ty, self.eval(e.e, env))
        if k == "call":
            fn = self.eval(e.fn, env)
            argvals = []
            for g in e.groups:
                if isinstance(g, list):
                    argvals.append([self.eval(x, env) for x in g])
                else:
                    argvals.append(self.eval(g, env))
            return self.call(fn, argvals)
        if k == "addr":
            return Ptr(self.place(e.place, env))
        if k == "len":
            v = self.container(e.e, env)
            return len(v.arr.cells) if isinstance(v, Slc) else len(v.cells)
        if k == "ife":
            if self.eval(e.cond, env):
                return self.exec_block(e.then, env)
            return self.exec_block(e.els, env)
        if k == "blocke":
            return self.exec_block(e.block, env)
        if k == "switch":
            return self.switch(e, env)
        if k == "arrlit":
            return Arr([Cell(copyv(self.eval(x, env))) for x in e.elems])
        if k == "structlit":
            return Str({f: Cell(copyv(self.eval(x, env))) for f, x in e.fields})
        if k == "variantlit":
            if e.payload is None:
                return Sum(e.vname, None)
            if isinstance(e.payload, list):
                return Sum(e.vname, Str({f: Cell(copyv(self.eval(x, env))) for f, x in e.payload}))
            return Sum(e.vname, copyv(self.eval(e.payload, env)))
        if k == "nil":
            return Sum("nil", None)
        if k == "wrap":
            v = self.eval(e.e, env)
            if e.how == "some":
                return Sum("some", copyv(v))
            if e.how == "ok":
                return Sum("ok", copyv(v))
            if e.how == "err":
                return Sum("err", copyv(v))
            if e.how == "v2e":
                return v
            if e.how == "a2s":
                return Slc(v)
            raise AssertionError(e.how)
        if k == "unwrap":
            v = self.eval(e.e, env)
            if v.tag != self.tag_of(e.e.ty, e.target):
                raise Fault("unwrap")
            return v.payload
        if k == "isvar":
            v = self.eval(e.e, env)
            return v.tag == self.tag_of(e.e.ty, e.target)
        if k == "try":
            v = self.eval(e.e, env)
            if v.tag == "nil":
                raise _Return(Sum("nil", None))
            if v.tag == "err":
                # the error is returned; a function whose result is ?E receives it as a present value (README: `.try`
                # is `switch .. { E => { return inner; } }`, and `return inner` converts E to ?E)
                if getattr(e, "into", "err") == "opt":
                    self.stats["try_err_into_opt_taken"] = self.stats.get("try_err_into_opt_taken", 0) + 1
                    raise _Return(Sum("some", copyv(v.payload)))
                self.stats["try_err_taken"] = self.stats.get("try_err_taken", 0) + 1
                raise _Return(Sum("err", copyv(v.payload)))
            return v.payload
        if k == "lambda":
            return Fn(e)
        if k == "opaque":
            return wrap(64, True, self.eval(e.e, env))
        raise AssertionError("expression " + k)

    def tag_of(self, sumty, target):
        t = self.base(sumty)
        if target[0] == "variant":
            return target[1]
        if target[0] == "nil":
            return "nil"
        if t[0] == "opt":
            return "some"
        if t[0] == "err":
            return "ok" if target[1] == t[2] else "err"
        raise AssertionError((sumty, target))

    def switch(self, e, env):
        v = self.eval(e.scrut, env)
        t = self.base(e.scrut.ty)
        for pat, blk in e.arms:
            if v.tag == self.tag_of(t, pat):
                env.append({e.bind: Cell(copyv(v.payload))})
                try:
                    return self.exec_block(blk, env)
                finally:
                    env.pop()
        if e.default is None:
            raise Undefined("switch without matching arm")
        env.append({e.bind: Cell(copyv(v))})
        try:
            return self.exec_block(e.default, env)
        finally:
            env.pop()

    def binop(self, op, ty, a, b):
        t = self.base(ty)
        if op in ("==", "!="):
            r = equal(a, b)
            if isinstance(a, Str):
                k_ = "struct_eq_equal" if r else "struct_eq_differ"
                self.stats[k_] = self.stats.get(k_, 0) + 1
            return r if op == "==" else not r
        if op in ("<", "<=", ">", ">="):
            return {"<": a < b, "<=": a <= b, ">": a > b, ">=": a >= b}[op]
        if t[0] == "bool":
            if op == "&":
                return bool(a) and bool(b)
            if op == "|":
                return bool(a) or bool(b)
            raise AssertionError(op)
        if t[0] == "float":
            r = {"+": a + b, "-": a - b, "*": a * b}[op]
            r = f32round(r) if t[1] == 32 else r
            if r != r or r in (float("inf"), float("-inf")):
                raise Undefined("float overflow / NaN (outside the fragment)")
            return r
        bits, signed = self.int_info(t)
        if op == "+":
            return wrap(bits, signed, a + b)
        if op == "-":
            return wrap(bits, signed, a - b)
        if op == "*":
            return wrap(bits, signed, a * b)
        if op in ("/", "%"):
            if b == 0:
                raise Undefined("division by zero")
            if signed and b == -1 and a == -(1 << (bits - 1)):
                raise Undefined("MIN / -1")
            q = abs(a) // abs(b)
            if (a < 0) != (b < 0):
                q = -q
            return wrap(bits, signed, q if op == "/" else a - q * b)
        if op == "&":
            return wrap(bits, signed, a & b)
        if op == "|":
            return wrap(bits, signed, a | b)
        if op == "~":
            return wrap(bits, signed, a ^ b)
        if op == "<<":
            if b < 0 or b >= bits:
                raise Undefined("shift amount")
            return wrap(bits, signed, a << b)
        if op == ">>":
            if b < 0 or b >= bits:
                raise Undefined("shift amount")
            return wrap(bits, signed, a >> b)
        raise AssertionError(op)

    def cast(self, src, dst, v):
        s, d = self.base(src), self.base(dst)
        if s[0] == "variant":
            s = self.base(self.p.variant_payload(s))
        if d[0] == "int":
            bits, signed = INT_INFO[d[1]]
            if s[0] == "int" or s[0] == "char":
                return wrap(bits, signed, v)
            if s[0] == "bool":
                return 1 if v else 0
            if s[0] == "float":
                if v != v or v in (float("inf"), float("-inf")):
                    raise Undefined("float->int of a non-finite value")
                i = int(v)
                if wrap(bits, signed, i) != i:
                    raise Undefined("float->int out of range")
                return i
        if d[0] == "char":
            if s[0] == "char":
                return v
            if s[0] == "int" and 0 <= v < 128:
                return v
            raise Undefined("char cast of a value outside ASCII")
        if d[0] == "bool" and s[0] == "bool":
            return v
        if d[0] == "float":
            if s[0] == "float":
                r = f32round(v) if d[1] == 32 else v
                if r in (float("inf"), float("-inf")):
                    raise Undefined("float overflow")
                return r
            if s[0] == "int":
                if d[1] == 32 and INT_INFO[s[1]][0] > 32:
                    raise Undefined("wide int -> f32 (double rounding in the model)")
                if INT_INFO[s[1]][0] > 64:
                    raise Undefined("128-bit int -> float")
                f = float(v)
                return f32round(f) if d[1] == 32 else f
        if d[0] == "array" and s[0] == "slice":
            if len(v.arr.cells) != d[2]:
                raise Undefined("slice->array of another length")
            return copyv(v.arr)
        if d == s:
            return v
        raise AssertionError(("cast", src, dst))


def run_program(prog, max_steps=300000, max_events=3000):
    it = Interp(prog, max_steps, max_events)
    log, status, fault = it.run()
    prog.runtime_stats = it.stats
    return log, status, fault, it.steps
