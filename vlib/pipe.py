"""Driver for `probe pipeline` (library-level compilation with hooks on) + helpers to build near-valid inputs."""
import json
import os
import re

from . import common as C

IDENT = re.compile(r"[A-Za-z_][A-Za-z0-9_]*")
KEYWORDS = {"as", "if", "else", "while", "loop", "switch", "in", "distinct", "mut", "extern", "struct", "enum", "comptime", "return", "break",
            "continue", "defer", "try", "catch", "true", "false", "nil"}
TYPES = ["i8", "i16", "i32", "i64", "u8", "u16", "u32", "u64", "f32", "f64", "bool", "str", "char", "usize", "isize"]


def run_pipeline(workdir, main="main.capy", mod_dir=None, order=0, cpu_s=30, obj=None):
    cmd = [C.PROBE, "pipeline", "--main", main, "--moddir", mod_dir or C.REPO, "--order", str(order)]
    if obj:
        cmd += ["--obj", obj]
    r = C.run_proc(cmd, cwd=workdir, cpu_s=cpu_s, mem_gb=6)
    rep = None
    for line in r.out.splitlines():
        if line.startswith("@@REPORT "):
            try:
                rep = json.loads(line[len("@@REPORT "):])
            except ValueError:
                rep = None
    return r, rep


def programs_with_main(texts, limit=None):
    """corpus texts turned into compilable units: snippets without a `main` get an empty one"""
    out = []
    for t in texts:
        if len(t) > 30000:
            continue
        if not re.search(r"^\s*main\s*:", t, re.M):
            t = t.rstrip() + "\nmain :: () {}\n"
        out.append(t)
        if limit and len(out) >= limit:
            break
    return out


def semantic_mutant(rng, text):
    """one small mutation that usually keeps the program parseable but breaks a type / mutability / const / scope rule"""
    kind = rng.below(8)
    idents = [(m.start(), m.end(), m.group(0)) for m in IDENT.finditer(text) if m.group(0) not in KEYWORDS]
    if kind == 0 and idents:
        # use of another identifier of the same file (scope / type breaking)
        a = rng.pick(idents)
        b = rng.pick(idents)
        return text[:a[0]] + b[2] + text[a[1]:], "swap_ident"
    if kind == 1 and ":=" in text:
        pos = [m.start() for m in re.finditer(":=", text)]
        p = rng.pick(pos)
        return text[:p] + "::" + text[p + 2:], "make_immutable"
    if kind == 2:
        cands = [i for i in idents if i[2] in TYPES]
        if cands:
            a = rng.pick(cands)
            return text[:a[0]] + rng.pick(TYPES) + text[a[1]:], "change_type"
    if kind == 3:
        nums = [(m.start(), m.end()) for m in re.finditer(r"\b\d+\b", text)]
        if nums:
            a = rng.pick(nums)
            return text[:a[0]] + rng.pick(['"s"', "true", "3.5", "nil", "99999999999999999999", "'c'"]) + text[a[1]:], "change_literal"
    if kind == 4:
        # delete one top-level definition line
        lines = text.split("\n")
        tops = [i for i, l in enumerate(lines) if re.match(r"^[A-Za-z_]\w*\s*:", l) and not l.startswith("main")]
        if tops:
            i = rng.pick(tops)
            j = i
            depth = lines[i].count("{") - lines[i].count("}")
            while depth > 0 and j + 1 < len(lines):
                j += 1
                depth += lines[j].count("{") - lines[j].count("}")
            return "\n".join(lines[:i] + lines[j + 1:]), "delete_definition"
    if kind == 5 and "^mut" in text:
        return text.replace("^mut", "^", 1), "drop_mut"
    if kind == 6 and idents:
        a = rng.pick(idents)
        return text[:a[0]] + a[2] + "_undefined" + text[a[1]:], "undefined_name"
    if kind == 7:
        ops = [(m.start(), m.end()) for m in re.finditer(r" [-+*/<>] ", text)]
        if ops:
            a = rng.pick(ops)
            return text[:a[0]] + rng.pick([" && ", " == ", " . ", " + ", " % "]) + text[a[1]:], "change_operator"
    if idents:
        a = rng.pick(idents)
        return text[:a[0]] + text[a[1]:], "delete_ident"
    return text + "\nx :: y;", "append"
