"""Compile capy programs with the real release CLI, link them with the verification runtime, run them.

Observation points (process level): CLI exit status / signal / stdout, out/<name>.o, the executable's stdout and exit status.
"""
import os
import re
import shutil

from . import common as C

PANIC_PAT = re.compile(r"panicked at|Cranelift Error|Error defining function|verifier error|internal compiler error|RUST_BACKTRACE|stack overflow|SOMETHING WAS UNSAFE")
ERROR_LINE = re.compile(r"^error", re.M)


class Compile:
    __slots__ = ("rc", "sig", "out", "err", "obj", "timed_out", "cpu_exceeded", "dir", "wall")

    @property
    def accepted(self):
        return self.rc == 0 and self.obj is not None and not self.internal_error

    @property
    def internal_error(self):
        """panic / abort / verifier error / exit 0 without object: never a legitimate outcome"""
        if self.sig:
            return True
        if self.rc == 101:
            return True
        if PANIC_PAT.search(self.out) or PANIC_PAT.search(self.err):
            return True
        if self.rc == 0 and self.obj is None:
            return True
        return False

    @property
    def rejected(self):
        """exit 1 with at least one error line and no internal error"""
        return self.rc == 1 and not self.internal_error and bool(ERROR_LINE.search(self.out))

    def panic_sig(self):
        """call-site signature of an internal error: source file + message with the variable parts removed"""
        t = self.out + "\n" + self.err
        m = re.search(r"panicked at ([^\s:]+):\d+:\d+:\n(.*)", t)
        if m:
            msg = re.sub(r"`[^`]*`", "`_`", m.group(2))
            msg = re.sub(r"#?\d+", "N", msg)
            msg = re.sub(r"^\S+::\S+ N : ", "", msg)
            # first frame of the backtrace that belongs to the compiler: the function that panicked
            fn = ""
            for fm in re.finditer(r"^\s*\d+: (.+)$", t, re.M):
                name = fm.group(1).strip()
                if name.startswith(("__rustc", "core::", "std::", "rust_begin_unwind", "<core::", "<std::", "alloc::", "<alloc::")):
                    continue
                fn = re.sub(r"::\{\{closure\}\}|::h[0-9a-f]{16}", "", name)
                break
            path = m.group(1)
            path = path[path.index("crates/"):] if "crates/" in path else path.split("/")[-1]
            return f"panic|{path}|{fn}|{msg[:100]}"
        if self.sig:
            return f"signal|{self.sig}"
        m = re.search(r"(Cranelift Error|Error defining function|verifier error)[^\n]*(\n[^\n]*)?", t)
        if m:
            msg = re.sub(r"\bv\d+", "vN", m.group(0).replace("\n", " "))
            return "internal|" + re.sub(r"\d+", "N", msg)[:160]
        if self.rc == 0 and self.obj is None:
            return "exit0_without_object"
        return f"rc{self.rc}"

    def diag_kinds(self):
        return re.findall(r"^error(?:\[[A-Z0-9]+\])?: (.*)$", self.out, re.M)

    def brief(self):
        t = (self.out + "\n" + self.err).strip().splitlines()
        keep = [l for l in t if not l.startswith(("Compiling", "Finalizing", "Finished"))]
        return "\n".join(keep[:25])


def write_files(d, files):
    for name, text in files.items():
        p = os.path.join(d, name)
        os.makedirs(os.path.dirname(p), exist_ok=True)
        with open(p, "w", encoding="utf-8") as fh:
            fh.write(text)


def compile_capy(workdir, files, main="main.capy", mod_dir=None, cpu_s=20, extra=(), cli=None, wrap=(), mem_gb=6, keep_out=False):
    """files: {relative path: text}. The CLI runs with cwd=workdir (fresh), always with --mod-dir.
    wrap: command prefix (e.g. valgrind ...) put in front of the CLI."""
    write_files(workdir, files)
    if not keep_out:
        # keep_out=True: build on top of whatever an earlier build left in out/ (C21: "regardless of previous compilations")
        shutil.rmtree(os.path.join(workdir, "out"), ignore_errors=True)
    cmd = list(wrap) + [cli or C.CLI, "build", main, "--mod-dir", mod_dir or C.REPO, "--no-exec", "--color", "never"] + list(extra)
    r = C.run_proc(cmd, cwd=workdir, cpu_s=cpu_s, mem_gb=mem_gb)
    c = Compile()
    c.rc, c.sig, c.out, c.err = r.rc, r.sig, r.out, r.err
    c.timed_out, c.cpu_exceeded, c.dir, c.wall = r.timed_out, r.cpu_exceeded, workdir, r.wall
    stem = os.path.splitext(os.path.basename(main))[0]
    obj = os.path.join(workdir, "out", stem + ".o")
    c.obj = obj if os.path.exists(obj) else None
    return c


class Run:
    __slots__ = ("rc", "sig", "out", "err", "timed_out", "cpu_exceeded", "link_failed", "link_err")


def link(workdir, obj, extra_objs=(), exe_name="prog"):
    """returns (exe path or None, error text)"""
    exe = os.path.join(workdir, exe_name)
    for flags in (["-no-pie"], []):
        r = C.run_proc(["gcc"] + flags + [obj, C.RT_OBJ] + list(extra_objs) + ["-o", exe, "-lm"], cwd=workdir, cpu_s=60, mem_gb=8)
        if r.rc == 0:
            return exe, ""
    return None, r.err[-800:]


def run_exe(exe, env_extra=None, cpu_s=5, cwd=None):
    env = dict(C.ENV_BASE)
    if env_extra:
        env.update({k: str(v) for k, v in env_extra.items()})
    p = C.run_proc([exe], cwd=cwd or os.path.dirname(exe), cpu_s=cpu_s, mem_gb=4, env=env)
    res = Run()
    res.link_failed, res.link_err = False, ""
    res.rc, res.sig, res.out, res.err = p.rc, p.sig, p.out, p.err
    res.timed_out, res.cpu_exceeded = p.timed_out, p.cpu_exceeded
    return res


def link_and_run(workdir, obj, extra_objs=(), cpu_s=5, exe_name="prog", valgrind=False):
    exe = os.path.join(workdir, exe_name)
    r = C.run_proc(["gcc", "-no-pie", obj, C.RT_OBJ] + list(extra_objs) + ["-o", exe, "-lm"], cwd=workdir, cpu_s=60, mem_gb=8)
    res = Run()
    res.link_failed = r.rc != 0
    res.link_err = r.err[-800:]
    res.rc = res.sig = None
    res.out = res.err = ""
    res.timed_out = res.cpu_exceeded = False
    if res.link_failed:
        # retry as PIE (cranelift objects are PIC)
        r = C.run_proc(["gcc", obj, C.RT_OBJ] + list(extra_objs) + ["-o", exe, "-lm"], cwd=workdir, cpu_s=60, mem_gb=8)
        res.link_failed = r.rc != 0
        res.link_err = r.err[-800:]
        if res.link_failed:
            return res
    cmd = [exe]
    if valgrind:
        cmd = ["valgrind", "-q", "--error-exitcode=97", "--leak-check=no", exe]
    p = C.run_proc(cmd, cwd=workdir, cpu_s=cpu_s * (40 if valgrind else 1), mem_gb=4 if not valgrind else 16)
    res.rc, res.sig, res.out, res.err = p.rc, p.sig, p.out, p.err
    res.timed_out, res.cpu_exceeded = p.timed_out, p.cpu_exceeded
    return res


def build_and_run(workdir, files, main="main.capy", extra_objs=(), cpu_s=5, mod_dir=None):
    c = compile_capy(workdir, files, main=main, mod_dir=mod_dir)
    if not c.accepted:
        return c, None
    return c, link_and_run(workdir, c.obj, extra_objs=extra_objs, cpu_s=cpu_s)


# the extern declarations generated programs use to print through rt/vr_rt.c
PRELUDE = """vr_ev :: (id: i64) extern;
vr_i64 :: (id: i64, v: i64) extern;
vr_u64 :: (id: i64, v: u64) extern;
vr_hex128 :: (id: i64, lo: u64, hi: u64) extern;
vr_f32bits :: (id: i64, v: f32) extern;
vr_f64bits :: (id: i64, v: f64) extern;
vr_bool :: (id: i64, v: bool) extern;
vr_bytes :: (id: i64, p: rawptr, len: u64) extern;
vr_watch :: (id: i64, p: rawptr, len: u64) extern;
vr_flush :: () extern;
vr_opaque_i64 :: (v: i64) -> i64 extern;
vr_opaque_u64 :: (v: u64) -> u64 extern;
vr_sel :: () -> i64 extern;
vr_arg :: () -> i64 extern;
"""


def parse_log(out):
    """[(tag, id, value-string)] from the runtime's lines; other lines (fault messages) as ('T', None, line)"""
    ev = []
    for line in out.splitlines():
        parts = line.split(" ", 2)
        if len(parts) >= 2 and parts[0] in ("E", "I", "U", "H", "F", "D", "B", "S", "X", "W") and (parts[1].lstrip("-").isdigit()):
            ev.append((parts[0], int(parts[1]), parts[2] if len(parts) > 2 else ""))
        else:
            ev.append(("T", None, line))
    return ev


def pinned_internal_errors(prop, work):
    """Replays the pinned repro programs of this property's known findings that are internal compiler errors
    (entries with "pinned_internal_error": true). Returns violation dicts whose sig matches the finding when the
    program still ends in that internal error (so the check prints KNOWN-FINDING), and notes for repros that no
    longer fail. The generators avoid the feature; the pinned program keeps the finding visible."""
    import json as _json
    out, notes = [], []
    known = C.load_known()
    for f in known.get("findings", []):
        if (f.get("property") != prop and prop not in f.get("properties", [])) or not f.get("pinned_internal_error"):
            continue
        path = os.path.join(C.VERIF, f["repro"])
        text = open(path, encoding="utf-8").read()
        d = os.path.join(work, "pinned_" + f["id"])
        c = compile_capy(d, {"main.capy": text})
        if c.internal_error:
            out.append({"key": "internal_error", "sig": "internal_error|" + c.panic_sig(),
                        "what": f"pinned repro {f['repro']}: internal compiler error", "witness": {"files": {"main.capy": text}}})
        else:
            notes.append(f"pinned repro {f['repro']} of {f['id']} no longer ends in an internal error (accepted={c.accepted})")
    return out, notes


MEMCHECK = ["valgrind", "-q", "--error-exitcode=0", "--leak-check=no", "--undef-value-errors=no", "--num-callers=12"]
MEMCHECK_REPORT = re.compile(r"==\d+== (Invalid (?:read|write|free)[^\n]*|Mismatched free[^\n]*|Source and destination overlap[^\n]*|Jump to the invalid address[^\n]*)((?:\n==\d+==    (?:at|by) [^\n]*)*)")


def memcheck_compile(workdir, files, main="main.capy", mod_dir=None, cpu_s=600):
    """one compilation by the release CLI under valgrind memcheck (addressability errors only).
    returns (Compile, [(kind, signature)]) - signature = kind + the first frames that belong to capy's crates"""
    c = compile_capy(workdir, files, main=main, mod_dir=mod_dir, cpu_s=cpu_s, wrap=MEMCHECK, mem_gb=0)
    reports = []
    for m in MEMCHECK_REPORT.finditer(c.err):
        kind = re.sub(r"\d+", "N", m.group(1))
        frames = re.findall(r"(?:at|by) 0x[0-9A-F]+: (\S+)", m.group(2))
        own = [f for f in frames if re.match(r"(capy|codegen|hir|hir_ty|parser|lexer|ast|syntax|diagnostics|line_index|topo|interner|token)\b|<(codegen|hir|hir_ty)", f)]
        sig = kind + "|" + ">".join(re.sub(r"::h[0-9a-f]{16}", "", f) for f in (own or frames)[:3])
        reports.append((kind, sig))
    return c, reports
