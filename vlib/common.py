"""Shared infrastructure for the capy runtime-monitoring checks.

Everything here is stdlib-only python3. Builds always go from /repo's *current working tree*.
"""
import hashlib
import json
import os
import re
import resource
import shutil
import signal
import subprocess
import sys
import time
from concurrent.futures import ThreadPoolExecutor

VERIF = os.path.dirname(os.path.dirname(os.path.abspath(__file__)))
REPO = os.environ.get("CAPY_REPO", "/repo")
# VERIF_SANDBOX=<dir> (self-test of the machinery only): build output, work dirs, replay and evidence go under <dir> and
# CAPY_REPO names the tree to build, so that a seeded change can be evaluated in a scratch copy without touching
# /repo, /verif/evidence or the builds other runs are using. Registered commands never set it.
OUT = os.environ.get("VERIF_SANDBOX") or VERIF
TARGET = os.path.join(OUT, "target")
WORK = os.path.join(OUT, "work")
CLI = os.path.join(TARGET, "cli", "release", "capy")
PROBE = os.path.join(TARGET, "harness", "release", "probe")
RT_OBJ = os.path.join(TARGET, "rt", "vr_rt.o")
CORPUS = os.path.join(TARGET, "corpus")
NCPU = os.cpu_count() or 4

ENV_BASE = dict(os.environ)
ENV_BASE["CARGO_NET_OFFLINE"] = "true"
ENV_BASE.setdefault("CARGO_TERM_COLOR", "never")


class Inconclusive(Exception):
    """the infrastructure failed; never a violation and never a pass"""


def log(*a):
    print(*a, file=sys.stderr, flush=True)


# --------------------------------------------------------------------------- builds

def _run_build(cmd, cwd, env, what):
    t0 = time.time()
    p = subprocess.run(cmd, cwd=cwd, env=env, stdout=subprocess.PIPE, stderr=subprocess.STDOUT, text=True)
    if p.returncode != 0:
        tail = "\n".join(p.stdout.splitlines()[-40:])
        raise Inconclusive(f"build of {what} failed:\n{tail}")
    log(f"[build] {what}: ok in {time.time() - t0:.1f}s")


def _lock(name):
    import fcntl
    os.makedirs(TARGET, exist_ok=True)
    f = open(os.path.join(TARGET, f".{name}.lock"), "w")
    fcntl.flock(f, fcntl.LOCK_EX)
    return f


def build_cli():
    """release build of the real CLI from /repo's working tree (hooks off: this is what ships)"""
    lk = _lock("cli")
    try:
        env = dict(ENV_BASE)
        env["CARGO_TARGET_DIR"] = os.path.join(TARGET, "cli")
        env.pop("RUSTFLAGS", None)
        _run_build(["cargo", "build", "--release", "-p", "capy", "--offline"], REPO, env, "capy CLI")
    finally:
        lk.close()
    return CLI


def probe_src(refresh=True):
    """the probe crate; in a sandboxed self-test a copy whose path dependencies point at CAPY_REPO"""
    src = os.path.join(VERIF, "harness", "probe")
    if OUT == VERIF and REPO == "/repo":
        return src
    dst = os.path.join(OUT, "harness", "probe")
    if not refresh:
        return dst
    shutil.rmtree(dst, ignore_errors=True)
    shutil.copytree(src, dst)
    toml = open(os.path.join(dst, "Cargo.toml")).read().replace('"/repo/crates/', '"' + REPO.rstrip("/") + '/crates/')
    open(os.path.join(dst, "Cargo.toml"), "w").write(toml)
    return dst


def build_probe(full=True):
    """probe = harness binary linked against /repo/crates/* with --cfg capy_verif"""
    lk = _lock("probe")
    try:
        src = probe_src()
        shutil.copyfile(os.path.join(REPO, "Cargo.lock"), os.path.join(src, "Cargo.lock"))
        env = dict(ENV_BASE)
        env["CARGO_TARGET_DIR"] = os.path.join(TARGET, "harness")
        env["RUSTFLAGS"] = "--cfg capy_verif"
        cmd = ["cargo", "build", "--release", "--offline"]
        if not full:
            cmd.append("--no-default-features")
        _run_build(cmd, src, env, "probe (hooks on)")
    finally:
        lk.close()
    return PROBE


def build_rt():
    lk = _lock("rt")
    try:
        os.makedirs(os.path.dirname(RT_OBJ), exist_ok=True)
        src = os.path.join(VERIF, "rt", "vr_rt.c")
        if (not os.path.exists(RT_OBJ)) or os.path.getmtime(RT_OBJ) < os.path.getmtime(src):
            _run_build(["gcc", "-O1", "-c", src, "-o", RT_OBJ], VERIF, ENV_BASE, "vr_rt.o")
    finally:
        lk.close()
    return RT_OBJ


RAW_STR = re.compile(r'r#"(.*?)"#', re.S)


def build_corpus():
    """collect every capy text in /repo: examples, core, parser fixtures, programs embedded in tests"""
    lk = _lock("corpus")
    try:
        texts = []
        for root in ("examples", "core"):
            for d, _, fs in sorted(os.walk(os.path.join(REPO, root))):
                for f in sorted(fs):
                    if f.endswith(".capy"):
                        texts.append(open(os.path.join(d, f), encoding="utf-8", errors="replace").read())
        fx = os.path.join(REPO, "crates", "parser", "src", "tests")
        for d, _, fs in sorted(os.walk(fx)):
            for f in sorted(fs):
                if f.endswith(".test"):
                    t = open(os.path.join(d, f), encoding="utf-8", errors="replace").read().replace("\r", "")
                    texts.append(t.split("\n===\n")[0])
        for crate in ("hir", "hir_ty", "codegen", "ast"):
            for d, _, fs in sorted(os.walk(os.path.join(REPO, "crates", crate, "src"))):
                for f in sorted(fs):
                    if f.endswith(".rs") and ("test" in f or "tests" in d):
                        src = open(os.path.join(d, f), encoding="utf-8", errors="replace").read()
                        for m in RAW_STR.finditer(src):
                            t = m.group(1)
                            if 3 < len(t) < 20000 and ("::" in t or ":=" in t):
                                texts.append(t)
        seen = set()
        uniq = []
        for t in texts:
            h = hashlib.sha1(t.encode()).hexdigest()
            if h not in seen:
                seen.add(h)
                uniq.append(t)
        stamp = hashlib.sha1("".join(sorted(seen)).encode()).hexdigest()
        stamp_file = os.path.join(CORPUS, ".stamp")
        if os.path.exists(stamp_file) and open(stamp_file).read() == stamp:
            return CORPUS
        shutil.rmtree(CORPUS, ignore_errors=True)
        os.makedirs(CORPUS)
        for i, t in enumerate(uniq):
            with open(os.path.join(CORPUS, f"{i:05d}.capy"), "w", encoding="utf-8") as fh:
                fh.write(t)
        open(stamp_file, "w").write(stamp)
        log(f"[corpus] {len(uniq)} texts")
    finally:
        lk.close()
    return CORPUS


def corpus_texts():
    build_corpus()
    out = []
    for f in sorted(os.listdir(CORPUS)):
        if f.endswith(".capy"):
            out.append(open(os.path.join(CORPUS, f), encoding="utf-8").read())
    return out


# --------------------------------------------------------------------------- PRNG

class Rng:
    """counter-based, reproducible from (seed, stream)"""

    def __init__(self, seed, stream=0):
        self.s = (int(seed) * 0x9E3779B97F4A7C15 + int(stream) * 0xD1B54A32D192ED03 + 0x2545F4914F6CDD1D) & (2**64 - 1)

    def next(self):
        self.s = (self.s + 0x9E3779B97F4A7C15) & (2**64 - 1)
        z = self.s
        z = ((z ^ (z >> 30)) * 0xBF58476D1CE4E5B9) & (2**64 - 1)
        z = ((z ^ (z >> 27)) * 0x94D049BB133111EB) & (2**64 - 1)
        return z ^ (z >> 31)

    def below(self, n):
        return self.next() % n if n > 0 else 0

    def range(self, lo, hi):
        """inclusive"""
        return lo + self.below(hi - lo + 1)

    def chance(self, num, den):
        return self.next() % den < num

    def pick(self, xs):
        return xs[self.below(len(xs))]

    def shuffle(self, xs):
        for i in range(len(xs) - 1, 0, -1):
            j = self.below(i + 1)
            xs[i], xs[j] = xs[j], xs[i]
        return xs

    def sample(self, xs, k):
        ys = list(xs)
        self.shuffle(ys)
        return ys[:k]

    def weighted(self, pairs):
        total = sum(w for _, w in pairs)
        r = self.below(total)
        for v, w in pairs:
            if r < w:
                return v
            r -= w
        return pairs[-1][0]


# --------------------------------------------------------------------------- child processes

class ProcResult:
    __slots__ = ("rc", "sig", "out", "err", "timed_out", "cpu_exceeded", "wall")

    def __init__(self, rc, sig, out, err, timed_out, cpu_exceeded, wall):
        self.rc, self.sig, self.out, self.err = rc, sig, out, err
        self.timed_out, self.cpu_exceeded, self.wall = timed_out, cpu_exceeded, wall


def run_proc(cmd, cwd=None, cpu_s=20, wall_s=None, mem_gb=4, stdin=None, env=None, stack_mb=None):
    """run a child with RLIMIT_CPU/AS; wall clock is only a watchdog (-> timed_out, inconclusive)"""
    if wall_s is None:
        wall_s = cpu_s * 10 + 10
    # the limits are set by a tiny shell wrapper and the child gets its own session through start_new_session: a python
    # preexec_fn would fork under the GIL and serialise the worker threads (measured 4x slower for short children)
    lim = [f"ulimit -H -t {int(cpu_s) + 1}", f"ulimit -S -t {int(cpu_s)}", "ulimit -c 0"]
    if mem_gb:
        lim.append(f"ulimit -v {int(mem_gb * (1 << 20))}")
    if stack_mb:
        lim.append(f"ulimit -s {int(stack_mb) << 10}")
    wrapper = ["/bin/sh", "-c", "; ".join(lim) + '; exec "$@"', "sh"] + list(cmd)
    t0 = time.time()
    try:
        p = subprocess.Popen(wrapper, cwd=cwd, stdin=subprocess.PIPE if stdin is not None else subprocess.DEVNULL,
                             stdout=subprocess.PIPE, stderr=subprocess.PIPE, start_new_session=True, env=env or ENV_BASE)
    except OSError as e:
        raise Inconclusive(f"cannot start {cmd[0]}: {e}")
    timed_out = False
    try:
        out, err = p.communicate(input=stdin, timeout=wall_s)
    except subprocess.TimeoutExpired:
        timed_out = True
        try:
            os.killpg(p.pid, signal.SIGKILL)
        except ProcessLookupError:
            pass
        out, err = p.communicate()
    rc = p.returncode
    sig = -rc if rc is not None and rc < 0 else 0
    cpu_exceeded = sig in (signal.SIGXCPU, signal.SIGKILL) and not timed_out and (time.time() - t0) >= cpu_s * 0.9
    return ProcResult(rc, sig, out.decode("utf-8", "replace"), err.decode("utf-8", "replace"), timed_out, cpu_exceeded, time.time() - t0)


def pmap(fn, items, workers=None):
    """ordered parallel map over threads (the work is in child processes)"""
    if not workers:
        # share a busy machine: with N runnable processes already competing for the cores, more workers only add thrashing
        try:
            load = os.getloadavg()[0]
        except OSError:
            load = 0.0
        workers = NCPU if load <= NCPU * 1.5 else max(3, int(NCPU * NCPU / load))
    if workers <= 1 or len(items) <= 1:
        return [fn(x) for x in items]
    with ThreadPoolExecutor(max_workers=workers) as ex:
        return list(ex.map(fn, items))


def fresh_dir(*parts):
    d = os.path.join(WORK, *parts)
    shutil.rmtree(d, ignore_errors=True)
    os.makedirs(d)
    return d


def clean_work(prop):
    shutil.rmtree(os.path.join(WORK, prop), ignore_errors=True)


# --------------------------------------------------------------------------- probe driver

def run_probe(check, tier, seed, extra=(), shards=1, cpu_s=3600, corpus=False, cwd=None):
    """run the probe's built-in check (optionally sharded over processes) and merge the reports"""
    args_common = [PROBE, check, "--tier", tier, "--seed", str(seed)] + list(extra)
    if corpus:
        args_common += ["--corpus", build_corpus()]

    def one(i):
        a = list(args_common)
        if shards > 1:
            a += ["--shard", str(i), "--shards", str(shards)]
        r = run_proc(a, cpu_s=cpu_s, wall_s=cpu_s * 2, mem_gb=24, cwd=cwd)
        rep = None
        for line in r.out.splitlines():
            if line.startswith("@@REPORT "):
                rep = json.loads(line[len("@@REPORT "):])
        if rep is None:
            raise Inconclusive(f"probe {check} shard {i} gave no report (rc={r.rc} sig={r.sig} timed_out={r.timed_out})\n{r.err[-2000:]}")
        return rep

    reps = pmap(one, list(range(shards)), workers=min(shards, NCPU))
    return merge_reports(reps)


MIRI_TARGET = os.path.join(TARGET, "miri")
CORPUS_SMALL = os.path.join(TARGET, "corpus_small")


def build_corpus_small(limit=300, max_files=32):
    """a few short corpus texts for the interpreted (Miri) runs: reading hundreds of files through Miri's file shims costs minutes"""
    build_corpus()
    lk = _lock("corpus_small")
    try:
        stamp = os.path.join(CORPUS_SMALL, ".stamp")
        want = open(os.path.join(CORPUS, ".stamp")).read() + f":{limit}:{max_files}"
        if os.path.exists(stamp) and open(stamp).read() == want:
            return CORPUS_SMALL
        shutil.rmtree(CORPUS_SMALL, ignore_errors=True)
        os.makedirs(CORPUS_SMALL)
        small = []
        for f in sorted(os.listdir(CORPUS)):
            if f.endswith(".capy"):
                t = open(os.path.join(CORPUS, f), encoding="utf-8").read()
                if 20 <= len(t.encode()) <= limit:
                    small.append(f)
        step = max(1, len(small) // max_files)
        for f in small[::step][:max_files]:
            shutil.copyfile(os.path.join(CORPUS, f), os.path.join(CORPUS_SMALL, f))
        open(stamp, "w").write(want)
    finally:
        lk.close()
    return CORPUS_SMALL


def miri_cmd(args):
    """the probe's front-end part (lexer, parser, ast, line_index, topo: no cranelift) interpreted by Miri, hooks on"""
    src = probe_src(refresh=False)
    env = dict(ENV_BASE)
    env["CARGO_TARGET_DIR"] = MIRI_TARGET
    env["RUSTFLAGS"] = "--cfg capy_verif"
    env["MIRIFLAGS"] = "-Zmiri-disable-isolation"
    cmd = ["cargo", "+nightly", "miri", "run", "--no-default-features", "--offline", "-q", "--"] + list(args)
    return cmd, src, env


def build_probe_miri():
    """compiles the probe for Miri (first time ~1 min) by interpreting a trivial run"""
    lk = _lock("miri")
    try:
        src = probe_src()
        shutil.copyfile(os.path.join(REPO, "Cargo.lock"), os.path.join(src, "Cargo.lock"))
        cmd, cwd, env = miri_cmd(["c25", "--maxlen", "1", "--random", "1", "--files", "0"])
        t0 = time.time()
        p = subprocess.run(cmd, cwd=cwd, env=env, stdout=subprocess.PIPE, stderr=subprocess.STDOUT, text=True)
        if p.returncode != 0 or "@@REPORT" not in p.stdout:
            raise Inconclusive("Miri build/run of the probe failed:\n" + "\n".join(p.stdout.splitlines()[-30:]))
        log(f"[build] probe under Miri: ok in {time.time() - t0:.1f}s")
    finally:
        lk.close()


UB_PAT = re.compile(r"error: Undefined Behavior: ([^\n]*)")
MIRI_LOC = re.compile(r"-->\s+(\S+?):(\d+):(\d+)")


def run_probe_miri(check, seed, extra=(), shards=16, corpus=False, wall_s=1500, shard_by_seed=False):
    """runs `probe <check>` under Miri in `shards` parallel interpreter processes.
    returns (merged report, list of violation dicts for Undefined Behaviour / data races Miri reported).
    A shard that dies without UB (unsupported operation, timeout) raises Inconclusive."""
    build_probe_miri()
    common = [check, "--tier", "quick", "--lite", "1"] + list(extra)
    if corpus:
        common += ["--corpus", build_corpus_small()]

    def one(i):
        if shard_by_seed:
            a = list(common) + ["--seed", str(int(seed) * 1000 + i)]
        else:
            a = list(common) + ["--seed", str(seed), "--shard", str(i), "--shards", str(shards)]
        cmd, cwd, env = miri_cmd(a)
        r = run_proc(cmd, cwd=cwd, cpu_s=wall_s, wall_s=wall_s, mem_gb=0, env=env)
        rep = None
        for line in r.out.splitlines():
            if line.startswith("@@REPORT "):
                rep = json.loads(line[len("@@REPORT "):])
        return i, r, rep

    results = pmap(one, list(range(shards)), workers=min(shards, NCPU))
    reps, ub = [], []
    for i, r, rep in results:
        m = UB_PAT.search(r.err) or UB_PAT.search(r.out)
        if m:
            text = r.err if UB_PAT.search(r.err) else r.out
            loc = ""
            um = UB_PAT.search(text)
            for lm in MIRI_LOC.finditer(text[um.start():]):   # only locations after the report, not those of compiler warnings
                if "/crates/" in lm.group(1) and "/.cargo/" not in lm.group(1):
                    loc = lm.group(1)[lm.group(1).index("crates/"):] + ":" + lm.group(2)
                    break
            msg = re.sub(r"0x[0-9a-f]+|alloc\d+|\d+", "N", m.group(1))[:160]
            ub.append({"key": "miri_ub", "sig": f"miri_ub|{loc}|{msg}",
                       "what": f"Miri reports undefined behaviour in {loc or 'the front end'}: {m.group(1)[:300]}",
                       "witness": {"probe_args": common + ['--shard', str(i), '--shards', str(shards)], "miri_output": text[-3000:]}})
            continue
        if rep is None:
            raise Inconclusive(f"probe {check} under Miri, shard {i}: no report (rc={r.rc} sig={r.sig} timed_out={r.timed_out})\n{r.err[-1500:]}")
        reps.append(rep)
    merged = merge_reports(reps) if reps else {"evaluations": 0, "distinct_nontrivial": 0, "violations": [], "samples": [], "counters": {}, "notes": []}
    return merged, ub


def merge_reports(reps):
    if len(reps) == 1:
        return reps[0]
    m = dict(reps[0])
    m["evaluations"] = sum(r["evaluations"] for r in reps)
    sigs = set()
    have_sigs = all("sig_hashes" in r for r in reps)
    if have_sigs:
        for r in reps:
            sigs.update(r["sig_hashes"])
        m["distinct_nontrivial"] = max(len(sigs), max(r["distinct_nontrivial"] for r in reps))
    else:
        m["distinct_nontrivial"] = max(r["distinct_nontrivial"] for r in reps)
    m["violations"] = [v for r in reps for v in r["violations"]]
    m["dropped_violations"] = sum(r.get("dropped_violations", 0) for r in reps)
    m["samples"] = [s for r in reps for s in r["samples"]][:8]
    c = {}
    for r in reps:
        for k, v in r.get("counters", {}).items():
            c[k] = c.get(k, 0) + v
    m["counters"] = c
    m["notes"] = sorted({n for r in reps for n in r.get("notes", [])})
    m["exhaustive"] = all(r.get("exhaustive", False) for r in reps)
    m.pop("sig_hashes", None)
    return m


# --------------------------------------------------------------------------- known findings, verdicts, evidence

def load_known():
    p = os.path.join(VERIF, "known_findings.json")
    if not os.path.exists(p):
        return {"findings": [], "fixed": []}
    return json.load(open(p))


def violation_sig(v):
    w = v.get("witness")
    if isinstance(w, dict) and w.get("_sig"):
        return w["_sig"]
    return v.get("sig") or (v.get("key", "") + ":" + v.get("what", ""))


def match_known(prop, v, known):
    for f in known["findings"]:
        if prop != f.get("property") and prop not in f.get("properties", []):
            continue
        if "key" in f and f["key"] != v.get("key"):
            continue
        s = violation_sig(v)
        if "sig" in f:
            if f["sig"] == s:
                return f
            continue
        if "sig_regex" in f:
            if re.search(f["sig_regex"], s):
                return f
            continue
        if "key" in f:
            return f
    return None


def write_replay(prop, v):
    blob = json.dumps(v, sort_keys=True, ensure_ascii=False)
    h = hashlib.sha1(blob.encode()).hexdigest()[:12]
    d = os.path.join(OUT, "replay", prop, h)
    os.makedirs(d, exist_ok=True)
    with open(os.path.join(d, "witness.json"), "w", encoding="utf-8") as fh:
        json.dump(v, fh, indent=1, ensure_ascii=False)
    files = (v.get("witness") or {}).get("files") if isinstance(v.get("witness"), dict) else None
    if files:
        for name, text in files.items():
            fp = os.path.join(d, "files", name)
            os.makedirs(os.path.dirname(fp), exist_ok=True)
            with open(fp, "w", encoding="utf-8") as fh:
                fh.write(text)
    return d


def finish(prop, tier, seed, t0, level, report, assumptions, rule, min_evals=1, inconclusive=None, extra_cov=None):
    """common end of every check: known-finding triage, VIOLATION lines, evidence file, exit code.

    report: {"evaluations", "distinct_nontrivial", "violations":[{key, what, witness, sig?}], "samples", "counters", "notes", "exhaustive"}
    inconclusive: list of strings (cases without verdict)
    """
    known = load_known()
    inconclusive = inconclusive or []
    real = []
    kf_hits = {}
    for v in report.get("violations", []):
        f = match_known(prop, v, known)
        if f is not None:
            kf_hits.setdefault(f["id"], (f, 0))
            kf_hits[f["id"]] = (f, kf_hits[f["id"]][1] + 1)
        else:
            real.append(v)
    for fid, (f, n) in sorted(kf_hits.items()):
        print(f"KNOWN-FINDING: property={prop} {f['what']} [{fid}; seen {n}x this run]")
    seen_paths = set()
    for v in real:
        path = write_replay(prop, v)
        if path in seen_paths:
            continue
        seen_paths.add(path)
        print(f"VIOLATION property={prop} replay={path}")
        print(f"  {v.get('key')}: {str(v.get('what'))[:400]}")
    evals = int(report.get("evaluations", 0))
    distinct = int(report.get("distinct_nontrivial", 0))
    cov = {
        "evaluations": evals,
        "distinct_nontrivial": distinct,
        "rule": rule,
        "samples": report.get("samples", [])[:8],
        "exhaustive": bool(report.get("exhaustive", False)),
        "observed": report.get("counters", {}),
        "notes": report.get("notes", []),
        "inconclusive_cases": len(inconclusive),
        "inconclusive_samples": inconclusive[:5],
        "known_findings_seen": {fid: n for fid, (f, n) in kf_hits.items()},
        "dropped_duplicate_violations": report.get("dropped_violations", 0),
    }
    if extra_cov:
        cov.update(extra_cov)
    ev = {
        "property_id": prop,
        "tier": tier,
        "seed": int(seed),
        "level": level,
        "coverage": cov,
        "assumptions": assumptions,
        "wall_s": round(time.time() - t0, 2),
        "violations": len(real),
    }
    os.makedirs(os.path.join(OUT, "evidence"), exist_ok=True)
    with open(os.path.join(OUT, "evidence", f"{prop}.json"), "w", encoding="utf-8") as fh:
        json.dump(ev, fh, indent=1, ensure_ascii=False)
    clean_work(prop)
    if real:
        return 1
    total = evals + len(inconclusive)
    if evals < min_evals or distinct < 2:
        print(f"INCONCLUSIVE property={prop}: only {evals} evaluations / {distinct} distinct non-trivial cases (floor {min_evals})")
        return 2
    if total and len(inconclusive) / total > 0.05:
        print(f"INCONCLUSIVE property={prop}: {len(inconclusive)} of {total} cases had no verdict")
        for s in inconclusive[:5]:
            print("  ", s[:300])
        return 2
    print(f"OK property={prop} tier={tier} seed={seed}: held on {evals} evaluations ({distinct} distinct non-trivial), "
          f"{len(kf_hits)} known finding(s), {len(inconclusive)} inconclusive, {time.time() - t0:.1f}s")
    return 0
