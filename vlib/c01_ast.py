"""C01: typed AST of the generated programs and its printer (capy source text)."""
from .c01_ref import INT_INFO

INT_NAMES = list(INT_INFO)


class N:
    """generic AST node: k = kind, other attributes by kind (see c01_gen for the list)"""

    def __init__(self, k, **kw):
        self.k = k
        self.__dict__.update(kw)

    def __repr__(self):
        return "N(%s)" % ", ".join("%s=%r" % kv for kv in self.__dict__.items())


def T(name):
    return ("int", name)


BOOL, CHAR, VOID, F32, F64 = ("bool",), ("char",), ("void",), ("float", 32), ("float", 64)
I64, U64, USIZE = T("i64"), T("u64"), T("usize")


class Block:
    def __init__(self, stmts=None, tail=None, label=None):
        self.stmts = stmts if stmts is not None else []
        self.tail = tail
        self.label = label


class FuncDef:
    def __init__(self, name, params, ret, body, pure=False):
        self.name, self.params, self.ret, self.body, self.pure = name, params, ret, body, pure
        self.k = "funcdef"


class Program:
    def __init__(self):
        self.structs = {}        # name -> [(field, ty)]
        self.inline_structs = set()   # struct names that only exist as an enum payload `V: struct {..}`
        self.enums = {}          # name -> [(vname, payload ty | None, discriminant | None)]
        self.distincts = {}      # name -> base ty
        self.fnaliases = {}      # name -> ([(pname, ty)], ret)
        self.type_order = []     # [('struct'|'enum'|'distinct'|'fnalias'|'alias', name)]
        self.aliases = {}        # name -> ty   (plain type aliases `MyInt :: i16;`)
        self.consts = []         # [(name, ty, lit)]
        self.funcs = []
        self.main = None
        self.constructs = set()

    def variant_payload(self, vty):
        for vn, pl, _ in self.enums[vty[1]]:
            if vn == vty[2]:
                return pl
        raise KeyError(vty)

    def n_globals(self):
        return len(self.type_order) - len(self.inline_structs) * 0 + len(self.consts) + len(self.funcs) + 1


# --------------------------------------------------------------------------- printer

def ty_str(p, t):
    k = t[0]
    if k == "int":
        return t[1]
    if k == "bool":
        return "bool"
    if k == "char":
        return "char"
    if k == "float":
        return "f%d" % t[1]
    if k == "void":
        return "void"
    if k == "array":
        return "[%d]%s" % (t[2], ty_str(p, t[1]))
    if k == "slice":
        return "[]" + ty_str(p, t[1])
    if k in ("struct", "enum", "distinct", "fn", "alias"):
        return t[1]
    if k == "variant":
        return "%s.%s" % (t[1], t[2])
    if k == "opt":
        return "?" + ty_str(p, t[1])
    if k == "err":
        return "%s!%s" % (ty_str(p, t[1]), ty_str(p, t[2]))
    if k == "ptr":
        return ("^mut " if t[2] else "^") + ty_str(p, t[1])
    raise AssertionError(t)


def lit_str(p, e):
    t = e.ty
    b = t
    while b[0] == "distinct":
        b = p.distincts[b[1]]
    v = e.val
    if b[0] == "bool":
        s = "true" if v else "false"
        return s
    if b[0] == "char":
        s = "'%s'" % chr(v)
        return s
    if b[0] == "float":
        s = repr(float(v))
        if "e" in s or "inf" in s or "nan" in s:
            raise AssertionError("float literal " + s)
        return s if e.bare else "%s.(%s)" % (ty_str(p, t), s)
    bits, signed = INT_INFO[b[1]]
    if v < 0 and v == -(1 << (bits - 1)):
        s = "-%d - 1" % (-(v + 1))
        return "(%s)" % s if e.bare else "%s.(%s)" % (ty_str(p, t), s)
    s = str(v)
    return s if e.bare else "%s.(%s)" % (ty_str(p, t), s)


def pat_str(p, pat, full_enum=None):
    if pat[0] == "variant":
        return ("%s.%s" % (full_enum, pat[1])) if full_enum else "." + pat[1]
    if pat[0] == "nil":
        return "nil"
    return ty_str(p, pat[1])


def has_deref(e):
    while e.k in ("field", "index", "len"):
        e = e.base if e.k != "len" else e.e
    return e.k == "deref"


class Printer:
    def __init__(self, p):
        self.p = p

    def ex(self, e):
        p = self.p
        k = e.k
        if k == "lit":
            return lit_str(p, e)
        if k == "var":
            return e.name
        if k == "un":
            # a prefix operator binds tighter than the postfix dereference: -(p^), !(p^.f)
            return ("(%s(%s))" if has_deref(e.e) else "(%s%s)") % (e.op, self.ex(e.e))
        if k == "bin":
            return "(%s %s %s)" % (self.ex(e.a), e.op, self.ex(e.b))
        if k == "cast":
            return "%s.(%s)" % (ty_str(p, e.ty), self.ex(e.e))
        if k == "call":
            args = []
            for g in e.groups:
                if isinstance(g, list):
                    args.extend(self.ex(x) for x in g)
                else:
                    args.append(self.ex(g))
            return "%s(%s)" % (self.ex(e.fn), ", ".join(args))
        if k == "index":
            return "%s[%s]" % (self.ex(e.base), self.ex(e.idx))
        if k == "field":
            return "%s.%s" % (self.ex(e.base), e.name)
        if k == "deref":
            return "%s^" % self.ex(e.e)
        if k == "addr":
            return ("%s(%s)" if has_deref(e.place) else "%s%s") % ("^mut " if e.mut else "^", self.ex(e.place))
        if k == "len":
            return "%s.len" % self.ex(e.e)
        if k == "ife":
            return "if %s %s else %s" % (self.cond(e.cond), self.blk(e.then, 0, inline=True), self.blk(e.els, 0, inline=True))
        if k == "blocke":
            return self.blk(e.block, 0, inline=True)
        if k == "switch":
            return self.switch(e, 0, inline=True)
        if k == "arrlit":
            return "%s.[%s]" % (ty_str(p, e.ty[1]), ", ".join(self.ex(x) for x in e.elems))
        if k == "structlit":
            return "%s.{ %s }" % (ty_str(p, e.ty), ", ".join("%s = %s" % (f, self.ex(x)) for f, x in e.fields))
        if k == "variantlit":
            head = "%s.%s" % (e.ety[1], e.vname)
            if e.payload is None:
                return head
            if isinstance(e.payload, list):
                return "%s.{ %s }" % (head, ", ".join("%s = %s" % (f, self.ex(x)) for f, x in e.payload))
            return "%s.(%s)" % (head, self.ex(e.payload))
        if k == "nil":
            return "nil"
        if k == "wrap":
            return self.ex(e.e)
        if k == "unwrap":
            if not e.explicit:
                return "#unwrap(%s)" % self.ex(e.e)
            return "#unwrap(%s, %s)" % (self.ex(e.e), pat_str(p, e.target, self.enum_name(e.e.ty)))
        if k == "isvar":
            return "#is_variant(%s, %s)" % (self.ex(e.e), pat_str(p, e.target, self.enum_name(e.e.ty)))
        if k == "try":
            return "%s.try" % self.ex(e.e)
        if k == "lambda":
            return self.lambda_str(e, 0)
        if k == "opaque":
            return "vr_opaque_i64(%s)" % self.ex(e.e)
        raise AssertionError("print expr " + k)

    def cond(self, e):
        """a condition: without the outer parentheses (the compiler warns about them)"""
        s = self.ex(e)
        if e.k in ("bin", "un") and s.startswith("(") and s.endswith(")"):
            return s[1:-1]
        return s

    def enum_name(self, ty):
        while ty[0] == "distinct":
            ty = self.p.distincts[ty[1]]
        return ty[1] if ty[0] == "enum" else None

    def lambda_str(self, e, ind):
        ps = ", ".join("%s: %s%s" % (n, "..." if va else "", ty_str(self.p, t)) for n, t, va in e.params)
        ret = "" if e.ret[0] == "void" else " -> " + ty_str(self.p, e.ret)
        return "(%s)%s %s" % (ps, ret, self.blk(e.body, ind))

    def blk(self, b, ind, inline=False):
        pad = "    " * (ind + 1)
        lines = []
        blocklike = False
        for s in b.stmts:
            ls = self.st(s, ind + 1)
            if blocklike and ls and ls[0].lstrip()[:1] in "([^-~!.":
                lines[-1] += ";"      # `{ .. } (x)` would be parsed as a call of the block
            lines.extend(ls)
            blocklike = s.k in ("if", "while", "loop", "block") or (s.k == "expr" and s.e.k == "switch")
        if b.tail is not None:
            t = self.ex(b.tail)
            if blocklike and t[:1] in "([^-~!.":
                lines[-1] += ";"
            lines.append(pad + t)
        head = ("`%s: {" % b.label) if b.label else "{"
        if not lines:
            return head + " }"
        if inline:
            # expression position: one line
            return head + " " + " ".join(l.strip() for l in lines) + " }"
        return head + "\n" + "\n".join(lines) + "\n" + "    " * ind + "}"

    def switch(self, e, ind, inline=False):
        full = self.enum_name(e.scrut.ty) if getattr(e, "full_names", False) else None
        arms = []
        for pat, blk in e.arms:
            arms.append("%s => %s," % (pat_str(self.p, pat, full), self.blk(blk, ind + 1, inline=inline)))
        if e.default is not None:
            arms.append("_ => %s," % self.blk(e.default, ind + 1, inline=inline))
        head = "switch %s in %s {" % (e.bind, self.ex(e.scrut))
        if inline:
            return head + " " + " ".join(arms) + " }"
        pad = "    " * (ind + 1)
        return head + "\n" + "\n".join(pad + a for a in arms) + "\n" + "    " * ind + "}"

    def print_call(self, ident, e):
        p = self.p
        t = e.ty
        while t[0] == "distinct":
            t = p.distincts[t[1]]
        s = self.ex(e)
        if t[0] == "int":
            bits, signed = INT_INFO[t[1]]
            if bits == 128:
                return "vr_hex128(%d, u64.(%s), u64.((%s >> 64)))" % (ident, s, s)
            if signed:
                return "vr_i64(%d, %s)" % (ident, s if e.ty == I64 else "i64.(%s)" % s)
            return "vr_u64(%d, %s)" % (ident, s if e.ty == U64 else "u64.(%s)" % s)
        if t[0] == "bool":
            return "vr_bool(%d, %s)" % (ident, s)
        if t[0] == "char":
            return "vr_u64(%d, u64.(%s))" % (ident, s)
        if t[0] == "float":
            return ("vr_f64bits(%d, %s)" if t[1] == 64 else "vr_f32bits(%d, %s)") % (ident, s)
        raise AssertionError("print of " + str(e.ty))

    def st(self, s, ind):
        pad = "    " * ind
        k = s.k
        p = self.p
        if k == "decl":
            if s.init is not None and s.init.k == "lambda":
                return [pad + "%s :: %s;" % (s.name, self.lambda_str(s.init, ind))]
            if s.init is None:
                return [pad + "%s : %s;" % (s.name, ty_str(p, s.ty))]
            init = self.ex_top(s.init, ind)
            if s.annotate:
                return [pad + "%s : %s %s %s;" % (s.name, ty_str(p, s.ty), "=" if s.mut else ":", init)]
            return [pad + "%s %s %s;" % (s.name, ":=" if s.mut else "::", init)]
        if k == "assign":
            return [pad + "%s %s %s;" % (self.ex(s.place), s.op, self.ex_top(s.e, ind))]
        if k == "expr":
            if s.e.k == "switch":
                return [pad + self.switch(s.e, ind)]
            return [pad + self.ex(s.e) + ";"]
        if k == "print":
            return [pad + self.print_call(s.id, s.e) + ";"]
        if k == "ev":
            return [pad + "vr_ev(%d);" % s.id]
        if k == "if":
            out = pad + "if %s %s" % (self.cond(s.cond), self.blk(s.then, ind))
            els = s.els
            while els is not None:
                if isinstance(els, Block):
                    out += " else " + self.blk(els, ind)
                    els = None
                else:
                    out += " else if %s %s" % (self.cond(els.cond), self.blk(els.then, ind))
                    els = els.els
            return [out]
        if k == "while":
            lb = ("`%s: " % s.label) if s.label else ""
            return [pad + "%swhile %s %s" % (lb, self.cond(s.cond), self.blk(s.body, ind))]
        if k == "loop":
            lb = ("`%s: " % s.label) if s.label else ""
            return [pad + "%sloop %s" % (lb, self.blk(s.body, ind))]
        if k == "block":
            return [pad + self.blk(s.block, ind)]
        if k == "break":
            t = "break"
            if s.label:
                t += " `" + s.label
            if s.value is not None:
                t += " " + self.ex(s.value)
            return [pad + t + ";"]
        if k == "continue":
            return [pad + ("continue `%s;" % s.label if s.label else "continue;")]
        if k == "return":
            return [pad + ("return %s;" % self.ex(s.value) if s.value is not None else "return;")]
        if k == "defer":
            inner = self.st(s.stmt, 0)
            assert len(inner) == 1
            return [pad + "defer " + inner[0]]
        raise AssertionError("print stmt " + k)

    def ex_top(self, e, ind):
        """initialiser / right-hand side: block-like expressions are laid out over several lines"""
        if e.k == "ife":
            return "if %s %s else %s" % (self.cond(e.cond), self.blk(e.then, ind), self.blk(e.els, ind))
        if e.k == "blocke":
            return self.blk(e.block, ind)
        if e.k == "switch":
            return self.switch(e, ind)
        return self.ex(e)

    def func(self, f):
        ps = ", ".join("%s: %s%s" % (n, "..." if va else "", ty_str(self.p, t)) for n, t, va in f.params)
        ret = "" if f.ret[0] == "void" else " -> " + ty_str(self.p, f.ret)
        return "%s :: (%s)%s %s" % (f.name, ps, ret, self.blk(f.body, 0))

    def program(self, prelude):
        p = self.p
        out = [prelude.rstrip("\n")]
        for kind, name in p.type_order:
            if kind == "struct":
                if name in p.inline_structs:
                    continue
                out.append("%s :: struct { %s };" % (name, ", ".join("%s: %s" % (f, ty_str(p, t)) for f, t in p.structs[name])))
            elif kind == "enum":
                vs = []
                for vn, pl, disc in p.enums[name]:
                    s = vn
                    if pl is not None:
                        if pl[0] == "struct" and pl[1] in p.inline_structs:
                            s += ": struct { %s }" % ", ".join("%s: %s" % (f, ty_str(p, t)) for f, t in p.structs[pl[1]])
                        else:
                            s += ": " + ty_str(p, pl)
                    if disc is not None:
                        s += " | %d" % disc
                    vs.append(s)
                out.append("%s :: enum { %s };" % (name, ", ".join(vs)))
            elif kind == "distinct":
                out.append("%s :: distinct %s;" % (name, ty_str(p, p.distincts[name])))
            elif kind == "alias":
                out.append("%s :: %s;" % (name, ty_str(p, p.aliases[name])))
            elif kind == "fnalias":
                ps, ret = p.fnaliases[name]
                out.append("%s :: (%s) -> %s;" % (name, ", ".join("%s: %s" % (n, ty_str(p, t)) for n, t in ps), ty_str(p, ret)))
        for name, ty, lit in p.consts:
            out.append("%s : %s : %s;" % (name, ty_str(p, ty), lit_str(p, lit)))
        for f in p.funcs:
            out.append(self.func(f))
        out.append(self.func(p.main))
        return "\n".join(out) + "\n"


def render(prog, prelude):
    return Printer(prog).program(prelude)
