"""Mini language of check C16: an AST for a small deterministic fragment of capy with comptime parameters, with

  * an emitter (AST -> capy text, per file: references to globals of the other file are printed `o.name`),
  * hand substitution on the AST (`subst`): comptime type parameters are replaced by the argument's type expression, comptime value
    parameters by a typed literal (`usize.(5)`; a bare `5` where a constant is required: array lengths, comptime arguments),
  * a reference interpreter for CLOSED functions (no comptime parameters). A generic call met by the interpreter is
    substituted on the fly and then interpreted, i.e. the model's semantics of a generic call IS the statement of C16.

The interpreter knows nothing about capy's implementation; it implements two's-complement wrapping integers, IEEE f32/f64
(+ - *), value semantics for structs/arrays, pointers, slices and C-like natural layout for the stride observation.

Type expressions            ("prim", name) ("tp", T) ("named", name, home) ("lnamed", name) ("arr", len, elem) ("ptr", mut, t)
                            ("slice", t) ("anon", ((field, type), ...))        len = ("n", k) | ("cp", N)
                            ("tgcall", (name, home), (arg, ...)) the type returned by a (generic) type-generating function, written `comptime name(args)`
Expressions                 ("lit", v, type) bare integer literal standing where `type` is expected; ("flit", v) ("blit", b) ("chlit", c)
                            ("var", x) ("cpv", N) ("bin", op, a, b) ("not", a) ("cast", type, e) ("idx", e, i) ("fld", e, f) ("len", e)
                            ("deref", e) ("addr", mut, lvalue) ("slit", type, ((f, e), ...)) ("anonlit", ((f, e), ...), type) ("alit", elemtype, (e, ...))
                            ("call", (name, home), (arg, ...))   arg = ("T", type) | ("V", carg) | ("E", expr)
                            ("gconst", name, home)               carg = ("n", k) | ("b", bool) | ("cp", N) | ("cname", name, home) | ("cblock", text, k)
                            ("ctb", text, k, type) comptime block inside a body; ("ifx", c, a, b) if-expression
Statements                  ("let", x, type, e|None) ("letinf", x, e) ("assign", lvalue, e) ("while", c, body) ("if", c, then, else) ("trace", k, kind, e, label)
                            ("ltype", name, type | ("structdecl", fields)) ("stride", dest, arr) ("expr", e)
"""
import copy
import struct as _struct

INT_BITS = {"i8": 8, "i16": 16, "i32": 32, "i64": 64, "i128": 128, "isize": 64,
            "u8": 8, "u16": 16, "u32": 32, "u64": 64, "u128": 128, "usize": 64}


def P(n):
    return ("prim", n)


I64, U64, USIZE, BOOL = P("i64"), P("u64"), P("usize"), P("bool")


class Func:
    """params: [(name, kind, type)] kind in ct (comptime type) / cv (comptime value) / rt / va (varargs, type = element)"""

    def __init__(self, name, home, params, ret, body, tail, height=0, meta=None):
        self.name, self.home, self.params, self.ret, self.body, self.tail = name, home, params, ret, body, tail
        self.height, self.meta = height, meta or {}

    @property
    def generic(self):
        return any(k in ("ct", "cv") for _, k, _ in self.params)


class World:
    """the global declarations of a generated program: types, constants, functions, keyed by (home, name)"""

    def __init__(self):
        self.types = {}      # (home, name) -> ("struct", ((f, type), ...)) | ("distinct", type) | ("alias", type)
        self.consts = {}     # (home, name) -> (type, value)
        self.funcs = {}      # (home, name) -> Func
        self.order = {"main": [], "o": []}    # emission order of declarations per file: ("type"|"const"|"func", name)

    def add_type(self, home, name, decl):
        self.types[(home, name)] = decl
        self.order[home].append(("type", name))

    def add_const(self, home, name, ty, value):
        self.consts[(home, name)] = (ty, value)
        self.order[home].append(("const", name))

    def add_func(self, f):
        self.funcs[(f.home, f.name)] = f
        self.order[f.home].append(("func", f.name))


# --------------------------------------------------------------------------- emitter

class Emit:
    def __init__(self, world, file):
        self.w, self.file = world, file

    def q(self, name, home):
        return name if home == self.file else f"{home}.{name}"

    def ty(self, t):
        k = t[0]
        if k == "prim":
            return t[1]
        if k in ("tp", "lnamed"):
            return t[1]
        if k == "named":
            return self.q(t[1], t[2])
        if k == "arr":
            return f"[{self.clen(t[1])}]{self.ty(t[2])}"
        if k == "ptr":
            return ("^mut " if t[1] else "^") + self.ty(t[2])
        if k == "slice":
            return "[]" + self.ty(t[1])
        if k == "anon":
            return "struct { " + ", ".join(f"{f}: {self.ty(ft)}" for f, ft in t[1]) + " }"
        if k == "tgcall":
            args = [self.ty(a[1]) if a[0] == "T" else self.carg(a[1]) for a in t[2]]
            return f"comptime {self.q(t[1][0], t[1][1])}(" + ", ".join(args) + ")"
        raise AssertionError(t)

    def clen(self, ln):
        return str(ln[1])

    def carg(self, a):
        if a[0] in ("n", "cp"):
            return str(a[1])
        if a[0] == "b":
            return "true" if a[1] else "false"
        if a[0] == "cname":
            return self.q(a[1], a[2])
        if a[0] == "cblock":
            return "comptime { " + a[1] + " }"
        raise AssertionError(a)

    def ex(self, e):
        k = e[0]
        if k == "lit":
            return str(e[1])
        if k == "flit":
            return repr(float(e[1]))
        if k == "blit":
            return "true" if e[1] else "false"
        if k == "chlit":
            return "'" + e[1] + "'"
        if k in ("var", "cpv"):
            return e[1]
        if k == "ctb":
            return "comptime { " + e[1] + " }"
        if k == "tyval":
            return self.ty(e[1])
        if k == "ifx":
            return f"if {self.cond(e[1])} {{ {self.ex(e[2])} }} else {{ {self.ex(e[3])} }}"
        if k == "gconst":
            return self.q(e[1], e[2])
        if k == "bin":
            return f"({self.ex(e[2])} {e[1]} {self.ex(e[3])})"
        if k == "not":
            return f"(!{self.ex(e[1])})"
        if k == "cast":
            return f"{self.ty(e[1])}.({self.ex(e[2])})"
        if k == "idx":
            return f"{self.ex(e[1])}[{self.ex(e[2])}]"
        if k == "fld":
            return f"{self.ex(e[1])}.{e[2]}"
        if k == "len":
            return f"{self.ex(e[1])}.len"
        if k == "deref":
            return f"{self.ex(e[1])}^"
        if k == "addr":
            return ("^mut " if e[1] else "^") + self.ex(e[2])
        if k == "slit":
            return f"{self.ty(e[1])}.{{ " + ", ".join(f"{f} = {self.ex(v)}" for f, v in e[2]) + " }"
        if k == "anonlit":
            return ".{ " + ", ".join(f"{f} = {self.ex(v)}" for f, v in e[1]) + " }"
        if k == "alit":
            return f"{self.ty(e[1])}.[" + ", ".join(self.ex(v) for v in e[2]) + "]"
        if k == "call":
            args = []
            for a in e[2]:
                args.append(self.ty(a[1]) if a[0] == "T" else self.carg(a[1]) if a[0] == "V" else self.ex(a[1]))
            return f"{self.q(e[1][0], e[1][1])}(" + ", ".join(args) + ")"
        raise AssertionError(e)

    def cond(self, e):
        t = self.ex(e)
        return t[1:-1] if e[0] in ("bin", "not") else t

    TRACE = {"i64": ("vr_i64", "i64"), "u64": ("vr_u64", "u64"), "f64": ("vr_f64bits", "f64"), "bool": ("vr_bool", None)}

    def stmts(self, ss, ind):
        out = []
        pad = "    " * ind
        for s in ss:
            k = s[0]
            if k == "let":
                out.append(f"{pad}{s[1]} : {self.ty(s[2])}" + (f" = {self.ex(s[3])};" if s[3] is not None else ";"))
            elif k == "letinf":
                out.append(f"{pad}{s[1]} := {self.ex(s[2])};")
            elif k == "assign":
                out.append(f"{pad}{self.ex(s[1])} = {self.ex(s[2])};")
            elif k == "while":
                out.append(f"{pad}while {self.cond(s[1])} {{")
                out += self.stmts(s[2], ind + 1)
                out.append(f"{pad}}};")          # `;`: a following line that starts with `.{` would otherwise be parsed as `(while ..).{..}`
            elif k == "if":
                out.append(f"{pad}if {self.cond(s[1])} {{")
                out += self.stmts(s[2], ind + 1)
                if s[3]:
                    out.append(f"{pad}}} else {{")
                    out += self.stmts(s[3], ind + 1)
                out.append(f"{pad}}};")
            elif k == "trace":
                v = self.ex(s[3])
                if s[2] == "hex128":
                    out.append(f"{pad}vr_hex128(base + {s[1]}, u64.({v}), u64.({v} >> 64));")
                else:
                    fn, cast = self.TRACE[s[2]]
                    out.append(f"{pad}{fn}(base + {s[1]}, " + (f"{cast}.({v})" if cast else v) + ");")
            elif k == "ltype":
                if s[2][0] == "structdecl":
                    out.append(f"{pad}{s[1]} :: struct {{ " + ", ".join(f"{f}: {self.ty(ft)}" for f, ft in s[2][1]) + " };")
                else:
                    out.append(f"{pad}{s[1]} :: {self.ty(s[2])};")
            elif k == "stride":
                d, a = s[1], s[2]
                out.append(f"{pad}{d}_q0 := ^{a}[0];")
                out.append(f"{pad}{d}_q1 := ^{a}[1];")
                out.append(f"{pad}{d} : usize = (^usize.(rawptr.(^{d}_q1)))^ - (^usize.(rawptr.(^{d}_q0)))^;")
            elif k == "expr":
                out.append(f"{pad}{self.ex(s[1])};")
            else:
                raise AssertionError(s)
        return out

    def func(self, f):
        ps = []
        for n, k, t in f.params:
            if k == "ct":
                ps.append(f"comptime {n}: type")
            elif k == "cv":
                ps.append(f"comptime {n}: {self.ty(t)}")
            elif k == "va":
                ps.append(f"{n}: ...{self.ty(t)}")
            else:
                ps.append(f"{n}: {self.ty(t)}")
        head = f"{f.name} :: (" + ", ".join(ps) + ")" + (f" -> {self.ty(f.ret)}" if f.ret is not None else "") + " {"
        lines = [head] + self.stmts(f.body, 1)
        if f.tail is not None:
            lines.append("    " + self.ex(f.tail))
        lines.append("}")
        return "\n".join(lines)

    def type_decl(self, name, d):
        if d[0] == "struct":
            return f"{name} :: struct {{ " + ", ".join(f"{f}: {self.ty(ft)}" for f, ft in d[1]) + " };"
        if d[0] == "distinct":
            return f"{name} :: distinct {self.ty(d[1])};"
        return f"{name} :: {self.ty(d[1])};"

    def file_text(self):
        out = []
        for kind, name in self.w.order[self.file]:
            if kind == "type":
                out.append(self.type_decl(name, self.w.types[(self.file, name)]))
            elif kind == "const":
                t, v = self.w.consts[(self.file, name)]
                out.append(f"{name} : {self.ty(t)} : {v};")
            else:
                out.append(self.func(self.w.funcs[(self.file, name)]))
        return "\n".join(out) + "\n"


# --------------------------------------------------------------------------- hand substitution

def subst_type(t, b):
    k = t[0]
    if k == "tp":
        return b[t[1]][1] if t[1] in b else t
    if k == "arr":
        ln = t[1]
        if ln[0] == "cp" and ln[1] in b:
            ln = ("n", b[ln[1]][1])
        return ("arr", ln, subst_type(t[2], b))
    if k == "ptr":
        return ("ptr", t[1], subst_type(t[2], b))
    if k == "slice":
        return ("slice", subst_type(t[1], b))
    if k == "anon":
        return ("anon", tuple((f, subst_type(ft, b)) for f, ft in t[1]))
    if k == "tgcall":
        args = []
        for a in t[2]:
            if a[0] == "T":
                args.append(("T", subst_type(a[1], b)))
            else:
                c = a[1]
                if c[0] == "cp" and c[1] in b:
                    c = ("n", b[c[1]][1])
                args.append(("V", c))
        return ("tgcall", t[1], tuple(args))
    return t


def subst_expr(e, b):
    k = e[0]
    if k == "cpv":
        if e[1] in b:
            _, v, dt = b[e[1]]
            if dt == BOOL:
                return ("blit", bool(v))
            return ("cast", dt, ("lit", v, dt))
        return e
    if k == "ctb":
        return e
    if k == "tyval":
        return ("tyval", subst_type(e[1], b))
    if k == "ifx":
        return ("ifx", subst_expr(e[1], b), subst_expr(e[2], b), subst_expr(e[3], b))
    if k == "lit":
        return ("lit", e[1], subst_type(e[2], b))
    if k in ("flit", "blit", "chlit", "var", "gconst"):
        return e
    if k == "bin":
        return ("bin", e[1], subst_expr(e[2], b), subst_expr(e[3], b))
    if k == "not":
        return ("not", subst_expr(e[1], b))
    if k == "cast":
        return ("cast", subst_type(e[1], b), subst_expr(e[2], b))
    if k == "idx":
        return ("idx", subst_expr(e[1], b), subst_expr(e[2], b))
    if k == "fld":
        return ("fld", subst_expr(e[1], b), e[2])
    if k in ("len", "deref"):
        return (k, subst_expr(e[1], b))
    if k == "addr":
        return ("addr", e[1], subst_expr(e[2], b))
    if k == "slit":
        return ("slit", subst_type(e[1], b), tuple((f, subst_expr(v, b)) for f, v in e[2]))
    if k == "anonlit":
        return ("anonlit", tuple((f, subst_expr(v, b)) for f, v in e[1]), subst_type(e[2], b))
    if k == "alit":
        return ("alit", subst_type(e[1], b), tuple(subst_expr(v, b) for v in e[2]))
    if k == "call":
        args = []
        for a in e[2]:
            if a[0] == "T":
                args.append(("T", subst_type(a[1], b)))
            elif a[0] == "V":
                c = a[1]
                if c[0] == "cp" and c[1] in b:
                    c = ("b", bool(b[c[1]][1])) if b[c[1]][2] == BOOL else ("n", b[c[1]][1])
                args.append(("V", c))
            else:
                args.append(("E", subst_expr(a[1], b)))
        return ("call", e[1], tuple(args))
    raise AssertionError(e)


def subst_stmts(ss, b):
    out = []
    for s in ss:
        k = s[0]
        if k == "let":
            out.append(("let", s[1], subst_type(s[2], b), subst_expr(s[3], b) if s[3] is not None else None))
        elif k == "letinf":
            out.append(("letinf", s[1], subst_expr(s[2], b)))
        elif k == "assign":
            out.append(("assign", subst_expr(s[1], b), subst_expr(s[2], b)))
        elif k == "while":
            out.append(("while", subst_expr(s[1], b), subst_stmts(s[2], b)))
        elif k == "if":
            out.append(("if", subst_expr(s[1], b), subst_stmts(s[2], b), subst_stmts(s[3], b)))
        elif k == "trace":
            out.append(("trace", s[1], s[2], subst_expr(s[3], b), s[4]))
        elif k == "ltype":
            if s[2][0] == "structdecl":
                out.append(("ltype", s[1], ("structdecl", tuple((f, subst_type(ft, b)) for f, ft in s[2][1]))))
            else:
                out.append(("ltype", s[1], subst_type(s[2], b)))
        elif k == "stride":
            out.append(s)
        elif k == "expr":
            out.append(("expr", subst_expr(s[1], b)))
        else:
            raise AssertionError(s)
    return out


def subst_func(f, binding, new_name, new_home):
    """binding: comptime parameter name -> ("T", closed type) | ("V", value, declared type).
    -> closed Func (comptime parameters removed) living in file new_home"""
    binding = dict(binding)
    for n, k, t in f.params:          # the declared type of a comptime value parameter may mention an earlier type parameter (`comptime D: T`)
        if k == "cv" and n in binding:
            binding[n] = ("V", binding[n][1], subst_type(t, binding))
    params = [(n, k, subst_type(t, binding)) for n, k, t in f.params if k not in ("ct", "cv")]
    g = Func(new_name, new_home, params, subst_type(f.ret, binding) if f.ret is not None else None,
             subst_stmts(f.body, binding), subst_expr(f.tail, binding) if f.tail is not None else None, f.height, dict(f.meta))
    g.meta["origin"] = (f.home, f.name)
    return g


# --------------------------------------------------------------------------- reference interpreter

class ModelError(Exception):
    pass


def f32r(x):
    try:
        return _struct.unpack("<f", _struct.pack("<f", x))[0]
    except OverflowError:
        return float("inf") if x > 0 else float("-inf")


def norm_int(v, bits, signed):
    v &= (1 << bits) - 1
    if signed and v >> (bits - 1):
        v -= 1 << bits
    return v


class Interp:
    MAX_STEPS = 200000

    def __init__(self, world):
        self.w = world
        self.events = []
        self.steps = 0
        self.inst_cache = {}

    # ----- types
    def resolve(self, t, ltypes):
        k = t[0]
        if k == "prim":
            n = t[1]
            if n in INT_BITS:
                return ("int", INT_BITS[n], n[0] == "i")
            if n in ("f32", "f64"):
                return ("float", int(n[1:]))
            if n == "bool":
                return ("bool",)
            if n == "char":
                return ("char",)
            raise ModelError(f"prim {n}")
        if k == "named":
            d = self.w.types[(t[2], t[1])]
            if d[0] == "struct":
                return ("struct", tuple((f, self.resolve(ft, {})) for f, ft in d[1]))
            return self.resolve(d[1], {})          # distinct / alias: same representation and operations
        if k == "lnamed":
            return ltypes[t[1]]
        if k == "arr":
            if t[1][0] != "n":
                raise ModelError("open array length")
            return ("array", t[1][1], self.resolve(t[2], ltypes))
        if k == "ptr":
            return ("ptr", self.resolve(t[2], ltypes))
        if k == "slice":
            return ("slice", self.resolve(t[1], ltypes))
        if k == "anon":
            return ("struct", tuple((f, self.resolve(ft, ltypes)) for f, ft in t[1]))
        if k == "tgcall":
            g = self.instantiate(self.w.funcs[(t[1][1], t[1][0])], t[2])
            if g.tail is None or g.tail[0] != "tyval":
                raise ModelError("not a type generator")
            return self.resolve(g.tail[1], {})
        raise ModelError(f"open type {t}")

    def default(self, ct):
        k = ct[0]
        if k == "int" or k == "char":
            return 0
        if k == "float":
            return 0.0
        if k == "bool":
            return False
        if k == "struct":
            return {f: self.default(ft) for f, ft in ct[1]}
        if k == "array":
            return [self.default(ct[2]) for _ in range(ct[1])]
        raise ModelError(f"default of {ct}")

    def layout(self, ct):
        """(size, align) under natural C-like layout"""
        k = ct[0]
        if k == "int":
            return ct[1] // 8, min(ct[1] // 8, 8)          # 128-bit integers are 8-aligned in capy (observed; layouts are C17's subject)
        if k == "float":
            return ct[1] // 8, ct[1] // 8
        if k in ("bool", "char"):
            return 1, 1
        if k == "struct":
            off, al = 0, 1
            for _, ft in ct[1]:
                s, a = self.layout(ft)
                off = (off + a - 1) // a * a + s
                al = max(al, a)
            return (off + al - 1) // al * al, al
        if k == "array":
            s, a = self.layout(ct[2])
            return ((s + a - 1) // a * a) * ct[1], a
        raise ModelError(f"layout of {ct}")

    def stride(self, ct):
        s, a = self.layout(ct)
        return (s + a - 1) // a * a

    # ----- values
    def conv(self, ct, v, to):
        """cast"""
        if ct == to:
            return v
        if to[0] == "int":
            if ct[0] in ("int", "char"):
                return norm_int(v, to[1], to[2])
            if ct[0] == "bool":
                return 1 if v else 0
            raise ModelError(f"cast {ct} -> {to}")
        if to[0] == "float":
            if ct[0] == "int":
                x = float(v)
            elif ct[0] == "float":
                x = v
            else:
                raise ModelError(f"cast {ct} -> {to}")
            return f32r(x) if to[1] == 32 else x
        if to[0] == "char" and ct[0] == "int":
            return norm_int(v, 8, False)
        raise ModelError(f"cast {ct} -> {to}")

    def binop(self, op, ct, a, b):
        if op in ("==", "!=", "<", "<=", ">", ">="):
            r = {"==": a == b, "!=": a != b, "<": a < b, "<=": a <= b, ">": a > b, ">=": a >= b}[op]
            return ("bool",), r
        if op in ("&&", "||"):
            return ("bool",), (a and b) if op == "&&" else (a or b)
        if ct[0] == "int":
            if op == "+":
                r = a + b
            elif op == "-":
                r = a - b
            elif op == "*":
                r = a * b
            elif op == "&":
                r = a & b
            elif op == "|":
                r = a | b
            elif op == "~":
                r = a ^ b
            else:
                raise ModelError(op)
            return ct, norm_int(r, ct[1], ct[2])
        if ct[0] == "float":
            r = {"+": a + b, "-": a - b, "*": a * b}[op]
            return ct, (f32r(r) if ct[1] == 32 else r)
        raise ModelError(f"{op} on {ct}")

    # ----- evaluation
    def tick(self):
        self.steps += 1
        if self.steps > self.MAX_STEPS:
            raise ModelError("step limit")

    def ref(self, e, env):
        """lvalue -> (ctype, container, key)"""
        k = e[0]
        if k == "var":
            ct, _ = env["vars"][e[1]]
            return ct, env["vars"][e[1]], 1
        if k == "idx":
            ct, cont, key = self.ref_or_tmp(e[1], env)
            _, i = self.ev(e[2], env)
            base = cont[key]
            if ct[0] == "slice":
                if not (0 <= i < len(base)):
                    raise ModelError("slice index")
                return ct[1], base, i
            if ct[0] != "array" or not (0 <= i < ct[1]):
                raise ModelError("index")
            return ct[2], base, i
        if k == "fld":
            ct, cont, key = self.ref_or_tmp(e[1], env)
            base = cont[key]
            while ct[0] == "ptr":                       # automatic dereference
                ct, cont, key = base
                base = cont[key]
            ft = dict(ct[1])[e[2]]
            return ft, base, e[2]
        if k == "deref":
            ct, p = self.ev(e[1], env)
            return p
        raise ModelError(f"not an lvalue: {e[0]}")

    def ref_or_tmp(self, e, env):
        if e[0] in ("var", "idx", "fld", "deref"):
            return self.ref(e, env)
        ct, v = self.ev(e, env)
        return ct, [None, v], 1

    def ev(self, e, env):
        self.tick()
        k = e[0]
        if k == "lit":
            ct = self.resolve(e[2], env["lt"])
            if ct[0] == "float":
                return ct, self.conv(("int", 64, True), e[1], ct)
            return ct, norm_int(e[1], ct[1], ct[2]) if ct[0] == "int" else e[1]
        if k == "flit":
            return ("float", 64), float(e[1])
        if k == "blit":
            return ("bool",), bool(e[1])
        if k == "chlit":
            return ("char",), ord(e[1])
        if k in ("var", "idx", "fld", "deref"):
            ct, cont, key = self.ref(e, env)
            v = cont[key]
            return ct, (copy.deepcopy(v) if ct[0] in ("struct", "array") else v)
        if k == "ctb":
            ct = self.resolve(e[3], env["lt"])
            return ct, norm_int(e[2], ct[1], ct[2])
        if k == "ifx":
            return self.ev(e[2] if self.ev(e[1], env)[1] else e[3], env)
        if k == "gconst":
            t, v = self.w.consts[(e[2], e[1])]
            ct = self.resolve(t, {})
            return ct, v
        if k == "bin":
            ca, a = self.ev(e[2], env)
            if e[1] == "&&" and not a:
                return ("bool",), False
            if e[1] == "||" and a:
                return ("bool",), True
            cb, b = self.ev(e[3], env)
            if ca != cb:
                # a float literal takes the type of the other operand
                raise ModelError(f"operand types differ: {ca} {e[1]} {cb}")
            return self.binop(e[1], ca, a, b)
        if k == "not":
            _, a = self.ev(e[1], env)
            return ("bool",), not a
        if k == "cast":
            to = self.resolve(e[1], env["lt"])
            ct, v = self.ev(e[2], env)
            return to, self.conv(ct, v, to)
        if k == "len":
            ct, cont, key = self.ref_or_tmp(e[1], env)
            if ct[0] == "array":
                return ("int", 64, False), ct[1]
            if ct[0] == "slice":
                return ("int", 64, False), len(cont[key])
            raise ModelError("len")
        if k == "addr":
            ct, cont, key = self.ref(e[2], env)
            return ("ptr", ct), (ct, cont, key)
        if k == "slit":
            ct = self.resolve(e[1], env["lt"])
            fts = dict(ct[1])
            return ct, {f: self.coerce(self.ev(v, env), fts[f]) for f, v in e[2]}
        if k == "anonlit":
            ct = self.resolve(e[2], env["lt"])
            fts = dict(ct[1])
            return ct, {f: self.coerce(self.ev(v, env), fts[f]) for f, v in e[1]}
        if k == "alit":
            et = self.resolve(e[1], env["lt"])
            return ("array", len(e[2]), et), [self.coerce(self.ev(v, env), et) for v in e[2]]
        if k == "call":
            return self.call(e, env)
        raise ModelError(f"expr {k}")

    def coerce(self, tv, to):
        ct, v = tv
        if ct != to:
            raise ModelError(f"value of type {ct} where {to} is expected")
        return v

    def carg_value(self, c):
        if c[0] in ("n", "b"):
            return c[1]
        if c[0] == "cname":
            return self.w.consts[(c[2], c[1])][1]
        if c[0] == "cblock":
            return c[2]
        raise ModelError(f"open comptime argument {c}")

    def instantiate(self, f, args):
        """closed callee for a call: hand substitution of the comptime arguments"""
        if not f.generic:
            return f
        b = {}
        keyparts = []
        for (n, k, t), a in zip(f.params, args):
            if k == "ct":
                b[n] = ("T", a[1])
                keyparts.append(repr(a[1]))
            elif k == "cv":
                v = self.carg_value(a[1])
                b[n] = ("V", v, subst_type(t, b))
                keyparts.append(str(v))
        key = (f.home, f.name, tuple(keyparts))
        if key not in self.inst_cache:
            self.inst_cache[key] = subst_func(f, b, f.name, f.home)
        return self.inst_cache[key]

    def call(self, e, env):
        f = self.w.funcs[(e[1][1], e[1][0])]
        g = self.instantiate(f, e[2])
        rt_args = [a for (n, k, t), a in zip(f.params, e[2]) if k not in ("ct", "cv")]
        extra = list(e[2][len(f.params):])          # varargs beyond the parameter list
        nenv = {"vars": {}, "lt": {}}
        vals = []
        for a in rt_args + extra:
            if a[0] != "E":
                raise ModelError("comptime argument in run-time position")
            vals.append(self.ev_arg(a[1], env))
        i = 0
        for n, k, t in g.params:
            if k == "va":
                et = self.resolve(t, {})
                items = [self.coerce(v, et) for v in vals[i:]]
                i = len(vals)
                nenv["vars"][n] = [("slice", et), items]
            else:
                ct = self.resolve(t, {})
                tv = vals[i]
                i += 1
                if ct[0] == "slice" and tv[0][0] == "array":
                    nenv["vars"][n] = [ct, tv[1]]            # array -> slice: shares the elements
                else:
                    nenv["vars"][n] = [ct, self.coerce(tv, ct)]
        return self.run_body(g, nenv)

    def ev_arg(self, e, env):
        """arguments: an array variable passed where a slice is expected must keep its identity"""
        if e[0] == "var":
            ct, cont, key = self.ref(e, env)
            if ct[0] == "array":
                return ct, cont[key]
        return self.ev(e, env)

    def run_body(self, g, env):
        self.exec(g.body, env)
        if g.tail is None:
            return ("void",), None
        ct, v = self.ev(g.tail, env)
        if g.ret is not None:
            rt = self.resolve(g.ret, env["lt"])
            if ct != rt:
                raise ModelError(f"return type {ct} vs {rt}")
        return ct, v

    def exec(self, ss, env):
        for s in ss:
            self.tick()
            k = s[0]
            if k == "let":
                ct = self.resolve(s[2], env["lt"])
                if s[3] is None:
                    v = self.default(ct)
                else:
                    v = self.coerce(self.ev(s[3], env), ct)
                env["vars"][s[1]] = [ct, v]
            elif k == "letinf":
                ct, v = self.ev(s[2], env)
                env["vars"][s[1]] = [ct, v]
            elif k == "assign":
                ct, cont, key = self.ref(s[1], env)
                cont[key] = self.coerce(self.ev(s[2], env), ct)
            elif k == "while":
                while self.ev(s[1], env)[1]:
                    self.exec(s[2], env)
            elif k == "if":
                if self.ev(s[1], env)[1]:
                    self.exec(s[2], env)
                else:
                    self.exec(s[3], env)
            elif k == "trace":
                ct, v = self.ev(s[3], env)
                base = env["vars"]["base"][1]
                self.events.append(fmt_event(s[2], base + s[1], ct, v, self) + (s[4],))
            elif k == "ltype":
                if s[2][0] == "structdecl":
                    env["lt"][s[1]] = ("struct", tuple((f, self.resolve(ft, env["lt"])) for f, ft in s[2][1]))
                else:
                    env["lt"][s[1]] = self.resolve(s[2], env["lt"])
            elif k == "stride":
                ct, _ = env["vars"][s[2]]
                env["vars"][s[1]] = [("int", 64, False), self.stride(ct[2])]
            elif k == "expr":
                self.ev(s[1], env)
            else:
                raise ModelError(f"stmt {k}")


def f64bits(x):
    return _struct.unpack("<Q", _struct.pack("<d", x))[0]


def fmt_event(kind, eid, ct, v, it):
    """the line the runtime prints: (tag, id, value string)"""
    if kind == "i64":
        return ("I", eid, str(it.conv(ct, v, ("int", 64, True))))
    if kind == "u64":
        return ("U", eid, str(it.conv(ct, v, ("int", 64, False))))
    if kind == "f64":
        return ("D", eid, "%016x" % f64bits(it.conv(ct, v, ("float", 64))))
    if kind == "bool":
        return ("B", eid, "1" if v else "0")
    if kind == "hex128":
        u = v & ((1 << 128) - 1)
        return ("H", eid, "%032x" % u)
    raise ModelError(kind)
