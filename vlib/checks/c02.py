"""C02 — writing one value never changes any other value; aggregates are copied.

Every write site stores into an object that sits between `u8` guard fields (struct), between initialised
neighbours (array element), or between guard locals, then prints every guard and reads the written object back.
Monitor/oracle: each printed guard equals its sentinel, the object reads back as written, and mutating a copy is
invisible through the original.
"""
import json
import os
import time

from .. import common as C
from .. import capyrun as R

RULE = ("write kinds {variant->enum (with/without payload), payload->optional, nil->optional, payload/error->error union, struct literal, anonymous struct literal "
        "with reordered fields, array literal, aggregate copy into field / array element / through ^mut, struct returned from a call, default initialisation} x "
        "object types of size 1..64 bytes with alignments 1, 2, 4, 8 x placements {struct field between u8 guards, array element between neighbours, local "
        "between guard locals}; plus copy-semantics sites (assignment, argument, return); non-trivial = a site whose object size is not a multiple of 8 or whose "
        "type is a sum type; distinct = distinct (write kind, placement, object type) tuples")
ASSUME = ["padding bytes of the written object itself are not guarded (writes to an object's own padding are legal); guards are separate live values",
          "objects are read back through ordinary field access / #unwrap, guards through field access"]

G0, G1, G2, G3 = 0xA1, 0xB2, 0xC3, 0x1122334455667788


class T:
    """object type: name, declaration, size (for the signature), literal(seed) and readback(expr, base id) -> (stmts, expected list)"""

    def __init__(self, name, decl, size, align, lit, rb, anon=None):
        self.name, self.decl, self.size, self.align, self.lit, self.rb, self.anon = name, decl, size, align, lit, rb, anon


def make_types(tier):
    ts = []
    sizes = [1, 2, 3, 5, 7, 8, 9, 12, 15, 16, 17, 24, 31, 33, 63, 64] if tier == "quick" else list(range(1, 65))
    for n in sizes:
        def lit(seed, n=n):
            return "u8.[" + ", ".join(str((seed * 7 + k * 3 + 1) % 251) for k in range(n)) + "]"

        def rb(expr, n=n):
            idx = sorted({0, n // 2, n - 1})
            return [f"i64.({expr}[{k}])" for k in idx], (lambda seed, idx=idx: [(seed * 7 + k * 3 + 1) % 251 for k in idx])
        ts.append(T(f"[{n}]u8", None, n, 1, lit, rb))
    structs = [
        ("SA", [("a", "u8")]), ("SB", [("a", "u16"), ("b", "u8")]), ("SC", [("a", "u32"), ("b", "u8")]), ("SD", [("a", "u64"), ("b", "u8")]),
        ("SE", [("a", "u8"), ("b", "u64")]), ("SF", [("a", "[3]u8"), ("b", "u16")]), ("SG", [("a", "u64"), ("b", "u64"), ("c", "u8")]),
        ("SH", [("a", "u8"), ("b", "u16"), ("c", "u32"), ("d", "u8")]), ("SI", [("a", "u32"), ("b", "u32"), ("c", "u32")]),
    ]
    for name, fields in structs:
        decl = f"{name} :: struct {{ " + ", ".join(f"{f}: {t}" for f, t in fields) + " };"

        def fval(seed, k, t):
            v = (seed * 13 + k * 5 + 2)
            return v % 200 if t in ("u8", "[3]u8") else v % 60000 if t == "u16" else v * 1000003 % (2 ** 31) if t == "u32" else v * 1000000007

        def lit(seed, name=name, fields=fields, order=None):
            items = []
            for k, (f, t) in enumerate(fields):
                v = fval(seed, k, t)
                items.append((f, f"u8.[{v}, {v + 1}, {v + 2}]" if t == "[3]u8" else str(v)))
            if order:
                items = [items[i] for i in order]
            return ("." if order is not None else name + ".") + "{ " + ", ".join(f"{f} = {v}" for f, v in items) + " }"

        def rb(expr, fields=fields):
            exprs = [f"i64.({expr}.{f}[2])" if t == "[3]u8" else f"i64.({expr}.{f})" for f, t in fields]
            return exprs, (lambda seed, fields=fields: [(fval(seed, k, t) + 2 if t == "[3]u8" else fval(seed, k, t)) for k, (f, t) in enumerate(fields)])
        size = {"SA": 1, "SB": 3, "SC": 5, "SD": 9, "SE": 16, "SF": 6, "SG": 17, "SH": 9, "SI": 12}[name]
        order = list(reversed(range(len(fields))))
        ts.append(T(name, decl, size, 8, lit, rb, anon=(lambda seed, lit=lit, order=order: lit(seed, order=order))))
    return ts


def guard_struct(gname, inner):
    return f"{gname} :: struct {{ g0: u8, obj: {inner}, g1: u8, g2: u8, g3: u64 }};"


def guard_init(gname, objlit):
    return f"{gname}.{{ g0 = {G0}, obj = {objlit}, g1 = {G1}, g2 = {G2}, g3 = {G3} }}"


class Site:
    def __init__(self, sid, kind, placement, tyname, decls, body, expected, sig):
        self.sid, self.kind, self.placement, self.tyname, self.decls, self.body, self.expected, self.sig = sid, kind, placement, tyname, decls, body, expected, sig


def gen_sites(tier, seed, accepted_pairs=None):
    rng = C.Rng(seed, 2)
    types = make_types(tier)
    sites = []
    nid = [0]

    def new(kind, placement, t, decls, build):
        """build(pr) appends statements; pr(expr, expected_value) registers a print"""
        nid[0] += 1
        sid = nid[0]
        stmts, expected = [], []

        def pr(expr, val):
            pid = sid * 1000 + len(expected) + 1
            stmts.append(f"    vr_i64({pid}, {expr});")
            expected.append((pid, val))

        def st(s):
            stmts.append("    " + s)
        build(st, pr)
        body = f"site{sid} :: () {{\n" + "\n".join(stmts) + "\n}"
        sites.append(Site(sid, kind, placement, t.name if t else "-", decls, body, expected, (kind, placement, t.name if t else "-")))

    def guards(pr, var="s"):
        pr(f"i64.({var}.g0)", G0)
        pr(f"i64.({var}.g1)", G1)
        pr(f"i64.({var}.g2)", G2)
        pr(f"i64.({var}.g3)", G3)

    for t in types:
        seed_a, seed_b = rng.range(1, 90), rng.range(100, 190)
        tn = t.name.replace("[", "A").replace("]", "_")
        base_decls = [t.decl] if t.decl else []
        # --- plain aggregate writes into a guarded struct field
        gname = f"G_{tn}"
        gd = base_decls + [guard_struct(gname, t.name)]

        def rb_all(pr, expr, seed, t=t):
            exprs, exp = t.rb(expr)
            for e, v in zip(exprs, exp(seed)):
                pr(e, v)

        def b_lit(st, pr, t=t, gname=gname, sa=seed_a, sb=seed_b):
            st(f"s := {guard_init(gname, t.lit(sa))};")
            st(f"s.obj = {t.lit(sb)};")
            guards(pr)
            rb_all(pr, "s.obj", sb)
        new("literal_into_field", "struct_field", t, gd, b_lit)

        def b_copy(st, pr, t=t, gname=gname, sa=seed_a, sb=seed_b):
            st(f"s := {guard_init(gname, t.lit(sa))};")
            st(f"o := {t.lit(sb)};")
            st("s.obj = o;")
            guards(pr)
            rb_all(pr, "s.obj", sb)
            rb_all(pr, "o", sb)
        new("copy_into_field", "struct_field", t, gd, b_copy)

        def b_ptr(st, pr, t=t, gname=gname, sa=seed_a, sb=seed_b):
            st(f"s := {guard_init(gname, t.lit(sa))};")
            st("p := ^mut s.obj;")
            st(f"p^ = {t.lit(sb)};")
            guards(pr)
            rb_all(pr, "s.obj", sb)
        new("store_through_ptr", "struct_field", t, gd, b_ptr)

        def b_ret(st, pr, t=t, gname=gname, sa=seed_a, sb=seed_b, tn=tn):
            st(f"s := {guard_init(gname, t.lit(sa))};")
            st(f"s.obj = mk_{tn}_{sb}();")
            guards(pr)
            rb_all(pr, "s.obj", sb)
        new("struct_return_into_field", "struct_field", t, gd + [f"mk_{tn}_{seed_b} :: () -> {t.name} {{ {t.lit(seed_b)} }}"], b_ret)
        if t.anon:
            def b_anon(st, pr, t=t, gname=gname, sa=seed_a, sb=seed_b):
                st(f"s := {guard_init(gname, t.lit(sa))};")
                st(f"s.obj = {t.anon(sb)};")
                guards(pr)
                rb_all(pr, "s.obj", sb)
            new("anon_struct_reordered_into_field", "struct_field", t, gd, b_anon)
        # --- array element between neighbours
        def b_arr(st, pr, t=t, sa=seed_a, sb=seed_b):
            st(f"a : [3]{t.name} = .[{t.lit(sa)}, {t.lit(sa + 1)}, {t.lit(sa + 2)}];")
            st(f"a[1] = {t.lit(sb)};")
            rb_all(pr, "a[0]", sa)
            rb_all(pr, "a[1]", sb)
            rb_all(pr, "a[2]", sa + 2)
        new("literal_into_element", "array_element", t, base_decls, b_arr)
        # --- local between guard locals + default init
        def b_loc(st, pr, t=t, sa=seed_a, sb=seed_b):
            st(f"l0 : u8 = {G0}; l1 : u64 = {G3};")
            st(f"x : {t.name};")
            st(f"l2 : u8 = {G1}; l3 : u64 = {G3 + 1};")
            st(f"y := {t.lit(sa)};")
            st(f"l4 : u8 = {G2};")
            st(f"y = {t.lit(sb)};")
            st("x = y;")
            for e, v in (("l0", G0), ("l1", G3), ("l2", G1), ("l3", G3 + 1), ("l4", G2)):
                pr(f"i64.({e})", v)
            rb_all(pr, "x", sb)
            rb_all(pr, "y", sb)
        new("default_init_and_copy", "locals", t, base_decls, b_loc)
        # --- copy semantics
        if t.decl:
            fld = "a"

            def b_cs(st, pr, t=t, sa=seed_a, tn=tn, fld=fld):
                st(f"o := {t.lit(sa)};")
                st("c := o;")
                st(f"c.{fld} = 1;" if "[3]" not in t.decl.split(fld + ":")[1].split(",")[0] else f"c.{fld}[2] = 1;")
                rb_all(pr, "o", sa)
                st(f"r := mut_{tn}(o);")
                rb_all(pr, "o", sa)
            mutf = (f"mut_{tn} :: (p: {t.name}) -> {t.name} {{ q := p; q.{fld} = 2; q }}" if "[3]" not in t.decl.split(fld + ":")[1].split(",")[0]
                    else f"mut_{tn} :: (p: {t.name}) -> {t.name} {{ q := p; q.{fld}[2] = 2; q }}")
            new("mutating_a_copy", "copy_semantics", t, base_decls + [mutf], b_cs)
            # a cast that changes no bytes (structurally identical twin struct, distinct wrapper) still makes a copy
            twin = t.decl.replace(f"{t.name} ::", f"TW_{tn} ::", 1)
            dist = f"DW_{tn} :: distinct {t.name};"
            is_arr_fld = "[3]" in t.decl.split(fld + ":")[1].split(",")[0]
            setf = (lambda v, who, fld=fld, is_arr_fld=is_arr_fld: f"{who}.{fld}[2] = {v};" if is_arr_fld else f"{who}.{fld} = {v};")

            def b_cast(st, pr, t=t, sa=seed_a, sb=seed_b, tn=tn, setf=setf):
                st(f"o := {t.lit(sa)};")
                st(f"c := TW_{tn}.(o);")
                st(setf(1, "c"))
                rb_all(pr, "o", sa)          # writing the cast copy leaves the original alone
                st(f"o2 := {t.lit(sb)};")
                st(f"e := TW_{tn}.(o2);")
                st(setf(3, "o2"))
                rb_all(pr, "e", sb)          # writing the original leaves the cast copy alone
                st(f"o3 := {t.lit(sa)};")
                st(f"d := DW_{tn}.(o3);")
                st(setf(5, "o3"))
                st(f"back := {t.name}.(d);")
                rb_all(pr, "back", sa)
            new("mutating_a_cast_copy", "copy_semantics", t, base_decls + [twin, dist], b_cast)
        else:
            # arrays: a copy made by casting a slice of the array back to an array type, and a plain assignment copy
            def b_acast(st, pr, t=t, sa=seed_a, sb=seed_b):
                st(f"o := {t.lit(sa)};")
                st("sl : []u8 = o;")
                st(f"c := {t.name}.(sl);")
                st("c[0] = 1;")
                rb_all(pr, "o", sa)
                st(f"o2 := {t.lit(sb)};")
                st("e := o2;")
                st("o2[0] = 3;")
                rb_all(pr, "e", sb)
            new("mutating_a_cast_copy", "copy_semantics", t, base_decls, b_acast)
        # --- sum types whose payload is t
        ename = f"E_{tn}"
        ed = base_decls + [f"{ename} :: enum {{ N, P: {t.name}, Q: u8 }};", guard_struct(f"GE_{tn}", ename)]

        def b_enum(st, pr, t=t, ename=ename, tn=tn, sa=seed_a, sb=seed_b):
            st(f"s := {guard_init('GE_' + tn, ename + '.N')};")
            st(f"s.obj = {ename}.P.({t.lit(sb)});")
            guards(pr)
            st(f"u := #unwrap(s.obj, {ename}.P);")
            exprs, exp = t.rb(f"{t.name}.(u)")
            for e, v in zip(exprs, exp(sb)):
                pr(e, v)
            st(f"s.obj = {ename}.Q.(7);")
            guards(pr)
            pr(f"i64.(u8.(#unwrap(s.obj, {ename}.Q)))", 7)
            st(f"s.obj = {ename}.N;")
            guards(pr)
            pr(f"i64.(#is_variant(s.obj, {ename}.N))", 1)
        new("variant_into_enum", "struct_field", t, ed, b_enum)
        od = base_decls + [guard_struct(f"GO_{tn}", "?" + t.name)]

        def b_opt(st, pr, t=t, tn=tn, sa=seed_a, sb=seed_b):
            st(f"s := {guard_init('GO_' + tn, 'nil')};")
            st(f"v := {t.lit(sb)};")
            st("s.obj = v;")
            guards(pr)
            st("u := #unwrap(s.obj);")
            rb_all(pr, "u", sb)
            st("s.obj = nil;")
            guards(pr)
            pr(f"i64.(#is_variant(s.obj, nil))", 1)
        new("payload_and_nil_into_optional", "struct_field", t, od, b_opt)
        ud = base_decls + ["UErr :: struct { code: u8 };", guard_struct(f"GU_{tn}", "UErr!" + t.name)]

        def b_eu(st, pr, t=t, tn=tn, sa=seed_a, sb=seed_b):
            st(f"s := {guard_init('GU_' + tn, 'UErr.{ code = 1 }')};")
            st(f"v := {t.lit(sb)};")
            st("s.obj = v;")
            guards(pr)
            st(f"u := #unwrap(s.obj, {t.name});")
            rb_all(pr, "u", sb)
            st("s.obj = UErr.{ code = 9 };")
            guards(pr)
            pr("i64.(#unwrap(s.obj, UErr).code)", 9)
        new("payload_and_error_into_error_union", "struct_field", t, ud, b_eu)
        # sum types as array elements
        def b_enum_arr(st, pr, t=t, ename=ename, sb=seed_b):
            st(f"a : [3]{ename} = .[{ename}.Q.(11), {ename}.Q.(12), {ename}.Q.(13)];")
            st(f"a[1] = {ename}.P.({t.lit(sb)});")
            pr(f"i64.(u8.(#unwrap(a[0], {ename}.Q)))", 11)
            pr(f"i64.(u8.(#unwrap(a[2], {ename}.Q)))", 13)
            st(f"u := #unwrap(a[1], {ename}.P);")
            exprs, exp = t.rb(f"{t.name}.(u)")
            for e, v in zip(exprs, exp(sb)):
                pr(e, v)
            st(f"a[1] = {ename}.N;")
            pr(f"i64.(u8.(#unwrap(a[0], {ename}.Q)))", 11)
            pr(f"i64.(u8.(#unwrap(a[2], {ename}.Q)))", 13)
        new("variant_into_enum", "array_element", t, ed, b_enum_arr)
    if accepted_pairs:
        scalar_sites(new, guards, accepted_pairs)
    return sites


def probe_pairs(work):
    """which (destination, value) integer type pairs capy takes in `dest op= value` is asked from the compiler itself:
    acceptance is not this property's subject, only what an accepted store does to its neighbours"""
    names = ["u8", "i8", "u16", "i16", "u32", "i32", "u64", "i64"]
    jobs = [(d, s_) for d in names for s_ in names if d != s_]

    def one(p):
        d, s_ = p
        c = R.compile_capy(os.path.join(work, f"pp_{d}_{s_}"), {"main.capy": f"main :: () -> i32 {{\n    x : {d} = 1;\n    w : {s_} = 2;\n    x += w;\n    0\n}}\n"})
        return p, c.accepted
    return {p for p, ok in C.pmap(one, jobs) if ok}


def scalar_sites(new, guards, accepted_pairs):
    """scalar fields between guards written by plain and compound assignments whose right side has another (wider or
    narrower, signed or unsigned) integer type, and through a ^mut pointer to the field"""
    ints = [("u8", 8, False), ("i8", 8, True), ("u16", 16, False), ("i16", 16, True), ("u32", 32, False), ("i32", 32, True), ("u64", 64, False), ("i64", 64, True)]

    def wrap(v, w, signed):
        v &= (1 << w) - 1
        return v - (1 << w) if signed and v >= 1 << (w - 1) else v
    for dty, dw, dsg in ints:
        gname = f"GS_{dty}"
        decl = f"{gname} :: struct {{ g0: u8, obj: {dty}, g1: u8, g2: u8, g3: u64 }};"
        for sty, sw, ssg in ints:
            if (dty, sty) not in accepted_pairs:
                continue
            for op, fn in (("+=", lambda a, b: a + b), ("-=", lambda a, b: a - b), ("*=", lambda a, b: a * b), ("|=", lambda a, b: a | b)):
                # only combinations the type checker takes: capy accepts `dest op= value` when the two have a common type
                a0 = 5
                b0 = 300 if sw >= 16 else 100
                if ssg and op == "-=":
                    b0 = -b0

                def build(st, pr, gname=gname, dty=dty, sty=sty, op=op, a0=a0, b0=b0, dw=dw, dsg=dsg, fn=fn):
                    st(f"s := {gname}.{{ g0 = {G0}, obj = {a0}, g1 = {G1}, g2 = {G2}, g3 = {G3} }};")
                    st(f"w : {sty} = {b0};")
                    st(f"s.obj {op} w;")
                    guards(pr)
                    pr("i64.(s.obj)" if dw < 64 or dsg else "i64.(s.obj & 0x7fffffffffffffff)", wrap(fn(a0, b0), dw, dsg) if dw < 64 or dsg else wrap(fn(a0, b0), dw, dsg) & 0x7fffffffffffffff)
                new(f"compound_{op}_{sty}_into_{dty}", "struct_field_scalar", None, [decl], build)


def run_batch(job):
    idx, sites, work = job
    decls = []
    seen = set()
    for s in sites:
        for d in s.decls:
            if d and d not in seen:
                seen.add(d)
                decls.append(d)
    text = R.PRELUDE + "\n".join(decls) + "\n" + "\n".join(s.body for s in sites) + "\nmain :: () -> i32 {\n" + "\n".join(f"    vr_ev({s.sid}); site{s.sid}();" for s in sites) + "\n    0\n}\n"
    d = os.path.join(work, f"b{idx}")
    c = R.compile_capy(d, {"main.capy": text}, cpu_s=60)
    if c.timed_out:
        return idx, "inconclusive", "watchdog", text
    if c.internal_error:
        return idx, "internal_error", c, text
    if not c.accepted:
        return idx, "rejected", c, text
    r = R.link_and_run(d, c.obj, cpu_s=10)
    if r.link_failed or r.timed_out:
        return idx, "inconclusive", "link/run failed", text
    return idx, "ran", r, text


def run(tier, seed):
    t0 = time.time()
    C.build_cli()
    C.build_rt()
    work = C.fresh_dir("C02")
    sites = gen_sites(tier, seed, probe_pairs(work))
    per = 10
    # group sites of the same type together (shared declarations)
    jobs = [(i // per, sites[i:i + per], work) for i in range(0, len(sites), per)]
    results = C.pmap(run_batch, jobs)
    by_idx = {j[0]: j[1] for j in jobs}
    viol, inconc, samples, sigs = [], [], [], set()
    evals = 0
    cnt = {}

    def add_v(key, sig, what, wit):
        cnt[sig] = cnt.get(sig, 0) + 1
        if cnt[sig] <= 2:
            viol.append({"key": key, "sig": sig, "what": what, "witness": wit})

    for idx, status, info, text in results:
        if status == "inconclusive":
            inconc.append(f"batch {idx}: {info}")
            continue
        if status == "internal_error":
            add_v("internal_error", "internal_error|" + info.panic_sig(), f"batch {idx} ({sorted({s.kind for s in by_idx[idx]})}): internal compiler error: {info.brief()[:300]}", {"files": {"main.capy": text}})
            continue
        if status == "rejected":
            add_v("rejected", "rejected|" + ";".join(info.diag_kinds()[:2])[:100], f"well-typed write sites are rejected: {info.brief()[:500]}", {"files": {"main.capy": text}})
            continue
        r = info
        got = {}
        reached = set()
        for tag, i, val in R.parse_log(r.out):
            if tag == "I":
                got[i] = int(val)
            elif tag == "E":
                reached.add(i)
        for s in by_idx[idx]:
            if s.sid not in reached:
                if r.rc != 0:
                    continue
            evals += 1
            sigs.add(s.sig)
            bad = [(pid, want, got.get(pid)) for pid, want in s.expected if got.get(pid) != want]
            if bad:
                guard_bad = [b for b in bad if b[1] in (G0, G1, G2, G3, G3 + 1)]
                key = "guard_clobbered" if guard_bad else "object_readback"
                add_v(key, f"{key}|{s.kind}|{s.placement}|size%8={'0' if s.tyname[0] != '[' else int(s.tyname[1:s.tyname.index(']')]) % 8}",
                      f"{s.kind} ({s.placement}, object type {s.tyname}): " + "; ".join(f"print {pid}: expected {w}, observed {g}" for pid, w, g in bad[:4]),
                      {"site": s.body, "files": {"main.capy": text}})
            elif len(samples) < 4 and s.kind == "variant_into_enum":
                samples.append({"site": s.body.splitlines()[1:6], "observed": {pid: got.get(pid) for pid, _ in s.expected[:6]}})
        if r.rc != 0:
            add_v("crash", f"crash|batch", f"batch {idx} exited with rc={r.rc} sig={r.sig}: {r.out[-300:]}", {"files": {"main.capy": text}})
    rep = {"evaluations": evals, "distinct_nontrivial": len(sigs), "violations": viol, "samples": samples,
           "counters": {"write_sites": len(sites), "programs": len(jobs), "guard_and_readback_prints": sum(len(s.expected) for s in sites)}, "notes": [], "exhaustive": False}
    return C.finish("C02", tier, seed, t0, "exploration", rep, ASSUME, RULE, min_evals=100, inconclusive=inconc)


def replay(path):
    w = json.load(open(os.path.join(path, "witness.json")))
    print(json.dumps({k: v for k, v in w.items() if k != "witness"}, indent=1))
    print((w.get("witness") or {}).get("site"))
    return run("quick", 0)
