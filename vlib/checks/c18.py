"""C18 — runtime reflection and type values describe the code actually generated.

Every case is one capy program that imports `core` and declares up to 30 generated types (C17's universe, constructor depth <= 2) plus
the primitives and enum-variant types they are built from ("table entries"). For every entry the program prints

 (R) what `core.meta` reports (size_of / align_of / stride_of / get_type_info: kind, int width+sign, float width, array length + element
     type, slice / pointer (mutability) / distinct sub type, struct member names (hashed), offsets and member types, enum variant types and
     tag offset, variant payload type and discriminant, optional / error-union payload types and tag offset), once from a function that
     runs at run time and once from the same function evaluated inside a `comptime { }` block;
 (M) what is measured with address arithmetic on real places of that type in the same program: offsets of `pre`/`x`/`post` in a wrapper
     `struct { pre: u8, x: T, post: u8 }` (alignment and size the code uses), distance between `^q[1]` and `^q[0]` of a `[2]T` (stride), the
     offsets of every struct field, `.len` of arrays (also after the array -> slice conversion), the sign of an all-ones bit pattern, and byte
     dumps of a zeroed place after storing each variant / nil / payload / error (position and value of the tag byte);
 (=) the equality class of every type value against the whole table (run time, comptime, and as literal `A == B` expressions) and the
     type carried by an `any` made from a value of the type (assignment, `any` parameter, variadic `...any` parameter, after widening).

The oracle is R == M (layout numbers), R == declaration (names, order, sub types, widths, mutability, discriminants) and
"equal iff same type" (aliases and re-written structural types are the same type; every struct / enum / distinct declaration is its own
type). The layout rules of C17 are computed in python only as a third opinion (counted, judged only where nothing can be measured).
"""
import json
import os
import shutil
import time

from .. import common as C
from .. import capyrun as R

RULE = ("program = up to 30 generated types (every primitive i8..i128,u8..u128,isize,usize,f32,f64,bool,char,str,void,type,any,rawptr,mut rawptr closed under "
        "array(len 0..5)/slice/^/^mut/?/E!T/distinct/struct(0..4 members)/enum(1..4 variants, payloads, explicit/implicit/mixed discriminants)/function pointer, "
        "depth <= 2, plus plain aliases, re-written structural types and structurally identical twin struct/enum/distinct declarations; every 4th program also has four "
        "enum-inside-enum groups: the outer enum's payload is another enum directly / a struct with an enum member / an array of enums / an optional enum, the two enums "
        "differing in size, variant count and tag offset) + the primitives and variant types used; the type table (= order in which the compiler first meets the types as "
        "values) is in declaration order, reversed (composite before its components) or shuffled (with shuffled global declarations) for a third of the programs each; "
        "the primitives and "
        "variant types used; evaluation = one table entry of one executed program whose reflection (run time and comptime), measurements, equality rows "
        "and any-types were all judged; non-trivial = entry of a composite type (not a primitive); distinct = distinct (kind, canonical structural shape) of judged composite entries")
ASSUME = ["a type is 'the same type' as another iff it is a plain alias (`A :: T;`) of it or the same structural type expression (array/slice/pointer/optional/error union/"
          "function over the same types) written again; each `struct`, `enum`, `distinct` declaration and each enum variant is its own type; function types are "
          "generated with identical parameter names so that the role of parameter names in type identity is never judged",
          "isize/i64 and usize/u64 are different types (the checker rejects `p : ^isize = ^x_i64`), so their type values must compare unequal",
          "the size the generated code uses for T is the distance between `x: T` and the following `post: u8` field of a wrapper struct, its alignment the offset of `x` "
          "after a leading `pre: u8`, its stride the distance between two elements of `[2]T` (not measured for zero-sized T: addresses of zero-sized places are unconstrained)",
          "the tag byte of a sum type is located by storing each variant (zero payload bytes) into zeroed memory: the reflected tag offset must hold the variant's "
          "discriminant in every dump; explicit discriminants must be the declared ones, implicit ones need only be what reflection says and pairwise distinct",
          "member / variant order reported by reflection is declaration order",
          "is_non_zero is required for optionals of ^T, ^mut T, rawptr, mut rawptr (statement: pointer sized), forbidden for optionals of non-pointer-like types, free for "
          "optionals of function pointers and distinct pointers",
          "`any` made from an `any` (or a distinct of any) is not judged; global `X :: comptime { core.meta... }` is rejected by capy as a circular definition, so "
          "the comptime reflection runs in a comptime block inside `main`"]

EXTERNAL_SIGNALS = (2, 9, 15)
NTYPES = 30
ZB_WORDS = 256            # scratch buffers: 2048 bytes
MAX_SIZE = 900            # generated types larger than this are not produced (wrapper and [2]T must fit the scratch buffer)

# meta.capy's kind numbers are only used as labels of the stream the generated `describe` function prints
K_VOID, K_INT, K_FLOAT, K_BOOL, K_STR, K_CHAR, K_TYPE, K_ANY, K_FILE, K_RAWPTR, K_RAWSLICE, K_NIL = 1, 2, 3, 4, 5, 6, 7, 8, 9, 10, 11, 12
K_STRUCT, K_DISTINCT, K_ARRAY, K_SLICE, K_PTR, K_FN, K_ENUM, K_VARIANT, K_OPT, K_EU = 16, 17, 18, 19, 20, 21, 22, 23, 24, 25
KNAME = {1: "void", 2: "int", 3: "float", 4: "bool", 5: "str", 6: "char", 7: "type", 8: "any", 9: "file", 10: "rawptr", 11: "rawslice", 12: "nil",
         16: "struct", 17: "distinct", 18: "array", 19: "slice", 20: "pointer", 21: "function", 22: "enum", 23: "variant", 24: "optional", 25: "error_union"}

PRIMS = {
    # name: (size, align, kind, extra)
    "i8": (1, 1, K_INT, (8, 1)), "i16": (2, 2, K_INT, (16, 1)), "i32": (4, 4, K_INT, (32, 1)), "i64": (8, 8, K_INT, (64, 1)), "i128": (16, 8, K_INT, (128, 1)),
    "u8": (1, 1, K_INT, (8, 0)), "u16": (2, 2, K_INT, (16, 0)), "u32": (4, 4, K_INT, (32, 0)), "u64": (8, 8, K_INT, (64, 0)), "u128": (16, 8, K_INT, (128, 0)),
    "isize": (8, 8, K_INT, (64, 1)), "usize": (8, 8, K_INT, (64, 0)),
    "f32": (4, 4, K_FLOAT, (32,)), "f64": (8, 8, K_FLOAT, (64,)),
    "bool": (1, 1, K_BOOL, ()), "char": (1, 1, K_CHAR, ()), "str": (8, 8, K_STR, ()), "void": (0, 1, K_VOID, ()),
    "type": (4, 4, K_TYPE, ()), "any": (16, 8, K_ANY, ()), "rawptr": (8, 8, K_RAWPTR, (0,)), "mut rawptr": (8, 8, K_RAWPTR, (1,)),
}
PRIM_NAMES = list(PRIMS)
WORD_TWINS = {("isize", "i64"), ("i64", "isize"), ("usize", "u64"), ("u64", "usize")}


def rup(n, a):
    return (n + a - 1) // a * a


class Ty:
    """one type of a program: `key` is its identity (equal keys <=> the same type by the ASSUME rule)"""

    def __init__(self, kind, key, text, depth, size, align, nominal=False, **kw):
        self.kind, self.key, self.text, self.depth, self.size, self.align, self.nominal = kind, key, text, depth, size, align, nominal
        self.name = None           # alias name when declared as T<i>
        self.shape = kw.pop("shape", key)
        self.__dict__.update(kw)

    @property
    def stride(self):
        return rup(self.size, self.align)

    def ref(self, rng=None):
        """text that denotes the type in a type position (parenthesised when it is not a single token)"""
        if self.name is None:
            return par(self.text)
        # an inline function type inside another type expression trips a known assertion of the lowering (C06 finding): always by name
        if self.nominal or self.kind == K_FN or rng is None or rng.chance(1, 2):
            return self.name
        return par(self.text)

    def addressable(self):
        """`^place` of a place whose type is `type` is read as a pointer *type* by capy: no address arithmetic on such places"""
        t = self
        while t.kind == K_DISTINCT:
            t = t.sub
        return t.kind != K_TYPE and self.size > 0

    def under(self):
        t = self
        while t.kind in (K_DISTINCT, K_VARIANT):
            t = t.sub
        return t

    def scalar_zst(self):
        """zero-sized and not an aggregate: a load of it from memory is avoided (capy panics on `p^` with p : ^void)"""
        u = self.under()
        return self.size == 0 and u.kind == K_VOID

    def pointer_like(self):
        return self.kind in (K_PTR, K_RAWPTR)


def prim(name):
    s, a, k, ex = PRIMS[name]
    return Ty(k, name, name, 0, s, a, extra=ex, shape=name)


# --------------------------------------------------------------------------- generator

class Prog:
    def __init__(self, rng, force_prims=()):
        self.rng = rng
        self.force_prims = list(force_prims)
        self.prims = {n: prim(n) for n in PRIM_NAMES}
        self.gen = []            # generated types in declaration order (Ty; aliases appear as ("alias", name, target))
        self.decls = []          # source lines
        self.entries = []        # table entries: dict(ty, tref, vref, label)
        self.nominal_ctr = 0
        self.used_prims = []

    # ---- helpers
    def nkey(self):
        self.nominal_ctr += 1
        return f"#{self.nominal_ctr}"

    def use(self, t):
        if t.depth == 0 and t.kind not in (K_VARIANT,) and t.key in self.prims and t.key not in self.used_prims:
            self.used_prims.append(t.key)
        return t

    def pick_child(self, maxdepth, want_deep=False, exclude=None):
        rng = self.rng
        pool = [t for t in self.gen_types() if t.depth <= maxdepth and not getattr(t, "reserved", False)]
        if exclude:
            pool = [t for t in pool if not exclude(t)]
        deep = [t for t in pool if t.depth == maxdepth and maxdepth > 0]
        if want_deep and deep:
            return rng.pick(deep)
        if pool and rng.chance(1, 2):
            return rng.pick(pool)
        for _ in range(20):
            t = self.prims[rng.pick(PRIM_NAMES)]
            if not (exclude and exclude(t)):
                return self.use(t)
        return self.use(self.prims["i32"])

    def gen_types(self):
        return [t for t in self.gen if isinstance(t, Ty)]

    # ---- constructors (children are Ty objects); return None when the result would be too large
    def mk_array(self, n, el, rng):
        return Ty(K_ARRAY, f"[{n}]{el.key}", f"[{n}]{el.ref(rng)}", el.depth + 1, n * el.stride, el.align, len=n, sub=el, shape=f"[{n}]{el.shape}")

    def mk_slice(self, el, rng):
        return Ty(K_SLICE, f"[]{el.key}", f"[]{el.ref(rng)}", el.depth + 1, 16, 8, sub=el, shape=f"[]{el.shape}")

    def mk_ptr(self, mut, sub, rng):
        m = "mut " if mut else ""
        return Ty(K_PTR, f"^{m}({sub.key})", f"^{m}{sub.ref(rng)}", sub.depth + 1, 8, 8, mutable=mut, sub=sub, shape=f"^{m}({sub.shape})")

    def mk_opt(self, sub, rng):
        u = sub
        while u.kind == K_DISTINCT:
            u = u.sub
        if u.pointer_like():
            # (for a distinct pointer either representation is allowed; capy uses the nil-is-zero one, which the expectation follows)
            size, align, tag = 8, 8, None
        else:
            tag = sub.size
            size, align = tag + 1, max(1, sub.align)
        return Ty(K_OPT, f"?{sub.key}", f"?{sub.ref(rng)}", sub.depth + 1, size, align, sub=sub, tag=tag, shape=f"?{sub.shape}")

    def mk_eu(self, err, ok, rng):
        tag = max(err.size, ok.size)
        return Ty(K_EU, f"({err.key})!({ok.key})", f"{atom(err.ref(rng))}!{atom(ok.ref(rng))}", max(err.depth, ok.depth) + 1, tag + 1, max(1, err.align, ok.align),
                  err=err, ok=ok, tag=tag, shape=f"({err.shape})!({ok.shape})")

    def mk_fn(self, params, ret, rng):
        ps = ", ".join(f"p{i}: {p.ref(rng)}" for i, p in enumerate(params))
        return Ty(K_FN, "fn(" + ",".join(p.key for p in params) + ")->" + ret.key, f"({ps}) -> {ret.ref(rng)}", max([p.depth for p in params] + [ret.depth]) + 1, 8, 8,
                  params=params, ret=ret, shape="fn(" + ",".join(p.shape for p in params) + ")->" + ret.shape)

    def mk_distinct(self, sub, rng):
        return Ty(K_DISTINCT, self.nkey(), f"distinct {sub.ref(rng)}", sub.depth + 1, sub.size, sub.align, nominal=True, sub=sub, shape=f"distinct {sub.shape}")

    def mk_struct(self, members, rng):
        off, offs, align = 0, [], 1
        for _, t in members:
            off = rup(off, t.align)
            offs.append(off)
            off += t.size
            align = max(align, t.align)
        body = ", ".join(f"{n}: {t.ref(rng)}" for n, t in members)
        return Ty(K_STRUCT, self.nkey(), f"struct {{ {body} }}", max([t.depth for _, t in members] + [0]) + 1, off, align, nominal=True,
                  members=members, offsets=offs, shape="struct{" + ",".join(f"{n}:{t.shape}" for n, t in members) + "}")

    def mk_enum(self, variants, rng):
        """variants: [(name, payload Ty or None, explicit discriminant or None)]"""
        tag = max([p.size for _, p, _ in variants if p is not None] + [0])
        align = max([p.align for _, p, _ in variants if p is not None] + [1])
        parts = []
        for n, p, d in variants:
            s = n if p is None else f"{n}: {p.ref(rng)}"
            if d is not None:
                s += f" | {d}"
            parts.append(s)
        e = Ty(K_ENUM, self.nkey(), "enum { " + ", ".join(parts) + " }", max([p.depth for _, p, _ in variants if p is not None] + [0]) + 1, tag + 1, align, nominal=True,
               variants=variants, tag=tag,
               shape="enum{" + ",".join(f"{n}:{p.shape if p is not None else ''}|{'x' if d is not None else ''}" for n, p, d in variants) + "}")
        return e

    # ---- one random generated type
    def random_type(self, depth):
        rng = self.rng
        cd = depth - 1
        kind = rng.weighted([("array", 4), ("slice", 2), ("ptr", 4), ("opt", 4), ("eu", 3), ("distinct", 4), ("struct", 6), ("enum", 6), ("fn", 2)])
        first = [True]

        def child(exclude=None):
            wd = first[0] and cd > 0
            first[0] = False
            return self.pick_child(cd, want_deep=wd, exclude=exclude)
        if kind == "array":
            return self.mk_array(rng.pick([0, 1, 2, 2, 3, 3, 4, 5]), child(), rng)
        if kind == "slice":
            return self.mk_slice(child(), rng)
        if kind == "ptr":
            return self.mk_ptr(rng.chance(1, 2), child(), rng)
        if kind == "opt":
            return self.mk_opt(child(), rng)
        if kind == "eu":
            err = child()
            ok = self.pick_child(cd, exclude=lambda t: similar(t, err))
            if similar(ok, err):
                return None
            if rng.chance(1, 2):
                err, ok = ok, err
            return self.mk_eu(err, ok, rng)
        if kind == "distinct":
            return self.mk_distinct(child(), rng)
        if kind == "fn":
            params = [child() for _ in range(rng.range(0, 3))]
            return self.mk_fn(params, child(), rng)
        if kind == "struct":
            n = rng.weighted([(0, 1), (1, 3), (2, 6), (3, 6), (4, 6)])
            names = rng.sample(["a", "b", "c", "d", "x", "y", "len", "next", "f0", "f1", "data", "k"], n)
            return self.mk_struct([(nm, child()) for nm in names], rng)
        n = rng.range(1, 4)
        names = rng.sample(["A", "B", "C", "D", "Ok", "Err", "None_", "Some", "V0", "V1"], n)
        mode = rng.weighted([("explicit", 2), ("implicit", 1), ("mixed", 1)])
        if mode == "mixed":
            # explicit values far apart and above every index, so that whatever numbering the implicit ones get cannot collide with them
            discs = [40 * (i + 1) + rng.below(8) for i in range(n)]
        else:
            discs = rng.sample(list(range(0, 256)), n)
            if rng.chance(1, 3):
                discs = sorted(discs)
        vs = []
        for i, nm in enumerate(names):
            p = child() if rng.chance(3, 5) else None
            d = discs[i] if mode == "explicit" or (mode == "mixed" and rng.chance(1, 2)) else None
            vs.append((nm, p, d))
        return self.mk_enum(vs, rng)

    def twin(self, t):
        """a second declaration with the same structure (nominal -> a different type; structural -> the same type)"""
        rng = self.rng
        if t.kind == K_STRUCT:
            return self.mk_struct(list(t.members), rng)
        if t.kind == K_ENUM:
            return self.mk_enum(list(t.variants), rng)
        if t.kind == K_DISTINCT:
            return self.mk_distinct(t.sub, rng)
        if t.kind == K_ARRAY:
            return self.mk_array(t.len, t.sub, rng)
        if t.kind == K_SLICE:
            return self.mk_slice(t.sub, rng)
        if t.kind == K_PTR:
            return self.mk_ptr(t.mutable, t.sub, rng)
        if t.kind == K_OPT:
            return self.mk_opt(t.sub, rng)
        if t.kind == K_EU:
            return self.mk_eu(t.err, t.ok, rng)
        if t.kind == K_FN:
            return self.mk_fn(list(t.params), t.ret, rng)
        return None

    def near_twin(self, t):
        """same structure with one detail changed (a different type in every case)"""
        rng = self.rng
        if t.kind == K_PTR:
            return self.mk_ptr(not t.mutable, t.sub, rng)
        if t.kind == K_ARRAY:
            return self.mk_array(t.len + 1, t.sub, rng)
        if t.kind == K_STRUCT and t.members:
            ms = list(t.members)
            if len(ms) >= 2 and rng.chance(1, 2):
                i = rng.below(len(ms) - 1)
                ms[i], ms[i + 1] = ms[i + 1], ms[i]           # same members, different order
            else:
                i = rng.below(len(ms))
                ms[i] = (ms[i][0] + "_", ms[i][1])              # same types, one different name
            return self.mk_struct(ms, rng)
        if t.kind == K_ENUM and len(t.variants) >= 2:
            vs = list(t.variants)
            i = rng.below(len(vs) - 1)
            vs[i], vs[i + 1] = (vs[i + 1][0], vs[i + 1][1], vs[i][2]), (vs[i][0], vs[i][1], vs[i + 1][2])   # variants swapped, discriminant positions kept
            return self.mk_enum(vs, rng)
        return None

    def declare(self, t):
        t.reserved = True          # only the nest group itself refers to its types, so nothing else gives them a type id earlier
        t.name = f"T{len(self.gen)}"
        self.gen.append(t)
        self.decls.append(f"{t.name} :: {t.text};")
        return t

    def add_nests(self):
        """enums whose payload contains another enum: directly, through a struct member, an array element, an optional. The inner enum has small
        payloads and 2..4 variants, the outer one a different variant count and one large payload next to the nesting one, so that size, stride,
        variant list and tag offset of the two all differ (rows of the two exchanged in the reflection tables cannot go unnoticed)"""
        rng = self.rng
        self.nests = []
        vias = ["direct", "struct", "array", "optional"]
        rng.shuffle(vias)
        small = [None, None, "u8", "i16", "bool", "char", "u32", "f32"]
        big = ["u64", "f64", "i128", "str", "u128", "any"]
        inames = ["Red", "Green", "Blue", "Up", "Down", "Left", "Right", "Lo", "Hi"]
        onames = ["Leaf", "Node", "Wrap", "Pair", "Many", "Zero", "Big", "Rest"]

        def discs(n):
            mode = rng.weighted([("explicit", 2), ("implicit", 2)])
            if mode == "implicit":
                return [None] * n
            return rng.sample(list(range(0, 256)), n)
        for via in vias:
            n_in = rng.range(2, 4)
            ds = discs(n_in)
            vs = []
            for i, nm in enumerate(rng.sample(inames, n_in)):
                pn = rng.pick(small)
                vs.append((nm, self.use(self.prims[pn]) if pn else None, ds[i]))
            inner = self.declare(self.mk_enum(vs, rng))
            if via == "direct":
                mid = inner
            elif via == "struct":
                ms = [("e", inner), ("n", self.use(self.prims[rng.pick(["u8", "i32", "u16", "i64"])]))]
                if rng.chance(1, 2):
                    ms.reverse()
                mid = self.declare(self.mk_struct(ms, rng))
            elif via == "array":
                mid = self.declare(self.mk_array(rng.range(1, 3), inner, rng))
            else:
                mid = self.declare(self.mk_opt(inner, rng))
            n_out = rng.pick([n for n in (1, 2, 3, 4) if n != n_in])
            ds = discs(n_out)
            names = rng.sample(onames, n_out)
            at = rng.below(n_out)
            vs = []
            for i, nm in enumerate(names):
                if i == at:
                    pay = mid
                elif i == (at + 1) % n_out:
                    pay = self.use(self.prims[rng.pick(big)])           # a payload larger than the inner enum's largest
                else:
                    pn = rng.pick(small)
                    pay = self.use(self.prims[pn]) if pn else None
                vs.append((nm, pay, ds[i]))
            outer = self.declare(self.mk_enum(vs, rng))
            self.nests.append({"via": via, "inner": inner, "outer": outer})

    def build(self, ntypes, nest=False, order="decl"):
        rng = self.rng
        n1 = max(3, ntypes * 2 // 5)
        guard = 0
        self.nests = []
        for n in self.force_prims:          # every primitive is a table entry of some program of a run
            self.use(self.prims[n])
        if nest:
            self.add_nests()
            n1 = len(self.gen) + 3
        while len(self.gen) < ntypes and guard < 400:
            guard += 1
            i = len(self.gen)
            made = [t for t in self.gen_types() if not getattr(t, "reserved", False)]
            r = rng.below(100)
            t = None
            if made and r < 7:
                tgt = self.use(self.prims[rng.pick(PRIM_NAMES)]) if rng.chance(1, 3) else rng.pick(made)
                name = f"T{i}"
                self.gen.append(("alias", name, tgt))
                self.decls.append(f"{name} :: {tgt.name or tgt.text};")
                continue
            if made and r < 22:
                t = self.twin(rng.pick(made))
            elif made and r < 32:
                t = self.near_twin(rng.pick(made))
            if t is None:
                t = self.random_type(1 if i < n1 else 2)
            if t is None or t.size > MAX_SIZE or t.depth > 2:
                continue
            t.name = f"T{i}"
            self.gen.append(t)
            self.decls.append(f"{t.name} :: {t.text};")
        # children that are primitives are table entries too
        for t in self.gen_types():
            for c in children(t):
                self.use(c)
        for must in ("i64", "u64"):
            if must not in self.used_prims:
                self.used_prims.append(must)
        # table: generated types (by name; structural ones sometimes re-written inline), aliases, primitives, variant types.
        # The order of the table is the order in which the compiler first meets the types as values (the comptime block and every function go through
        # `table()` / rows in table order): declaration order (components first), reversed (a composite before its components) or shuffled
        listed = list(self.gen)
        if order == "reverse":
            listed.reverse()
        elif order == "shuffle":
            rng.shuffle(listed)
            self.decls = rng.shuffle(list(self.decls))          # global declarations may come in any order
        self.order = order
        for g in listed:
            if isinstance(g, Ty):
                tref = g.name if (g.nominal or g.kind == K_FN or rng.chance(2, 3)) else par(g.text)
                self.entries.append({"ty": g, "tref": tref, "vref": tref, "label": g.name, "generated": True})
            else:
                _, name, tgt = g
                self.entries.append({"ty": tgt, "tref": name, "vref": name, "label": f"{name} (alias of {tgt.name or tgt.text})", "generated": True})
        for n in self.used_prims:
            self.entries.append({"ty": self.prims[n], "tref": n, "vref": n, "label": n, "generated": False})
        for g in self.gen_types():
            if g.kind == K_ENUM:
                g.vtys = []
                for (vn, p, d) in g.variants:
                    sub = p if p is not None else self.prims["void"]
                    v = Ty(K_VARIANT, f"{g.key}.{vn}", f"{g.name}.{vn}", g.depth, sub.size, sub.align, nominal=True, sub=sub, enum=g, vname=vn, disc=d, unit=p is None,
                           shape=f"variant({sub.shape})")
                    g.vtys.append(v)
                    if len(self.entries) < 120:
                        # a zero-sized variant used as a `type` value without the cast panics the compiler (pinned: kf/C18_unit_variant_as_type.capy)
                        vref = f"type.({v.text})" if (sub.size == 0 or rng.chance(1, 2)) else v.text
                        self.entries.append({"ty": v, "tref": v.text, "vref": vref, "label": v.text, "generated": False})
        if "void" not in self.used_prims and any(g.kind == K_ENUM and any(p is None for _, p, _ in g.variants) for g in self.gen_types()):
            self.used_prims.append("void")
            self.entries.append({"ty": self.prims["void"], "tref": "void", "vref": "void", "label": "void", "generated": False})
        for k, e in enumerate(self.entries):
            e["k"] = k
        pos = {}
        for e in self.entries:
            pos.setdefault(id(e["ty"]), e["k"])
        for n in self.nests:
            n["outer_first"] = pos[id(n["outer"])] < pos[id(n["inner"])]
        return self


def children(t):
    if t.kind in (K_ARRAY, K_SLICE, K_PTR, K_OPT, K_DISTINCT, K_VARIANT):
        return [t.sub]
    if t.kind == K_EU:
        return [t.err, t.ok]
    if t.kind == K_FN:
        return list(t.params) + [t.ret]
    if t.kind == K_STRUCT:
        return [m for _, m in t.members]
    if t.kind == K_ENUM:
        return [p for _, p, _ in t.variants if p is not None]
    return []


def family(t):
    """coarse class used to keep the two sides of an error union apart (capy rejects `E!T` when one converts to the other)"""
    u = t
    while u.kind == K_DISTINCT:
        u = u.sub
    if u.kind in (K_INT, K_FLOAT):
        return "num"
    if u.kind in (K_PTR, K_RAWPTR):
        return "ptr"
    if u.kind in (K_ARRAY, K_SLICE):
        return "seq"
    return f"{u.kind}:{u.key}"


def similar(a, b):
    if a.key == b.key:
        return True
    while a.kind == K_DISTINCT:
        a = a.sub
    while b.kind == K_DISTINCT:
        b = b.sub
    if a.key == b.key:
        return True
    if K_ANY in (a.kind, b.kind) or K_OPT in (a.kind, b.kind) or K_EU in (a.kind, b.kind):
        return True
    if a.kind == K_VOID or b.kind == K_VOID:
        return True
    # a variant converts to its enum, a distinct does not convert; pointers convert to rawptr, arrays to slices
    return family(a) == family(b)


# --------------------------------------------------------------------------- program text

def capy_hash(s):
    h = 7
    for ch in s.encode():
        h = (h * 31 + ch) % 1000000007
    return h * 100 + len(s)


FIXED = """core :: #mod("core");
meta :: core.meta;
ptr :: core.ptr;
vr_u64 :: (id: i64, v: u64) extern;
vr_bool :: (id: i64, v: bool) extern;
vr_bytes :: (id: i64, p: rawptr, len: u64) extern;

NT : usize : @NT@;
NB : usize : @NB@;
ZB :: [@ZBW@]u64;
Buf :: struct { n: usize, d: [NB]u64 };
put :: (b: ^mut Buf, v: u64) { b.d[b.n] = v; b.n += 1; }
hash :: (s: str) -> u64 {
    p := ^char.(s);
    h : u64 = 7;
    i : usize = 0;
    loop {
        c := ptr.read(p, i);
        if c == 0 { break; }
        h = (h * 31 + u64.(c)) % 1000000007;
        i += 1;
    }
    h * 100 + u64.(i)
}
mask :: (ty: type, tys: ^[NT]type, base: usize) -> u64 {
    m : u64 = 0;
    j : usize = 0;
    while j < 64 {
        if base + j < NT {
            if tys[base + j] == ty { m = m | (1 << u64.(j)); }
        }
        j += 1;
    }
    m
}
cls :: (b: ^mut Buf, ty: type, tys: ^[NT]type) {
    put(b, mask(ty, tys, 0));
    put(b, mask(ty, tys, 64));
}
describe :: (b: ^mut Buf, ty: type, tys: ^[NT]type) {
    put(b, 0xABCD);
    cls(b, ty, tys);
    put(b, u64.(meta.size_of(ty)));
    put(b, u64.(meta.align_of(ty)));
    put(b, u64.(meta.stride_of(ty)));
    switch info in meta.get_type_info(ty) {
        .Int => { put(b, 2); put(b, u64.(info.bit_width)); put(b, u64.(info.signed)); },
        .Float => { put(b, 3); put(b, u64.(info.bit_width)); },
        .Bool => put(b, 4),
        .String => put(b, 5),
        .Char => put(b, 6),
        .Array => { put(b, 18); put(b, u64.(info.len)); cls(b, info.sub_ty, tys); },
        .Slice => { put(b, 19); cls(b, info.sub_ty, tys); },
        .Pointer => { put(b, 20); put(b, u64.(info.mutable)); cls(b, info.sub_ty, tys); },
        .Distinct => { put(b, 17); cls(b, info.sub_ty, tys); },
        .Struct => {
            put(b, 16);
            put(b, u64.(info.members.len));
            i : usize = 0;
            while i < info.members.len {
                m := info.members[i];
                put(b, hash(m.name));
                put(b, u64.(m.offset));
                cls(b, m.ty, tys);
                i += 1;
            }
        },
        .Enum => {
            put(b, 22);
            put(b, u64.(info.discriminant_offset));
            put(b, u64.(info.variants.len));
            i : usize = 0;
            while i < info.variants.len {
                cls(b, info.variants[i], tys);
                i += 1;
            }
        },
        .Variant => { put(b, 23); put(b, u64.(info.discriminant)); cls(b, info.sub_ty, tys); },
        .Nil => put(b, 12),
        .Optional => { put(b, 24); put(b, u64.(info.is_non_zero)); put(b, u64.(info.discriminant_offset)); cls(b, info.sub_ty, tys); },
        .Error_Union => { put(b, 25); put(b, u64.(info.discriminant_offset)); cls(b, info.error_ty, tys); cls(b, info.payload_ty, tys); },
        .Function => put(b, 21),
        .File => put(b, 9),
        .Meta_Type => put(b, 7),
        .Any => put(b, 8),
        .Raw_Ptr => { put(b, 10); put(b, u64.(info.mutable)); },
        .Raw_Slice => put(b, 11),
        .Void => put(b, 1),
    }
}
describe_all :: () -> Buf {
    b : Buf;
    b.n = 0;
    tys := table();
    i : usize = 0;
    while i < NT {
        describe(^mut b, tys[i], ^tys);
        i += 1;
    }
    b
}
dump :: (id: i64, b: ^Buf) {
    i : usize = 0;
    while i < b.n {
        vr_u64(id, b.d[i]);
        i += 1;
    }
}
clr :: (b: ^mut ZB) { i : usize = 0; while i < @ZBW@ { b[i] = 0; i += 1; } }
ones :: (b: ^mut ZB) { i : usize = 0; while i < @ZBW@ { b[i] = 0xFFFFFFFFFFFFFFFF; i += 1; } }
dist :: (a: rawptr, b: rawptr) -> u64 { u64.(ptr.to_raw(a)) - u64.(ptr.to_raw(b)) }
anyty :: (a: any) -> type { a.ty }
anyty_var :: (vs: ...any) -> type { vs[vs.len - 1].ty }
"""


def zero_val(t, tref):
    """an expression of type t whose bytes are all zero (read from zeroed memory where a load is possible)"""
    if t.kind == K_VOID:
        return "{}"
    if t.scalar_zst():
        if t.kind == K_VARIANT:
            return t.text if t.unit else f"{t.text}.({zero_val(t.sub, t.sub.ref())})"
        return f"{tref}.({zero_val(t.sub, t.sub.ref())})"       # distinct of a zero-sized scalar
    return f"(^{par(tref)}.(rawptr.(zero)))^"


def par(tref):
    """type text usable as an operand of a type constructor / directly after `^` in a cast"""
    if not (tref.startswith("(") and tref.endswith(")") and tref.count("(") == 1) and ("!" in tref or " " in tref or tref.startswith("(")):
        return f"({tref})"
    return tref


def atom(tref):
    """operand of `!`: prefix type operators bind looser than `!` (`[]str!T` is `[](str!T)`)"""
    if tref.replace("_", "").replace(".", "").isalnum() or (tref.startswith("(") and tref.endswith(")") and tref.count("(") == 1):
        return tref
    return f"({tref})"


def ID(k, slot):
    return 100000 + k * 100 + slot


def measure_block(p, e):
    """capy statements measuring entry e (inside a function with zero: ^ZB, buf: ^mut ZB, tys: ^[NT]type)"""
    t, X, k = e["ty"], e["tref"], e["k"]
    XP = par(X)
    L = []
    e["slots"] = {}
    if t.addressable():
        L += ["{", "    clr(buf);", f"    w := ^mut W{k}.(mut rawptr.(buf));",
              f"    vr_u64({ID(k, 0)}, dist(^w.x, w));", f"    vr_u64({ID(k, 1)}, dist(^w.post, w));",
              f"    q := ^mut [2]{X}.(mut rawptr.(buf));", f"    vr_u64({ID(k, 2)}, dist(^q[1], ^q[0]));", "}"]
        e["slots"]["wrapper"] = True
    if t.kind == K_STRUCT and t.size > 0:
        L += ["{", f"    s := ^mut {XP}.(mut rawptr.(buf));"]
        for f, (nm, mt) in enumerate(t.members):
            if mt.addressable():
                L.append(f"    vr_u64({ID(k, 10 + f)}, dist(^s.{nm}, s));")
        L.append("}")
    if t.kind == K_ARRAY:
        L += ["{", f"    a := ^mut {XP}.(mut rawptr.(buf));", f"    vr_u64({ID(k, 3)}, u64.(a.len));"]
        if t.len >= 2 and t.sub.addressable():
            L.append(f"    vr_u64({ID(k, 4)}, dist(^a[1], ^a[0]));")
        L += [f"    sl : []{t.sub.ref()} = a^;", f"    vr_u64({ID(k, 6)}, u64.(sl.len));", "}"]
    if t.kind == K_INT:
        L += ["{", "    ones(buf);", f"    s := ^mut {XP}.(mut rawptr.(buf));", f"    vr_bool({ID(k, 5)}, s^ < 0);", "}"]
    dumps = []
    if t.kind == K_ENUM:
        for v, vt in enumerate(t.vtys):
            dumps.append((v, zero_val(vt, vt.text)))
    elif t.kind == K_OPT:
        dumps.append((0, "nil"))
        if t.tag is not None and t.sub.under().kind != K_OPT:
            # (a `?T` value stored into a `??T` place: which level becomes nil is not this property's business)
            dumps.append((1, zero_val(t.sub, t.sub.ref())))
    elif t.kind == K_EU:
        dumps.append((0, zero_val(t.err, t.err.ref())))
        dumps.append((1, zero_val(t.ok, t.ok.ref())))
    if dumps:
        L += ["{", f"    s := ^mut {XP}.(mut rawptr.(buf));"]
        for v, val in dumps:
            L += ["    clr(buf);", f"    s^ = {val};", f"    vr_bytes({ID(k, 20 + v)}, s, {max(t.stride, 1) + 8});"]
        L.append("}")
    # any
    if t.under().kind != K_ANY:
        L += ["{", f"    v := {zero_val(t, X)};", "    a : any = v;",
              f"    vr_u64({ID(k, 30)}, mask(a.ty, tys, 0));", f"    vr_u64({ID(k, 31)}, mask(a.ty, tys, 64));",
              f"    vr_u64({ID(k, 32)}, mask(anyty(v), tys, 0));", f"    vr_u64({ID(k, 33)}, mask(anyty(v), tys, 64));",
              f"    vr_u64({ID(k, 34)}, mask(anyty_var(1, true, v), tys, 0));", f"    vr_u64({ID(k, 35)}, mask(anyty_var(1, true, v), tys, 64));",
              f"    vr_u64({ID(k, 38)}, u64.(meta.size_of(a.ty)));"]
        if t.kind == K_INT and t.extra[0] < 64 and t.key not in ("isize", "usize"):
            wide = "i64" if t.extra[1] else "u64"
            L += [f"    wd : {wide} = v;", "    aw : any = wd;", f"    vr_u64({ID(k, 36)}, mask(aw.ty, tys, 0));", f"    vr_u64({ID(k, 37)}, mask(aw.ty, tys, 64));"]
            e["slots"]["widen"] = wide
        if t.kind in (K_INT, K_FLOAT):
            L += [f"    ac : any = {XP}.(1);", f"    vr_u64({ID(k, 42)}, mask(ac.ty, tys, 0));", f"    vr_u64({ID(k, 43)}, mask(ac.ty, tys, 64));"]
            e["slots"]["cast"] = True
        L.append("}")
        e["slots"]["any"] = True
    return [p + s for s in L]


def program_text(P):
    ents = P.entries
    nt = len(ents)
    nb = 30 * nt + 64
    src = [FIXED.replace("@NT@", str(nt)).replace("@NB@", str(nb)).replace("@ZBW@", str(ZB_WORDS))]
    src += P.decls
    for e in ents:
        if e["ty"].addressable():
            src.append(f"W{e['k']} :: struct {{ pre: u8, x: {e['tref']}, post: u8 }};")
    src.append("table :: () -> [NT]type {\n    type.[" + ", ".join(e["vref"] for e in ents) + "]\n}")
    # every function that mentions type values starts by mentioning all of them in table order, so that the order in which the compiler first meets
    # the types does not depend on the order in which it compiles the functions
    ORD = "    ord := type.[" + ", ".join(e["vref"] for e in ents) + "];\n    sink(^ord);"
    src.append("sink :: (p: ^[NT]type) {}")
    chunks = [ents[i:i + 6] for i in range(0, nt, 6)]
    for ci, ch in enumerate(chunks):
        src.append(f"m{ci} :: (zero: ^ZB, buf: ^mut ZB, tys: ^[NT]type) {{")
        src.append(ORD)
        for e in ch:
            src += measure_block("    ", e)
        src.append("}")
    # literal equality rows: generated entries against every entry
    rows = [e for e in ents if e["generated"]]
    for ci in range(0, len(rows), 6):
        src.append(f"q{ci // 6} :: () {{")
        src.append(ORD)
        for e in rows[ci:ci + 6]:
            for base, slot in ((0, 40), (64, 41)):
                terms = [f"(u64.({e['vref']} == {o['vref']}) << {o['k'] - base})" for o in ents[base:base + 64]]
                if terms:
                    src.append(f"    vr_u64({ID(e['k'], slot)}, " + " | ".join(terms) + ");")
        src.append("}")
    src.append("main :: () -> i32 {")
    src.append(ORD)
    src += ["    rt := describe_all();", "    dump(1, ^rt);", "    CT :: comptime { describe_all() };", "    ct := CT;", "    dump(2, ^ct);",
            "    zero : ZB;", "    buf : ZB;", "    clr(^mut zero);", "    tys := table();"]
    for ci in range(len(chunks)):
        src.append(f"    m{ci}(^zero, ^mut buf, ^tys);")
    for ci in range(0, len(rows), 6):
        src.append(f"    q{ci // 6}();")
    src += ["    vr_u64(3, 12345);", "    0", "}"]
    return "\n".join(src) + "\n"


def make_case(seed, idx, ntypes=NTYPES):
    rng = C.Rng(seed, 1800 + idx)
    # every 4th program carries the nested-enum groups; the table order cycles through declaration order / reversed / shuffled
    P = Prog(rng, force_prims=[PRIM_NAMES[(idx * 3 + j) % len(PRIM_NAMES)] for j in range(3)]).build(
        ntypes, nest=(idx % 4 == 1), order=("decl", "reverse", "shuffle")[idx % 3])
    return P, program_text(P)


# --------------------------------------------------------------------------- oracle

class Stream:
    def __init__(self, vals):
        self.v, self.i = vals, 0

    def take(self, n=1):
        if self.i + n > len(self.v):
            raise IndexError("reflection stream too short")
        r = self.v[self.i:self.i + n]
        self.i += n
        return r[0] if n == 1 else r

    def mask(self):
        lo, hi = self.take(2)
        return lo | (hi << 64)


def parse_stream(vals, nt):
    """-> list (per table entry) of dicts as printed by `describe`"""
    s = Stream(vals)
    out = []
    for _ in range(nt):
        if s.take() != 0xABCD:
            raise IndexError("reflection stream out of step")
        d = {"self": s.mask(), "size": s.take(), "align": s.take(), "stride": s.take(), "kind": s.take()}
        k = d["kind"]
        if k == K_INT:
            d["bits"], d["signed"] = s.take(2)
        elif k == K_FLOAT:
            d["bits"] = s.take()
        elif k == K_ARRAY:
            d["len"] = s.take()
            d["sub"] = s.mask()
        elif k in (K_SLICE, K_DISTINCT):
            d["sub"] = s.mask()
        elif k == K_PTR:
            d["mutable"] = s.take()
            d["sub"] = s.mask()
        elif k == K_STRUCT:
            n = s.take()
            if n > 64:
                raise IndexError(f"struct with {n} members reported")
            d["members"] = []
            for _ in range(n):
                h, off = s.take(2)
                d["members"].append({"hash": h, "offset": off, "ty": s.mask()})
        elif k == K_ENUM:
            d["tag"] = s.take()
            n = s.take()
            if n > 64:
                raise IndexError(f"enum with {n} variants reported")
            d["variants"] = [s.mask() for _ in range(n)]
        elif k == K_VARIANT:
            d["disc"] = s.take()
            d["sub"] = s.mask()
        elif k == K_OPT:
            d["non_zero"], d["tag"] = s.take(2)
            d["sub"] = s.mask()
        elif k == K_EU:
            d["tag"] = s.take()
            d["err"] = s.mask()
            d["ok"] = s.mask()
        elif k == K_RAWPTR:
            d["mutable"] = s.take()
        out.append(d)
    if s.i != len(vals):
        raise IndexError("reflection stream has trailing values")
    return out


def bits(m):
    return [i for i in range(128) if (m >> i) & 1]


class Judge:
    def __init__(self, P):
        self.P = P
        self.ents = P.entries
        self.viol = []        # (key, sig, what)
        self.cnt = {}
        self.keymask = {}
        for e in self.ents:
            self.keymask.setdefault(e["ty"].key, 0)
            self.keymask[e["ty"].key] |= 1 << e["k"]

    def bump(self, name, n=1):
        self.cnt[name] = self.cnt.get(name, 0) + n

    def bad(self, key, sig, what):
        self.viol.append((key, sig, what))

    def cls_of(self, t):
        """expected equality mask of type t against the table (0 when the type has no table entry)"""
        return self.keymask.get(t.key, 0)

    def check_mask(self, got, t, where, label, key="type_eq", cat=None):
        """got: mask of table entries that compared equal to a type value that must denote t"""
        want = self.cls_of(t)
        self.bump("type_values_compared", len(self.ents))
        if got == want:
            return True
        extra, missing = got & ~want, want & ~got
        # the word-sized integers: a separate, stable signature
        if not missing and extra and t.key in ("isize", "i64", "usize", "u64"):
            ek = {self.ents[j]["ty"].key for j in bits(extra)}
            if all((t.key, o) in WORD_TWINS for o in ek):
                a, b = sorted([t.key, ek.pop()], key=lambda s: (len(s), s))
                self.bad("type_eq_word_int", f"type_eq|{b}=={a}", f"{where} of {label}: the type value of `{t.key}` compares equal to the different type `{'/'.join(sorted({self.ents[j]['label'] for j in bits(extra)}))}`")
                return False
        kinds = sorted({KNAME[self.ents[j]["ty"].kind] for j in bits(extra | missing)})
        what = []
        if extra:
            what.append("equal to the different type(s) " + ", ".join(self.ents[j]["label"] for j in bits(extra)[:4]))
        if missing:
            what.append("not equal to the same type written as " + ", ".join(self.ents[j]["label"] for j in bits(missing)[:4]))
        self.bad(key, f"{key}|{cat or where}|{KNAME[t.kind]}~{'+'.join(kinds)}|{'equal to a different type' if extra else ''}{'/' if extra and missing else ''}{'unequal to the same type' if missing else ''}",
                 f"{where} of {label} (`{t.text}`): compares " + " and ".join(what))
        return False

    # ---- reflection of one entry (phase = runtime / comptime)
    def reflect(self, e, d, phase, meas):
        t, lab = e["ty"], f"{e['label']} = `{e['ty'].text}`"
        kn = KNAME[t.kind]
        pre = f"{phase} reflection of {lab}"

        def decl(field, got, want):
            self.bump("declared_facts_compared")
            if got != want:
                self.bad("reflect_vs_declaration", f"reflect_vs_declaration|{kn}|{field}", f"{pre}: {field} is {got}, the declaration says {want}")

        def layout(field, got, m, ex):
            """got: reflected; m: measured (None if not measurable); ex: computed from the C17 rules"""
            if m is not None:
                self.bump("layout_numbers_vs_measured")
                if got != m:
                    self.bad("reflect_vs_measured", f"reflect_vs_measured|{kn}|{field}", f"{pre}: {field} is {got}, the generated code uses {m} (C17 rules give {ex})")
                elif got != ex:
                    self.bump("rule_disagrees_with_reflection_and_measurement")
            else:
                self.bump("layout_numbers_vs_rule_only")
                if got != ex:
                    self.bad("reflect_vs_rule", f"reflect_vs_rule|{kn}|{field}", f"{pre}: {field} is {got}, not measurable here, the C17 rules give {ex}")

        self.check_mask(d["self"], t, f"{phase} table equality", lab, cat="table")
        if d["kind"] != t.kind:
            self.bad("reflect_vs_declaration", f"reflect_vs_declaration|{kn}|kind", f"{pre}: get_type_info says {KNAME.get(d['kind'], d['kind'])}")
            return
        k = e["k"]
        m_align = m_size = m_stride = None
        if t.addressable() and meas.get((k, 0)) is not None:
            ox, op, st = meas.get((k, 0)), meas.get((k, 1)), meas.get((k, 2))
            m_align, m_size, m_stride = ox, (op - ox if op is not None else None), st
        layout("size", d["size"], m_size, t.size)
        # offset of x after one u8 is the alignment for every alignment >= 1
        layout("align", d["align"], m_align, t.align)
        layout("stride", d["stride"], m_stride, t.stride)
        if t.kind == K_INT:
            decl("bit_width", d["bits"], t.extra[0])
            decl("signed", d["signed"], t.extra[1])
            sg = meas.get((k, 5))
            if sg is not None:
                self.bump("sign_measured")
                if int(sg) != d["signed"]:
                    self.bad("reflect_vs_measured", "reflect_vs_measured|int|signed", f"{pre}: signed={d['signed']} but an all-ones value compares {'<' if int(sg) else '>='} 0")
        elif t.kind == K_FLOAT:
            decl("bit_width", d["bits"], t.extra[0])
        elif t.kind == K_RAWPTR:
            decl("mutable", d["mutable"], t.extra[0])
        elif t.kind == K_ARRAY:
            decl("len", d["len"], t.len)
            for slot, nm in ((3, ".len of a value"), (6, ".len after conversion to a slice")):
                if meas.get((k, slot)) is not None:
                    self.bump("array_len_measured")
                    if meas[(k, slot)] != d["len"]:
                        self.bad("reflect_vs_measured", "reflect_vs_measured|array|len", f"{pre}: len is {d['len']}, {nm} is {meas[(k, slot)]}")
            self.check_mask(d["sub"], t.sub, f"{phase} sub type", lab, key="reflect_sub_type", cat="sub type")
        elif t.kind in (K_SLICE, K_DISTINCT):
            self.check_mask(d["sub"], t.sub, f"{phase} sub type", lab, key="reflect_sub_type", cat="sub type")
        elif t.kind == K_PTR:
            decl("mutable", d["mutable"], int(t.mutable))
            self.check_mask(d["sub"], t.sub, f"{phase} sub type", lab, key="reflect_sub_type", cat="sub type")
        elif t.kind == K_STRUCT:
            decl("member count", len(d["members"]), len(t.members))
            if len(d["members"]) == len(t.members):
                for f, ((nm, mt), dm) in enumerate(zip(t.members, d["members"])):
                    decl("member name", dm["hash"], capy_hash(nm))
                    self.check_mask(dm["ty"], mt, f"{phase} type of member {nm}", lab, key="reflect_sub_type", cat="member type")
                    mo = meas.get((k, 10 + f)) if mt.addressable() else None
                    layout("member offset", dm["offset"], mo, t.offsets[f])
                    if mt.size > 0 and d["size"] < dm["offset"] + mt.size:
                        self.bad("reflect_vs_measured", "reflect_vs_measured|struct|member outside size", f"{pre}: member {nm} at {dm['offset']} (+{mt.size}) ends after size {d['size']}")
        elif t.kind == K_ENUM:
            decl("variant count", len(d["variants"]), len(t.variants))
            if len(d["variants"]) == len(t.variants):
                for vt, dv in zip(t.vtys, d["variants"]):
                    if self.cls_of(vt):
                        self.check_mask(dv, vt, f"{phase} type of variant {vt.vname}", lab, key="reflect_sub_type", cat="variant type")
            self.sum_tag(e, d, phase, meas, [(v, self.variant_disc(vt, phase)) for v, vt in enumerate(t.vtys)])
        elif t.kind == K_VARIANT:
            if t.disc is not None:
                decl("discriminant", d["disc"], t.disc)
            self.check_mask(d["sub"], t.sub, f"{phase} sub type", lab, key="reflect_sub_type", cat="sub type")
        elif t.kind == K_OPT:
            self.check_mask(d["sub"], t.sub, f"{phase} sub type", lab, key="reflect_sub_type", cat="sub type")
            if t.sub.pointer_like():
                decl("is_non_zero", d["non_zero"], 1)
            elif t.sub.under().kind not in (K_PTR, K_RAWPTR, K_FN):
                decl("is_non_zero", d["non_zero"], 0)
            if d["non_zero"]:
                nil = meas.get((k, 20))
                if nil is not None:
                    self.bump("nil_pointer_dumps")
                    if any(nil[:d["size"]]):
                        self.bad("reflect_vs_measured", "reflect_vs_measured|optional|nil of non-zero optional", f"{pre}: is_non_zero but nil is stored as {nil[:8].hex()}")
            else:
                self.sum_tag(e, d, phase, meas, [(0, 0), (1, 1)])
        elif t.kind == K_EU:
            self.check_mask(d["err"], t.err, f"{phase} error type", lab, key="reflect_sub_type", cat="error type")
            self.check_mask(d["ok"], t.ok, f"{phase} payload type", lab, key="reflect_sub_type", cat="payload type")
            self.sum_tag(e, d, phase, meas, [(0, 0), (1, 1)])

    def variant_disc(self, vt, phase):
        """the discriminant the variant must have: declared, else what reflection says for the variant type (if it has a table entry)"""
        if vt.disc is not None:
            return vt.disc
        for e in self.ents:
            if e["ty"] is vt:
                d = self.refl[phase][e["k"]]
                if d["kind"] == K_VARIANT:
                    return d["disc"]
        return None

    def sum_tag(self, e, d, phase, meas, discs):
        """discs: [(dump slot, expected tag value or None)]"""
        t, k = e["ty"], e["k"]
        pre = f"{phase} reflection of {e['label']} = `{t.text}`"
        kn = KNAME[t.kind]
        ro = d["tag"]
        dumps = [(v, dv, meas.get((k, 20 + v))) for v, dv in discs]
        dumps = [(v, dv, b) for v, dv, b in dumps if b is not None and dv is not None]
        if not dumps:
            self.bump("layout_numbers_vs_rule_only")
            if ro != t.tag:
                self.bad("reflect_vs_rule", f"reflect_vs_rule|{kn}|tag offset", f"{pre}: discriminant_offset is {ro}, C17 rules give {t.tag}")
            return
        n = min(len(b) for _, _, b in dumps)
        cand = [p for p in range(n) if all(b[p] == dv for _, dv, b in dumps)]
        self.bump("tag_offsets_measured")
        if len({dv for _, dv, _ in dumps}) >= 2 or any(dv for _, dv, _ in dumps):
            if len(cand) == 1:
                self.bump("tag_offset_uniquely_located")
        if ro >= n or ro not in cand:
            shown = "; ".join(f"variant {v} (tag {dv}): {b[:min(n, 40)].hex()}" for v, dv, b in dumps[:4])
            self.bad("reflect_vs_measured", f"reflect_vs_measured|{kn}|tag offset",
                     f"{pre}: discriminant_offset is {ro}, but the stored values hold their discriminants at {cand[:4]} ({shown}); C17 rules give {t.tag}")
        elif ro != t.tag:
            self.bump("rule_disagrees_with_reflection_and_measurement")
        if ro + 1 > d["size"]:
            self.bad("reflect_vs_measured", f"reflect_vs_measured|{kn}|tag outside size", f"{pre}: discriminant_offset {ro} is not inside size {d['size']}")
        if t.kind == K_ENUM:
            ds = [dv for _, dv in discs if dv is not None]
            if len(set(ds)) != len(ds):
                self.bad("reflect_vs_declaration", "reflect_vs_declaration|enum|discriminants not distinct", f"{pre}: variants share a discriminant: {ds}")

    # ---- everything of one program
    def run(self, log):
        ents = self.ents
        nt = len(ents)
        rt = [int(v) for tg, i, v in log if tg == "U" and i == 1]
        ct = [int(v) for tg, i, v in log if tg == "U" and i == 2]
        meas = {}
        for tg, i, v in log:
            if i is None or i < 100000:
                continue
            k, slot = (i - 100000) // 100, (i - 100000) % 100
            if tg == "U":
                meas[(k, slot)] = int(v)
            elif tg == "B":
                meas[(k, slot)] = int(v)
            elif tg == "X":
                meas[(k, slot)] = bytes.fromhex(v.strip())
        self.refl = {"runtime": parse_stream(rt, nt), "comptime": parse_stream(ct, nt)}
        if rt != ct:
            diff = [k for k in range(nt) if self.refl["runtime"][k] != self.refl["comptime"][k]]
            e = ents[diff[0]] if diff else ents[0]
            self.bad("comptime_vs_runtime", f"comptime_vs_runtime|{KNAME[e['ty'].kind]}",
                     f"reflection of {e['label']} = `{e['ty'].text}` differs: runtime {self.refl['runtime'][e['k']]} comptime {self.refl['comptime'][e['k']]}")
        verdicts = 0
        for e in ents:
            for phase in ("runtime", "comptime"):
                self.reflect(e, self.refl[phase][e["k"]], phase, meas)
            t, k = e["ty"], e["k"]
            lab = f"{e['label']} = `{t.text}`"
            if e["generated"]:
                row = meas.get((k, 40))
                if row is not None:
                    row |= (meas.get((k, 41)) or 0) << 64
                    self.check_mask(row, t, "literal `A == B` equality", lab, cat="literal")
                    self.bump("literal_equality_rows")
            if e["slots"].get("any"):
                for nm, lo in (("assignment", 30), ("any parameter", 32), ("variadic any parameter", 34)):
                    if meas.get((k, lo)) is None:
                        self.bad("missing_output", "missing_output|any", f"no output for the any made from {lab}")
                        continue
                    m = meas[(k, lo)] | (meas.get((k, lo + 1), 0) << 64)
                    self.check_mask(m, t, f"type carried by an any ({nm})", lab, key="any_type", cat=nm)
                    self.bump("any_types_checked")
                sz = meas.get((k, 38))
                if sz is not None and sz != self.refl["runtime"][k]["size"]:
                    self.bad("any_type", f"any_type|size|{KNAME[t.kind]}", f"size_of(a.ty) is {sz} for an any made from {lab}, size_of of the type is {self.refl['runtime'][k]['size']}")
                if e["slots"].get("cast") and meas.get((k, 42)) is not None:
                    m = meas[(k, 42)] | (meas.get((k, 43), 0) << 64)
                    self.check_mask(m, t, "type carried by an any made from a cast expression `T.(1)`", lab, key="any_type", cat="cast expression")
                    self.bump("any_types_checked")
                if e["slots"].get("widen"):
                    m = meas.get((k, 36), 0) | (meas.get((k, 37), 0) << 64)
                    self.check_mask(m, self.P.prims[e["slots"]["widen"]], f"type carried by an any made from a {e['slots']['widen']} variable initialised with a {t.key}", lab, key="any_type", cat="after widening")
                    self.bump("any_types_checked")
            verdicts += 1
        return verdicts


# --------------------------------------------------------------------------- execution

def compile_retry(d, files):
    for attempt in range(40):
        try:
            c = R.compile_capy(d, files, cpu_s=60)
        except C.Inconclusive:
            if attempt == 39:
                raise
            time.sleep(1.5)
            continue
        if c.sig in EXTERNAL_SIGNALS and not c.timed_out and attempt < 3:
            continue
        return c


def run_case(arg):
    work, seed, idx, ntypes = arg
    P, text = make_case(seed, idx, ntypes)
    files = {"main.capy": text}
    d = os.path.join(work, f"p{idx}")
    c = compile_retry(d, files)
    r = R.link_and_run(d, c.obj, cpu_s=20) if c.accepted else None
    res = judge_case(P, files, c, r, {"seed": seed, "idx": idx, "ntypes": ntypes})
    shutil.rmtree(d, ignore_errors=True)
    return res


def judge_case(P, files, c, r, gen):
    """-> dict(viol=[...], inconc=str|None, evals, shapes, cnt, sample)"""
    wit = {"files": files, "gen": gen}
    out = {"viol": [], "inconc": None, "evals": 0, "shapes": set(), "cnt": {}, "sample": None}
    name = f"program seed={gen['seed']} idx={gen['idx']}"
    if c.timed_out or c.cpu_exceeded or c.sig in EXTERNAL_SIGNALS:
        out["inconc"] = f"watchdog / killed from outside (signal {c.sig}): {name}"
        return out
    if c.internal_error:
        out["viol"].append({"key": "internal_error", "sig": "internal_error|" + c.panic_sig(), "what": f"internal compiler error for {name}: {c.brief()[:300]}", "witness": wit})
        return out
    if not c.accepted:
        out["inconc"] = f"generated program rejected: {name}: {c.diag_kinds()[:3]} rc={c.rc}"
        return out
    if r is None or r.link_failed or r.timed_out or r.cpu_exceeded:
        out["inconc"] = f"accepted program did not link/run: {name}: {getattr(r, 'link_err', '')[-200:]}"
        return out
    log = R.parse_log(r.out)
    done = any(tg == "U" and i == 3 and v.strip() == "12345" for tg, i, v in log)
    if r.rc != 0 or not done:
        out["viol"].append({"key": "runtime_fault", "sig": "runtime_fault|reflection program", "witness": wit,
                            "what": f"{name}: the reflection program ended with rc={r.rc} sig={r.sig} before its end marker; last output: {r.out[-300:]!r}"})
        return out
    J = Judge(P)
    try:
        verdicts = J.run(log)
    except IndexError as ex:
        out["viol"].append({"key": "reflection_stream", "sig": "reflection_stream|unparsable", "witness": wit,
                            "what": f"{name}: the output of the describe function cannot be parsed ({ex}): reflection returned a kind/count that does not fit any entry"})
        return out
    out["evals"] = verdicts
    out["cnt"] = J.cnt
    for key, sig, what in J.viol:
        out["viol"].append({"key": key, "sig": sig, "what": f"{name}: {what}", "witness": wit})
    J.bump("programs_table_order_" + P.order)
    for n in P.nests:
        J.bump(f"nested_enum_via_{n['via']}_{'outer' if n['outer_first'] else 'inner'}_first")
    for e in P.entries:
        J.bump("entries_" + KNAME[e["ty"].kind])
        if e["ty"].kind >= 16:
            out["shapes"].add((e["ty"].kind, e["ty"].shape))
    e = next((e for e in P.entries if e["ty"].kind in (K_STRUCT, K_ENUM) and e["ty"].depth == 2 and e["ty"].size > 0), None)
    if e is not None:
        k = e["k"]
        decl = [ln for ln in files["main.capy"].splitlines() if ln.startswith("T") and " :: " in ln]
        mine = [f"{tg} {i} {v}" for tg, i, v in log if i is not None and ID(k, 0) <= i < ID(k + 1, 0)]
        out["sample"] = {"program": name, "declarations": decl[:e["k"] + 1][-6:], "type": f"{e['label']} :: {e['ty'].text}",
                         "reflected at run time (kind numbers and fields as printed by the generated describe function)": J.refl["runtime"][k],
                         "reflected in comptime": J.refl["comptime"][k], "output lines of the measurements / equality row / any masks of this type": mine[:24],
                         "table entries": len(P.entries)}
    return out


PINNED = {
    "C18_unit_variant_as_type.capy": "E :: enum { A, B: i32 };\nmain :: () -> i32 {\n    t : type = E.A;\n    0\n}\n",
    "C18_void_deref.capy": "main :: () -> i32 {\n    x : void = {};\n    p := ^x;\n    y := p^;\n    0\n}\n",
}


def pinned(work):
    """internal compiler errors met while writing the generator (the generator writes `type.(E.A)` / `{}` instead): still compiled every run"""
    viol, notes = [], []
    for fn, fallback in PINNED.items():
        path = os.path.join(C.VERIF, "kf", fn)
        text = open(path, encoding="utf-8").read() if os.path.exists(path) else fallback
        c = compile_retry(os.path.join(work, "pinned_" + fn.split(".")[0]), {"main.capy": text})
        if c.internal_error:
            viol.append({"key": "internal_error", "sig": "internal_error|" + c.panic_sig(), "what": f"pinned input kf/{fn}: internal compiler error: {c.brief()[:200]}",
                         "witness": {"files": {"main.capy": text}, "pinned": fn}})
        else:
            notes.append(f"pinned input kf/{fn} no longer ends in an internal error (accepted={c.accepted})")
    return viol, notes


def run(tier, seed):
    t0 = time.time()
    C.build_cli()
    C.build_rt()
    work = C.fresh_dir("C18")
    nprog = 40 if tier == "quick" else 600
    jobs = [(work, seed, i, NTYPES if i % 8 else 12) for i in range(nprog)]
    results = C.pmap(run_case, jobs)
    viol, inconc, shapes, samples, cnt = [], [], set(), [], {"programs": nprog, "programs_judged": 0}
    evals = 0
    for res in results:
        if res["inconc"]:
            inconc.append(res["inconc"])
            continue
        viol += res["viol"]
        evals += res["evals"]
        if res["evals"]:
            cnt["programs_judged"] += 1
        shapes |= res["shapes"]
        for k, v in res["cnt"].items():
            cnt[k] = cnt.get(k, 0) + v
        if res["sample"] and len(samples) < 4:
            samples.append(res["sample"])
    pv, notes = pinned(work)
    viol += pv
    for kn in KNAME.values():
        n = len([1 for k, s in shapes if KNAME[k] == kn])
        if n:
            cnt[f"distinct_shapes_{kn}"] = n
    seen, uniq = set(), []
    for v in viol:
        s = v["key"] + "|" + v["sig"]
        if s not in seen:
            seen.add(s)
            uniq.append(v)
    if len(viol) > len(uniq):
        notes.append(f"{len(viol) - len(uniq)} further violations share a signature with a reported one")
    rep = {"evaluations": evals, "distinct_nontrivial": len(shapes), "violations": uniq, "samples": samples, "counters": cnt, "notes": notes,
           "exhaustive": False, "dropped_violations": len(viol) - len(uniq)}
    # one inconclusive program stands for ~40 entries: scale so that C.finish's 5 % rule is about programs
    inc = []
    for s in inconc:
        inc += [s] * 40
    return C.finish("C18", tier, seed, t0, "exploration", rep, ASSUME, RULE, min_evals=800, inconclusive=inc)


def replay(path):
    w = json.load(open(os.path.join(path, "witness.json")))
    wit = w.get("witness") or {}
    files = wit.get("files")
    if not files:
        print(json.dumps(w, indent=1)[:3000])
        return run("quick", 0)
    C.build_cli()
    C.build_rt()
    work = C.fresh_dir("C18", "replay")
    d = os.path.join(work, "case")
    print(f"recorded: {w.get('key')} [{w.get('sig')}] {str(w.get('what'))[:600]}")
    c = compile_retry(d, files)
    brief = "\n".join(ln for ln in c.brief().splitlines() if not ln.startswith(("split_aggregate", "local not type", "no max")))
    print(f"--- accepted={c.accepted} rejected={c.rejected} internal_error={c.internal_error}\n{brief[:1200]}")
    rc = 0
    if wit.get("pinned") or not wit.get("gen"):
        if c.internal_error:
            print(f"VIOLATION property=C18 replay={path}\n  internal_error: {c.panic_sig()}")
            rc = 1
    else:
        g = wit["gen"]
        P, text = make_case(g["seed"], g["idx"], g["ntypes"])
        if text != files["main.capy"]:
            print("note: the generator no longer produces the recorded program for this (seed, index); the recorded text is judged with the regenerated expectations only if they match")
            shutil.rmtree(work, ignore_errors=True)
            print("INCONCLUSIVE property=C18: cannot rebuild the expectations of the recorded program")
            return 2
        r = R.link_and_run(d, c.obj, cpu_s=20) if c.accepted else None
        res = judge_case(P, files, c, r, g)
        if res["inconc"]:
            print(f"INCONCLUSIVE property=C18: {res['inconc']}")
            rc = 2
        hit = [v for v in res["viol"] if v["sig"] == w.get("sig")] or res["viol"]
        if hit:
            print(f"VIOLATION property=C18 replay={path}")
            for v in hit[:5]:
                print(f"  {v['key']} [{v['sig']}]: {v['what'][:500]}")
            rc = 1
    shutil.rmtree(work, ignore_errors=True)
    if rc == 0:
        print("the recorded violation does not reproduce on the current tree")
    return rc
