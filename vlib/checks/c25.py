"""C25 — line/column.

Part 1 (probe c25): LineIndex::line_col against an independent model, exhaustively over small strings, plus corpus and random texts.
Part 2 (headers, this file): the statement's second sentence.  Erroneous programs (corpus programs with an injected undefined name / stray
token / semantic mutation, re-laid-out with \r\n line ends, tabs, multi-byte comments and leading comment lines) are compiled by
`probe pipeline`, which records for every diagnostic the byte offset where its range starts and the `--> at file:line:col` header that
Diagnostic::display rendered.  The monitor recomputes line/column from the bytes of the file that was compiled and demands
header == (line + 1, col + 1).
"""
import os
import re
import time

from .. import common as C
from .. import pipe as P
from ._probe_check import replay_text

RULE = ("every string of length <= N over {a,\\n,\\r,\\t,é} x every byte offset (exhaustive; N=7 quick, 8 thorough), corpus files and random "
        "multi-line texts x every offset; non-trivial = text with >= 1 newline, distinct = distinct line-length patterns; headers: every diagnostic "
        "rendered for 64 (quick) / 400 (thorough) erroneous programs with \\r\\n, tab and multi-byte layout, header line:col == model(range start) + 1")
ASSUME = ["oracle: line = number of \\n bytes before the offset, column = offset - index after the last such \\n",
          "headers: the probe pipeline renders with Diagnostic::display exactly as crates/capy/src/main.rs does (LineIndex::new over the file's text); "
          "the range start is read from Diagnostic::range(), the function display itself uses"]


# the same differential check interpreted by Miri
MIRI = {"quick": ["--maxlen", "2", "--random", "6", "--files", "1"],
        "thorough": ["--maxlen", "4", "--random", "200", "--files", "10"], "shards": 3, "shard_by_seed": True}


HEADER = re.compile(r"--> at (.*):(\d+):(\d+)\s*$")
STRAY = [")", "}", "@", "$", ";;", "= =", "12ab", "]", "é", "..", "::"]


def model(data, off):
    """line = number of \\n bytes before the offset; col = offset - index after the last such \\n (bytes)"""
    line = data.count(b"\n", 0, off)
    start = data.rfind(b"\n", 0, off) + 1
    return line, off - start


def hostile_text(rng, text, k):
    """an erroneous program whose diagnostics land on lines/columns shifted by \\r\\n, tabs and multi-byte characters"""
    kind = "undefined_line"
    what = rng.below(4)
    if what == 0:
        text, kind = P.semantic_mutant(rng, text)
    elif what == 1 and text:
        p = rng.below(len(text) + 1)
        text = text[:p] + " " + rng.pick(STRAY) + " " + text[p:]
        kind = "stray_token"
    lines = text.split("\n")
    # a line that is an error wherever it lands (undefined name in a body, syntax error at top level)
    for j in range(1 + rng.below(2)):
        at = rng.below(len(lines) + 1)
        indent = rng.pick(["", "\t", "    ", "\t\t ", " \t"])
        lines.insert(at, f"{indent}qq_undef_{k}_{j};")
    out = []
    for _ in range(rng.below(4)):
        out.append(rng.pick(["// é", "//\té\U0001F600 é", "", "\t", "// plain"]))
    for l in lines:
        if rng.chance(1, 6) and '"' not in l:
            l = l + rng.pick([" // é", "\t// \U0001F600", " //é é é"])
        if rng.chance(1, 8) and l.startswith("    "):
            l = "\t" + l[4:]
        out.append(l)
    mode = rng.below(3)  # 0: \n only, 1: all \r\n, 2: mixed
    buf = []
    for i, l in enumerate(out):
        buf.append(l)
        if i + 1 < len(out):
            buf.append("\r\n" if mode == 1 or (mode == 2 and rng.chance(1, 3)) else "\n")
    if rng.chance(1, 2):
        buf.append("\n")
    return "".join(buf), kind, mode


def header_part(tier, seed):
    texts = [t for t in P.programs_with_main(C.corpus_texts()) if len(t) < 12000]
    n = 400 if tier == "thorough" else 64
    pick = C.Rng(seed, 0x2511)
    jobs = []
    for k in range(n):
        r = C.Rng(seed, 0x2600 + k)
        t, kind, mode = hostile_text(r, pick.pick(texts), k)
        jobs.append((k, t, kind, mode))

    def one(job):
        k, t, kind, mode = job
        d = C.fresh_dir("C25", f"h{k}")
        data = t.encode("utf-8")
        with open(os.path.join(d, "main.capy"), "wb") as fh:
            fh.write(data)
        pr, rep = P.run_pipeline(d)
        res = {"k": k, "kind": kind, "mode": mode, "diags": 0, "skipped": 0, "bad": [], "sigs": set(), "no_report": rep is None or rep.get("status") != "ok"}
        if res["no_report"]:
            return res
        for dg in rep.get("diagnostics", []):
            if dg.get("file") != "main.capy" or not dg.get("header"):
                res["skipped"] += 1  # another file (core) or a rendering failure (C06's matter)
                continue
            m = HEADER.search(dg["header"])
            if not m or dg["start"] > len(data):
                res["bad"].append((dg, None, "header not of the form `--> at file:line:col` or start offset beyond the text"))
                continue
            line, col = model(data, dg["start"])
            res["diags"] += 1
            got = (int(m.group(2)), int(m.group(3)))
            if got != (line + 1, col + 1):
                res["bad"].append((dg, (line + 1, col + 1), f"header says {got[0]}:{got[1]}, the range starts at byte {dg['start']} = {line + 1}:{col + 1}"))
            pre = data[:dg["start"]]
            if line >= 1:
                res["sigs"].add((min(line, 40), min(col, 40), b"\r" in pre, any(b >= 0x80 for b in pre), b"\t" in pre[len(pre) - col:]))
        return res

    rs = C.pmap(one, jobs)
    viol, sigs, cnt = [], set(), {"header_programs": n, "header_diagnostics": 0, "header_skipped_other_file_or_unrendered": 0, "header_programs_without_report": 0,
                                   "header_diags_after_crlf": 0, "header_diags_after_multibyte": 0, "header_diags_on_tab_line": 0}
    for r, job in zip(rs, jobs):
        cnt["header_diagnostics"] += r["diags"]
        cnt["header_skipped_other_file_or_unrendered"] += r["skipped"]
        cnt["header_programs_without_report"] += 1 if r["no_report"] else 0
        sigs |= r["sigs"]
        for dg, exp, what in r["bad"][:1]:
            viol.append({"key": "header_position", "what": f"rendered diagnostic names the wrong position: {what} ({dg.get('message')})",
                         "witness": {"files": {"main.capy": job[1]}, "diagnostic": dg, "expected_1_based": exp, "mutation": job[2]}})
    for s in sigs:
        cnt["header_diags_after_crlf"] += 1 if s[2] else 0
        cnt["header_diags_after_multibyte"] += 1 if s[3] else 0
        cnt["header_diags_on_tab_line"] += 1 if s[4] else 0
    return viol, sigs, cnt


def run(tier, seed):
    t0 = time.time()
    C.build_probe(full=True)
    rep = C.run_probe("c25", tier, seed, extra=["--maxlen", "8" if tier == "thorough" else "7"], corpus=True)
    mrep, ub = C.run_probe_miri("c25", seed, extra=MIRI[tier], shards=MIRI["shards"], corpus=True, shard_by_seed=True)
    rep["violations"] = list(rep.get("violations", [])) + list(mrep.get("violations", [])) + ub
    c = rep.setdefault("counters", {})
    c["miri_evaluations"] = int(mrep.get("evaluations", 0))
    c["miri_ub_reports"] = len(ub)
    for k, v in mrep.get("counters", {}).items():
        c["miri_" + k] = v
    rep.setdefault("notes", []).append(
        f"the same oracle was also run under Miri (nightly, front-end crates only, hooks on) on {mrep.get('evaluations', 0)} inputs: "
        f"{len(ub)} undefined-behaviour report(s)")
    if not ub and int(mrep.get("evaluations", 0)) == 0:
        raise C.Inconclusive("the Miri run evaluated nothing")
    viol, sigs, cnt = header_part(tier, seed)
    rep["violations"] += viol
    c.update(cnt)
    rep["evaluations"] = int(rep.get("evaluations", 0)) + cnt["header_diagnostics"]
    rep["distinct_nontrivial"] = int(rep.get("distinct_nontrivial", 0)) + len(sigs)
    rep["notes"].append(f"headers: {cnt['header_diagnostics']} rendered diagnostics of {cnt['header_programs']} erroneous programs compared with the model "
                        f"({len(sigs)} distinct (line, col, after-\\r, after-multibyte, tab) situations on lines > 1)")
    if cnt["header_diagnostics"] < cnt["header_programs"] // 2 or cnt["header_diags_after_crlf"] == 0 or cnt["header_diags_after_multibyte"] == 0:
        raise C.Inconclusive(f"the header monitor observed too little: {cnt}")
    return C.finish("C25", tier, seed, t0, "exploration", rep, ASSUME, RULE, min_evals=100000)


def replay(path):
    return replay_text("C25", path)
