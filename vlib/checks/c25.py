"""C25 — line/column (probe c25; rendered diagnostic headers are checked by the pipeline part)."""
from ._probe_check import run_probe_check, replay_text

RULE = ("every string of length <= N over {a,\\n,\\r,\\t,é} x every byte offset (exhaustive; N=7 quick, 8 thorough), corpus files and random "
        "multi-line texts x every offset; non-trivial = text with >= 1 newline, distinct = distinct line-length patterns")
ASSUME = ["oracle: line = number of \\n bytes before the offset, column = offset - index after the last such \\n"]


# the same differential check interpreted by Miri
MIRI = {"quick": ["--maxlen", "2", "--random", "6", "--files", "1"],
        "thorough": ["--maxlen", "4", "--random", "200", "--files", "10"], "shards": 3, "shard_by_seed": True}


def run(tier, seed):
    return run_probe_check("C25", tier, seed, RULE, ASSUME, corpus=True, extra=["--maxlen", "8" if tier == "thorough" else "7"],
                           min_evals=100000, miri=MIRI)


def replay(path):
    return replay_text("C25", path)
