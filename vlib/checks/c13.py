"""C13 — distinct types, enum variant types and named structs are nominal.

Every case is one capy program compiled by the real CLI. A VARIABLE of a nominal type P (distinct wrapper, variant of one of
two enums with identical payloads, named struct) is used where a type E is expected (annotation, argument, return, assignment,
binary operation). The oracle is the nominal model of the statement: E != P nominal, or E == P's own underlying type -> the
program must be rejected with a type-mismatch diagnostic naming E and P; same type, untyped literal into a distinct and variant
into its own enum must be accepted. Casts distinct <-> underlying are compiled, linked and run; the value must survive.
"""
import json
import os
import re
import shutil
import time

from .. import common as C
from .. import capyrun as R

RULE = ("universe: for each of 15 primitive bases B two wrappers `distinct B` and a `distinct (distinct B)`; two structurally identical named "
        "structs + two distincts of one of them; `[2]i32` + two distincts of it; two enums with identical variant lists (void/i32/str payloads, "
        "two variants per payload). Negative case = (context form, expected E, provided variable of nominal type P) with E a different nominal type "
        "or P's direct underlying type; forms: annotation `x : E = p` / `x : E : p`, argument, tail return, `return p;`, assignment, binary `+`/`==` "
        "in both operand orders (for the underlying type the result is pinned: `r : E = e + p`). thorough = every in-family pair x every form + every "
        "cross-family pair in one form; quick = must-see core + random sample. Positive cases: same type, literal into distinct, variant into own enum. "
        "Cast programs are run. A case is non-trivial when it reached a verdict; distinct = distinct (form, kind of E, kind of P, relation) tuples")
ASSUME = ["NOT constrained (never judged): a value of the underlying type flowing into its distinct wrapper (plain i32 -> distinct i32, named struct S1 -> distinct S1 and a "
          "variant -> distinct of its own enum are accepted by capy, D -> distinct D is rejected), an anonymous struct literal into a named struct, a distinct where the "
          "underlying of its underlying is expected, `==`/`+` between two variants of the SAME enum (both convert to their own enum, the allowed conversion)",
          "`==` between two payload-less variants is not judged: capy types both operands as `type` values (zero-sized variant == its type), and `type` is neither a nominal "
          "type nor an underlying type",
          "binary operations with the plain underlying type are judged only with the result pinned to the underlying type (`r : i32 = i + d`), otherwise "
          "it is unobservable which operand was converted",
          "a rejection counts only if a diagnostic line names both E and P in a mismatch message; any other rejection is a generator error (inconclusive)"]

INT_S = ["i8", "i16", "i32", "i64", "isize"]
INT_U = ["u8", "u16", "u32", "u64", "usize"]
FLOATS = ["f32", "f64"]
BASES = INT_S + INT_U + FLOATS + ["bool", "char", "str"]
LIT = {"bool": "true", "char": "'x'", "str": '"s"', "f32": "1.5", "f64": "1.5"}
STRUCT_LIT = "S1.{ a = 1, b = 2 }"
ENUM_BODY = "enum { A, A2, B: i32, B2: i32, C: str }"
VARIANT_PAYLOAD = {"A": None, "A2": None, "B": "i32", "B2": "i32", "C": "str"}


class T:
    """one type of the universe"""

    def __init__(self, name, kind, family, kdesc, decl=(), deps=(), under=None, enum=None, lit=None, value=None, numeric=False, boolean=False, disp=None):
        self.name, self.kind, self.family, self.kdesc = name, kind, family, kdesc
        self.decl, self.deps, self.under, self.enum = decl, deps, under, enum
        self.lit, self.value, self.numeric, self.boolean = lit, value, numeric, boolean
        self.disp = disp or (name if kind == "plain" else "main::" + name)

    @property
    def nominal(self):
        return self.kind in ("distinct", "variant", "struct")

    def setup(self, var):
        """a statement declaring `var` as a variable of exactly this type"""
        if self.kind == "variant":
            return f"{var} := {self.value};"
        if self.kind == "struct":
            return f"{var} := {self.value};"
        return f"{var} : {self.name} = {self.value};"


def universe():
    ts = {}

    def add(t):
        ts[t.name] = t

    for b in BASES:
        num = b in INT_S + INT_U + FLOATS
        lit = LIT.get(b, "3")
        cls = "int" if b in INT_S + INT_U else ("float" if b in FLOATS else b)
        add(T(b, "plain", b, f"plain:{cls}", lit=lit, value=lit, numeric=num, boolean=b == "bool"))
        for w in ("Da", "Db"):
            add(T(f"{w}_{b}", "distinct", b, f"distinct:{cls}", decl=(f"{w}_{b} :: distinct {b};",), under=b, lit=lit, value=lit, numeric=num, boolean=b == "bool"))
        add(T(f"DDa_{b}", "distinct", b, f"distinct_of_distinct:{cls}", decl=(f"DDa_{b} :: distinct Da_{b};",), deps=(f"Da_{b}",), under=f"Da_{b}",
              lit=lit, value=lit, numeric=num, boolean=b == "bool"))
    add(T("S1", "struct", "struct", "struct", decl=("S1 :: struct { a: i32, b: u8 };",), value="S1.{ a = 1, b = 2 }"))
    add(T("S2", "struct", "struct", "struct", decl=("S2 :: struct { a: i32, b: u8 };",), value="S2.{ a = 1, b = 2 }"))
    add(T("DS1", "distinct", "struct", "distinct:struct", decl=("DS1 :: distinct S1;",), deps=("S1",), under="S1", value="S1.{ a = 1, b = 2 }"))
    add(T("DS2", "distinct", "struct", "distinct:struct", decl=("DS2 :: distinct S1;",), deps=("S1",), under="S1", value="S1.{ a = 1, b = 2 }"))
    add(T("[2]i32", "plain", "array", "plain:array", value="i32.[1, 2]"))
    add(T("DA1", "distinct", "array", "distinct:array", decl=("DA1 :: distinct [2]i32;",), under="[2]i32", value="i32.[1, 2]"))
    add(T("DA2", "distinct", "array", "distinct:array", decl=("DA2 :: distinct [2]i32;",), under="[2]i32", value="i32.[1, 2]"))
    for e in ("E1", "E2"):
        add(T(e, "enum", "enum", "enum", decl=(f"{e} :: {ENUM_BODY};",), value=f"{e}.B.(5)"))
        for v, pay in VARIANT_PAYLOAD.items():
            val = f"{e}.{v}" if pay is None else (f"{e}.{v}.(5)" if pay == "i32" else f'{e}.{v}.("s")')
            add(T(f"{e}.{v}", "variant", "enum", f"variant:{pay or 'void'}", deps=(e,), under=pay, enum=e, value=val, numeric=pay == "i32"))
    return ts


TS = universe()
NOMINAL = [t for t in TS.values() if t.nominal]


def decls_for(*types):
    seen, out = set(), []

    def visit(t):
        if t.name in seen:
            return
        seen.add(t.name)
        for d in t.deps:
            visit(TS[d])
        out.extend(t.decl)

    for t in types:
        visit(t)
    return "\n".join(out) + "\n"


def relation(e, p):
    """why (expected e, provided p) is constrained, or None when the statement says nothing"""
    if e.name == p.name or not p.nominal:
        return None
    if p.kind == "variant" and e.kind == "enum" and p.enum == e.name:
        return None  # allowed conversion (positive cases)
    if p.under == e.name:
        return "own_underlying"
    if e.kind in ("distinct", "variant", "enum", "struct"):
        if e.family != p.family:
            return "other_family"
        if e.under == p.name:
            return None  # the underlying type flowing into its distinct wrapper: not constrained (capy accepts S1 -> distinct S1, rejects D -> distinct D)
        if e.kind == "variant" and p.kind == "variant":
            return "same_enum_variant" if e.enum == p.enum else "foreign_variant"
        if e.kind == "enum":
            return "foreign_enum"
        return "sibling"
    return None


FORMS_PLAIN = ["annot", "annot_const", "arg", "ret", "ret_stmt", "assign", "assign_opt"]


def binop_forms(e, p, rel):
    """binary-operation forms applicable to the pair"""
    forms = []
    if rel == "own_underlying":
        if e.numeric and p.numeric and e.kind != "variant":
            forms += ["bin_pinned:+:ep", "bin_pinned:+:pe", "cassign"]
        # `&&` is not usable: its result is `bool` by definition, whichever operand type was chosen as the common type
        return forms
    if rel == "same_enum_variant":
        return []  # both operands may convert to their own enum (allowed conversion), nothing to judge
    zero_sized_both = (e.kind == "variant" and e.under is None) and (p.kind == "variant" and p.under is None)
    if not zero_sized_both:
        forms += ["bin:==:ep", "bin:==:pe"]
    if e.numeric and p.numeric:
        forms += ["bin:+:ep", "bin:+:pe"]
    return forms


def program(form, e, p, provided=None, evalue=None):
    """source of one case; `provided` overrides the provided expression (literal / variant expression for positive cases)"""
    head = R.PRELUDE + decls_for(e, p)
    psetup = "" if provided is not None else p.setup("p")
    pv = provided if provided is not None else "p"
    if form == "annot":
        body = f"    {psetup}\n    x : {e.name} = {pv};\n    0\n"
    elif form == "annot_const":
        body = f"    {psetup}\n    x : {e.name} : {pv};\n    0\n"
    elif form == "arg":
        head += f"f :: (a: {e.name}) {{ }}\n"
        body = f"    {psetup}\n    f({pv});\n    0\n"
    elif form == "ret":
        head += f"g :: () -> {e.name} {{\n    {psetup}\n    {pv}\n}}\n"
        body = "    g();\n    0\n"
    elif form == "ret_stmt":
        head += f"g :: () -> {e.name} {{\n    {psetup}\n    return {pv};\n}}\n"
        body = "    g();\n    0\n"
    elif form == "assign":
        body = f"    {psetup}\n    {e.setup('m')}\n    m = {pv};\n    0\n"
    elif form == "assign_opt":
        # the same assignment one level down: optional of E := optional of P
        body = f"    {psetup}\n    {e.setup('ev')}\n    o : ?{e.name} = ev;\n    d : ?{p.name} = {pv};\n    o = d;\n    0\n"
    elif form == "cassign":
        # compound assignment: the result is stored in a variable of type E, so P would have to be accepted as E
        body = f"    {psetup}\n    {e.setup('m')}\n    m += {pv};\n    0\n"
    elif form.startswith("bin"):
        kind, op, order = form.split(":")
        lhs, rhs = ("e", pv) if order == "ep" else (pv, "e")
        tgt = f"r : {e.name} =" if kind == "bin_pinned" else "r :="
        body = f"    {psetup}\n    {e.setup('e')}\n    {tgt} {lhs} {op} {rhs};\n    0\n"
    else:
        raise ValueError(form)
    return head + "main :: () -> i32 {\n" + body + "}\n"


def array_program(form, e, p):
    head = R.PRELUDE + decls_for(e, p)
    mk = f"    {p.setup('p0')}\n    pa : [2]{p.name} = {p.name}.[p0, p0];\n"
    if form == "annot":
        body = mk + f"    x : [2]{e.name} = pa;\n    0\n"
    elif form == "arg":
        head += f"f :: (a: [2]{e.name}) {{ }}\n"
        body = mk + "    f(pa);\n    0\n"
    elif form == "ret":
        head += f"g :: () -> [2]{e.name} {{\n{mk}    pa\n}}\n"
        body = "    g();\n    0\n"
    else:
        body = mk + f"    {e.setup('e0')}\n    m : [2]{e.name} = {e.name}.[e0, e0];\n    m = pa;\n    0\n"
    return head + "main :: () -> i32 {\n" + body + "}\n"


MISMATCH = re.compile(r"expected an? .* but found|cannot be [a-z' ]+ `|cannot cast|they must be the same")


def names_both(c, e, p, literal=False):
    """a diagnostic line that is a type mismatch naming E and P"""
    found = [f"`{p.disp}`"]
    if p.kind == "variant":
        # a `return` reports the join of the returned types: the variant's enum, or `type` for two payload-less variants
        found += [f"`main::{p.enum}`", "`type`"]
    for line in c.diag_kinds():
        plain = line.replace("`?", "`")        # the assign_opt form reports the optionals of E and P
        if MISMATCH.search(line) and f"`{e.disp}`" in plain and (literal or any(f in plain for f in found)):
            return line
    return None


# --------------------------------------------------------------------------- case lists

def negative_cases(tier, rng):
    infam, cross = [], []
    for p in NOMINAL:
        for e in TS.values():
            rel = relation(e, p)
            if rel is None:
                continue
            forms = FORMS_PLAIN + binop_forms(e, p, rel)
            if rel == "other_family":
                cross.append((e, p, rel, forms))
            else:
                infam.append((e, p, rel, forms))
    jobs = []
    if tier == "thorough":
        for e, p, rel, forms in infam:
            for f in forms:
                jobs.append(("neg", f, e, p, rel))
        for e, p, rel, forms in cross:
            jobs.append(("neg", rng.pick(forms), e, p, rel))
        return jobs
    # quick: the mechanisms that must be visible, each in one rotating form, then a random sample
    core = [("i32", "Da_i32"), ("Db_i32", "Da_i32"), ("Da_i32", "DDa_i32"), ("Db_i32", "DDa_i32"), ("u8", "Da_u8"), ("f64", "Da_f64"), ("bool", "Da_bool"),
            ("S2", "S1"), ("S1", "DS1"), ("DS2", "DS1"), ("[2]i32", "DA1"), ("DA2", "DA1"),
            ("E2", "E1.A"), ("E2", "E1.B"), ("E2.A", "E1.A"), ("E2.B", "E1.B"), ("E1.B2", "E1.B"), ("i32", "E1.B"), ("E1.A2", "E1.A")]
    k = rng.below(16)
    seen = set()
    for en, pn in core:
        e, p = TS[en], TS[pn]
        rel = relation(e, p)
        forms = FORMS_PLAIN + binop_forms(e, p, rel)
        for j in range(4):
            f = forms[(k + 3 * j) % len(forms)]
            if (f, e.name, p.name) not in seen:
                seen.add((f, e.name, p.name))
                jobs.append(("neg", f, e, p, rel))
        k += 1
    pool = []
    for e, p, rel, forms in infam:
        for f in forms:
            if (f, e.name, p.name) not in seen:
                pool.append(("neg", f, e, p, rel))
    jobs += rng.sample(pool, 110)
    jobs += [("neg", rng.pick(forms), e, p, rel) for e, p, rel, forms in rng.sample(cross, 45)]
    return jobs


def positive_cases(tier, rng):
    jobs = []
    for p in NOMINAL:
        for f in FORMS_PLAIN:
            jobs.append(("pos_same", f, p, p, None))
    for d in TS.values():
        if d.kind == "distinct" and d.lit is not None:
            for f in FORMS_PLAIN:
                jobs.append(("pos_literal", f, d, d, d.lit))
            if d.numeric:
                for f in ("bin:+:ep", "bin:+:pe", "bin:==:ep", "bin:==:pe"):
                    jobs.append(("pos_literal", f, d, d, d.lit))
    for v in TS.values():
        if v.kind == "variant":
            for f in FORMS_PLAIN:
                jobs.append(("pos_variant", f, TS[v.enum], v, None))       # a variable of the variant type
                jobs.append(("pos_variant", f, TS[v.enum], v, v.value))    # the variant expression itself
    if tier == "quick":
        must = [j for j in jobs if (j[0], j[2].name, j[3].name) in {("pos_same", "Da_i32", "Da_i32"), ("pos_literal", "Da_i32", "Da_i32"), ("pos_variant", "E1", "E1.B")}]
        jobs = must[:14] + rng.sample([j for j in jobs if j not in must], 52)
    return jobs


# --------------------------------------------------------------------------- casts (run-time)

def int_range(b):
    bits = {"i8": 8, "i16": 16, "i32": 32, "i64": 64, "isize": 64, "u8": 8, "u16": 16, "u32": 32, "u64": 64, "usize": 64}[b]
    return (-(1 << (bits - 1)), (1 << (bits - 1)) - 1) if b in INT_S else (0, (1 << bits) - 1)


def cast_program(b, rng):
    """one program per base: underlying -> distinct -> underlying, through the distinct-of-distinct and back; returns (source, checks)"""
    da, dda = TS[f"Da_{b}"], TS[f"DDa_{b}"]
    src = [R.PRELUDE + decls_for(da, dda), "main :: () -> i32 {"]
    checks = []   # (kind, id_a, id_b, description)  kind eq: values of both ids equal; true: B id is 1

    def show(i, expr):
        if b in INT_S:
            return f"    vr_i64({i}, i64.({expr}));"
        if b in INT_U:
            return f"    vr_u64({i}, u64.({expr}));"
        if b == "f32":
            return f"    vr_f32bits({i}, {expr});"
        if b == "f64":
            return f"    vr_f64bits({i}, {expr});"
        if b == "bool":
            return f"    vr_bool({i}, {expr});"
        return f"    vr_u64({i}, u64.(u8.({expr})));"   # char

    if b in INT_S + INT_U:
        lo, hi = int_range(b)
        vals = [lo, hi, 0, 1, 100, rng.range(lo, hi), rng.range(lo, hi)]
        if b in INT_S:
            vals.append(-1)

        def opaque(v):
            if b in INT_S:
                return f"{b}.(vr_opaque_i64({v}))" if v > -(1 << 63) else f"{b}.(vr_opaque_i64(-9223372036854775807) - 1)"
            return f"{b}.(vr_opaque_u64({v}))"
        items = [(opaque(v), str(v) if 0 <= v <= 100 else None) for v in vals]
    elif b in FLOATS:
        items = [("1.25", "1.25"), ("0.0", "0.0"), (f"{b}.(vr_opaque_i64({rng.range(-100000, 100000)})) / 8.0", None),
                 (f"{b}.(vr_opaque_i64({rng.range(1, 1 << 40)})) * 1024.0", None), (f"{b}.(vr_opaque_i64(1)) / 3.0", None), ("-2.5", None)]
    elif b == "bool":
        items = [("vr_opaque_i64(1) == 1", "true"), ("vr_opaque_i64(0) == 1", "false"), ("true", "true"), ("false", "false")]
    else:  # char
        items = [("'a'", "'a'"), ("'~'", "'~'"), ("char.(u8.(vr_opaque_u64(65)))", "'A'")]
    i = 0
    for k, (expr, lit) in enumerate(items):
        src.append(f"    o{k} : {b} = {expr};")
        src.append(f"    d{k} := {da.name}.(o{k});")
        src.append(f"    b{k} := {b}.(d{k});")
        src.append(show(i, f"o{k}"))
        src.append(show(i + 1, f"b{k}"))
        checks.append(("eq", i, i + 1, f"{b}.({da.name}.(v)) for v = {expr}"))
        src.append(f"    dd{k} := {dda.name}.(d{k});")
        src.append(f"    db{k} := {da.name}.(dd{k});")
        src.append(show(i + 2, f"{b}.(db{k})"))
        checks.append(("eq", i, i + 2, f"{b}.({da.name}.({dda.name}.({da.name}.(v)))) for v = {expr}"))
        src.append(f"    vr_bool({i + 3}, db{k} == d{k});")
        checks.append(("true", i + 3, None, f"{da.name}.({dda.name}.(d)) == d for d = {da.name}.({expr})"))
        if lit is not None:
            src.append(f"    l{k} : {da.name} = {lit};")
            src.append(f"    vr_bool({i + 4}, d{k} == l{k});")
            checks.append(("true", i + 4, None, f"{da.name}.(v) == (l : {da.name} = {lit}) for v = {expr}"))
            src.append(show(i + 5, f"{b}.(l{k})"))
            checks.append(("eq", i, i + 5, f"{b}.(l) for l : {da.name} = {lit}"))
        i += 6
    src.append("    0\n}\n")
    return "\n".join(src), checks


def cast_aggregate_program():
    ds, da = TS["DS1"], TS["DA1"]
    src = R.PRELUDE + decls_for(ds, da) + """main :: () -> i32 {
    s := S1.{ a = i32.(vr_opaque_i64(-77001)), b = u8.(vr_opaque_u64(201)) };
    ds := DS1.(s);
    sb := S1.(ds);
    vr_i64(0, i64.(s.a)); vr_i64(1, i64.(sb.a)); vr_i64(2, i64.(ds.a));
    vr_u64(3, u64.(s.b)); vr_u64(4, u64.(sb.b)); vr_u64(5, u64.(ds.b));
    a : [2]i32 = i32.[i32.(vr_opaque_i64(41)), i32.(vr_opaque_i64(-42))];
    da := DA1.(a);
    ab := [2]i32.(da);
    vr_i64(6, i64.(a[0])); vr_i64(7, i64.(ab[0])); vr_i64(8, i64.(da[0]));
    vr_i64(9, i64.(a[1])); vr_i64(10, i64.(ab[1])); vr_i64(11, i64.(da[1]));
    0
}
"""
    checks = [("eq", 0, 1, "S1.(DS1.(s)).a"), ("eq", 0, 2, "DS1.(s).a"), ("eq", 3, 4, "S1.(DS1.(s)).b"), ("eq", 3, 5, "DS1.(s).b"),
              ("eq", 6, 7, "[2]i32.(DA1.(a))[0]"), ("eq", 6, 8, "DA1.(a)[0]"), ("eq", 9, 10, "[2]i32.(DA1.(a))[1]"), ("eq", 9, 11, "DA1.(a)[1]")]
    return src, checks


def control_program():
    """every operator used by the binary-operation forms applied to two values of the SAME type: must be accepted, else the forms prove nothing"""
    lines, i = [], 0
    for t in TS.values():
        ops = ["=="] + (["+"] if t.numeric else []) + (["&&"] if t.boolean else [])
        lines.append("    " + t.setup(f"a{i}") + " " + t.setup(f"b{i}"))
        for k, op in enumerate(ops):
            lines.append(f"    r{i}_{k} := a{i} {op} b{i};")
        i += 1
    return R.PRELUDE + decls_for(*TS.values()) + "main :: () -> i32 {\n" + "\n".join(lines) + "\n    0\n}\n"


# --------------------------------------------------------------------------- execution and verdicts

def judge_compile(job, c, src):
    """-> (verdict, violation|None, inconclusive|None); verdict in ok / viol / inconc"""
    cat, form, e, p = job[0], job[1], job[2], job[3]
    name = f"{cat} {form} expected={e.name} provided={p.name if job[4] is None or cat == 'neg' else job[4]}"
    wit = {"files": {"main.capy": src}, "category": cat, "form": form, "expected": e.name, "provided": p.name, "expr": job[4] if cat != "neg" else None}
    if c.timed_out or c.cpu_exceeded or c.sig in EXTERNAL_SIGNALS:
        return "inconc", None, f"watchdog / killed from outside (signal {c.sig}): {name}"
    if c.internal_error:
        return "viol", {"key": "internal_error", "sig": "internal_error|" + c.panic_sig(),
                        "what": f"internal compiler error on {name}: {c.brief()[:300]}", "witness": wit}, None
    if cat == "neg":
        if c.accepted:
            return "viol", {"key": "accepted_foreign_nominal", "sig": f"accepted_foreign_nominal|{form.split(':')[0]}|{e.kdesc}|{p.kdesc}|{job[4]}",
                            "what": f"a variable of type {p.name} ({p.kdesc}) is implicitly accepted where {e.name} ({e.kdesc}, {job[4]}) is expected, form {form}",
                            "witness": wit}, None
        if c.rejected and names_both(c, e, p):
            return "ok", None, None
        return "inconc", None, f"rejected for another reason: {name}: {c.diag_kinds()[:3]} rc={c.rc}"
    if c.accepted:
        return "ok", None, None
    if c.rejected:
        return "viol", {"key": "rejected_allowed", "sig": f"rejected_allowed|{cat}|{form.split(':')[0]}|{e.kdesc}|{p.kdesc}",
                        "what": f"{name} must be accepted but is rejected: {c.diag_kinds()[:3]}", "witness": wit}, None
    return "inconc", None, f"no verdict: {name}: rc={c.rc}"


def judge_cast(label, c, r, src, checks):
    """-> (n_evaluations, violations, inconclusive)"""
    wit = {"files": {"main.capy": src}, "category": "cast", "label": label, "checks": checks}
    if c.timed_out or c.cpu_exceeded or c.sig in EXTERNAL_SIGNALS:
        return 0, [], [f"watchdog / killed from outside: cast {label}"]
    if c.internal_error:
        return 1, [{"key": "internal_error", "sig": "internal_error|" + c.panic_sig(), "what": f"internal compiler error on cast program {label}: {c.brief()[:300]}", "witness": wit}], []
    if not c.accepted:
        return 1, [{"key": "rejected_allowed", "sig": f"rejected_allowed|cast|{label}", "what": f"explicit casts between a distinct and its underlying type ({label}) are rejected: {c.diag_kinds()[:3]}",
                    "witness": wit}], []
    if r is None or r.link_failed or r.timed_out or r.rc != 0:
        return 0, [], [f"cast program {label} did not link/run (rc={getattr(r, 'rc', None)} sig={getattr(r, 'sig', None)})"]
    vals = {i: (tag, v) for tag, i, v in R.parse_log(r.out) if i is not None}
    n, viol = 0, []
    for kind, a, b, desc in checks:
        if a not in vals or (b is not None and b not in vals):
            return n, viol, [f"cast program {label}: value {a}/{b} not printed"]
        n += 1
        if kind == "eq" and vals[a] != vals[b]:
            viol.append({"key": "cast_value", "sig": f"cast_value|{label}", "what": f"{desc}: original prints {vals[a]} but the cast result prints {vals[b]}", "witness": wit})
        if kind == "true" and vals[a][1].strip() not in ("1", "true"):
            viol.append({"key": "cast_value", "sig": f"cast_value|{label}", "what": f"{desc} is {vals[a]}, expected true", "witness": wit})
    return n, viol[:2], []


EXTERNAL_SIGNALS = (2, 9, 15)


def compile_retry(d, files):
    """the CLI binary is briefly absent while another check's build_cli() relinks it: wait instead of aborting the whole run"""
    for attempt in range(40):
        try:
            c = R.compile_capy(d, files)
        except C.Inconclusive:
            if attempt == 39:
                raise
            time.sleep(1.5)
            continue
        # SIGINT / SIGKILL / SIGTERM come from outside (another job's cleanup), not from the compiler: run again
        if c.sig in EXTERNAL_SIGNALS and not c.timed_out and attempt < 3:
            continue
        return c


def run_job(arg):
    work, idx, job = arg
    d = os.path.join(work, f"c{idx}")
    if job[0] == "cast":
        src, checks = job[2], job[3]
        c = compile_retry(d, {"main.capy": src})
        r = R.link_and_run(d, c.obj) if c.accepted else None
        return job, c, r, src
    if job[0] == "control":
        return job, compile_retry(d, {"main.capy": job[2]}), None, job[2]
    if job[0] == "arr":
        return job, compile_retry(d, {"main.capy": job[4]}), None, job[4]
    cat, form, e, p = job[0], job[1], job[2], job[3]
    src = program(form, e, p, provided=None if cat == "neg" else job[4])
    return job, compile_retry(d, {"main.capy": src}), None, src


def run(tier, seed):
    t0 = time.time()
    C.build_cli()
    C.build_rt()
    work = C.fresh_dir("C13")
    rng = C.Rng(seed, 13)
    jobs = negative_cases(tier, rng) + positive_cases(tier, rng)
    cast_bases = INT_S + INT_U + FLOATS + ["bool", "char"]
    if tier == "quick":
        cast_bases = ["i32", "u8", "f64", "bool", "i64"] + rng.sample([b for b in cast_bases if b not in ("i32", "u8", "f64", "bool", "i64")], 3)
    for b in cast_bases:
        src, checks = cast_program(b, rng)
        jobs.append(("cast", b, src, checks))
    src, checks = cast_aggregate_program()
    jobs.append(("cast", "struct_array", src, checks))
    jobs.append(("control", "operators", control_program()))
    # arrays whose ELEMENT type is nominal: [2]P is never accepted where [2]E is expected (E a different nominal type or P's underlying type)
    arr_pairs = [("Db_i32", "Da_i32"), ("i32", "Da_i32"), ("DDa_i32", "Da_i32"), ("S2", "S1"), ("S1", "DS1"), ("DS2", "DS1"), ("Db_f64", "Da_f64"), ("Da_u8", "Db_u8")]
    arr_forms = ["annot", "arg", "ret", "assign"]
    for en, pn in arr_pairs:
        forms = arr_forms if tier != "quick" else [arr_forms[(rng.below(4) + k) % 4] for k in range(2)]
        for form in forms:
            jobs.append(("arr", form, en, pn, array_program(form, TS[en], TS[pn])))
    results = C.pmap(run_job, [(work, i, j) for i, j in enumerate(jobs)])

    viol, inconc, sigs, samples = [], [], set(), []
    cnt = {"programs_compiled": len(jobs), "negative_rejected_with_mismatch": 0, "positive_accepted": 0, "cast_values_compared": 0, "cast_programs_run": 0}
    evals = 0
    control_ok = True
    for job, c, r, src in results:
        if job[0] == "control":
            if not c.accepted:
                control_ok = False
                if c.internal_error:
                    viol.append({"key": "internal_error", "sig": "internal_error|" + c.panic_sig(), "what": f"internal compiler error on the same-type operator control program: {c.brief()[:300]}",
                                 "witness": {"files": {"main.capy": src}, "category": "control"}})
                else:
                    inconc.append(f"operator control program rejected: {c.diag_kinds()[:3]}")
            break
    for job, c, r, src in results:
        if job[0] == "control":
            continue
        if job[0] == "cast":
            n, vs, inc = judge_cast(job[1], c, r, src, job[3])
            evals += n
            viol += vs
            inconc += inc
            cnt["cast_values_compared"] += n
            if n > 1:
                cnt["cast_programs_run"] += 1
                sigs.add(("cast", job[1]))
                if len([s for s in samples if "cast" in s]) < 1:
                    samples.append({"cast": job[1], "program_tail": src[len(R.PRELUDE):][:500], "output_head": r.out[:160]})
            continue
        if job[0] == "arr":
            form, en, pn = job[1], job[2], job[3]
            e, p = TS[en], TS[pn]
            wit = {"files": {"main.capy": src}, "category": "neg"}
            if c.internal_error:
                viol.append({"key": "internal_error", "sig": "internal_error|" + c.panic_sig(), "what": f"array-of-nominal case {form} [2]{en} <- [2]{pn}: internal compiler error", "witness": wit})
                continue
            evals += 1
            if c.accepted:
                viol.append({"key": "accepted_foreign_nominal", "sig": f"accepted_foreign_nominal|array_elements|{form}|{e.kdesc}|{p.kdesc}",
                             "what": f"an array of {pn} ({p.kdesc}) is implicitly accepted where an array of {en} ({e.kdesc}) is expected, form {form}", "witness": wit})
            elif not any(MISMATCH.search(l) and e.disp in l and p.disp in l for l in c.diag_kinds()):
                evals -= 1
                inconc.append(f"array case {form} {en} <- {pn} rejected for another reason: {c.diag_kinds()[:2]}")
            else:
                sigs.add(("arr", form, e.kdesc, p.kdesc))
                cnt["array_element_cases_rejected"] = cnt.get("array_element_cases_rejected", 0) + 1
            continue
        if job[1].startswith("bin") and not control_ok:
            inconc.append(f"binary form skipped (control failed): {job[1]} {job[2].name} {job[3].name}")
            continue
        verdict, v, inc = judge_compile(job, c, src)
        if verdict == "inconc":
            inconc.append(inc)
            continue
        evals += 1
        if v is not None:
            viol.append(v)
            continue
        cat, form, e, p = job[0], job[1], job[2], job[3]
        sigs.add((cat, form.split(":")[0] + ":" + form.split(":")[1] if ":" in form else form, e.kdesc, p.kdesc, job[4] if cat == "neg" else None))
        if cat == "neg":
            cnt["negative_rejected_with_mismatch"] += 1
            cnt["neg_" + job[4]] = cnt.get("neg_" + job[4], 0) + 1
            if job[4] in ("own_underlying", "sibling", "foreign_enum") and not [s for s in samples if s.get("relation") == job[4]]:
                samples.append({"category": "neg", "form": form, "expected": e.name, "provided": p.name, "relation": job[4], "diagnostic": names_both(c, e, p),
                                "program_tail": src[len(R.PRELUDE):]})
        else:
            cnt["positive_accepted"] += 1
            cnt[cat] = cnt.get(cat, 0) + 1
            if len([s for s in samples if s.get("category") == cat]) < 1:
                samples.append({"category": cat, "form": form, "expected": e.name, "provided": job[4] or p.name, "program_tail": src[len(R.PRELUDE):]})
    # one replay per signature is enough
    seen, uniq = set(), []
    for v in viol:
        if v["sig"] not in seen:
            seen.add(v["sig"])
            uniq.append(v)
    rep = {"evaluations": evals, "distinct_nontrivial": len(sigs), "violations": uniq, "samples": samples, "counters": cnt,
           "notes": [f"{len(viol) - len(uniq)} further violations share a signature with a reported one"] if len(viol) > len(uniq) else [], "exhaustive": False,
           "dropped_violations": len(viol) - len(uniq)}
    return C.finish("C13", tier, seed, t0, "exploration", rep, ASSUME, RULE, min_evals=250, inconclusive=inconc)


def replay(path):
    w = json.load(open(os.path.join(path, "witness.json")))
    wit = w.get("witness") or {}
    files = wit.get("files")
    if not files:
        print(json.dumps(w, indent=1)[:3000])
        return run("quick", 0)
    C.build_cli()
    C.build_rt()
    work = C.fresh_dir("C13", "replay")
    src = files["main.capy"]
    c = R.compile_capy(os.path.join(work, "case"), {"main.capy": src})
    print(src[len(R.PRELUDE):] if src.startswith(R.PRELUDE) else src)
    print(f"--- accepted={c.accepted} rejected={c.rejected} internal_error={c.internal_error}\n{c.brief()[:1200]}")
    cat = wit.get("category")
    bad = False
    if c.internal_error:
        bad = True
    elif cat == "neg":
        bad = c.accepted
    elif cat in ("pos_same", "pos_literal", "pos_variant", "control"):
        bad = not c.accepted
    elif cat == "cast":
        r = R.link_and_run(os.path.join(work, "case"), c.obj) if c.accepted else None
        n, vs, inc = judge_cast(wit.get("label"), c, r, src, [tuple(x) for x in wit.get("checks", [])])
        for v in vs:
            print(v["what"])
        bad = bool(vs)
    shutil.rmtree(work, ignore_errors=True)
    if bad:
        print(f"VIOLATION property=C13 replay={path}")
        print(f"  {w.get('key')}: {w.get('what')}")
        return 1
    print("the recorded violation does not reproduce on the current tree")
    return 0
