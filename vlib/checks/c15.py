"""C15 — only const values are used as types, array sizes, enum discriminants and comptime arguments.

Every case is one capy program (plus an imported file for the import kinds) compiled by the real CLI: an expression of a given
kind is placed in one const position, with the declarations it refers to laid out in a given order. The oracle is the README
rule ("Types"): const = a literal, an immutable binding to a literal / another const / a comptime block, a comptime block, a
comptime parameter. Const -> the program must be accepted, and it is linked and run: the observed array length (`.len` and a
store through the last index), comptime argument, discriminant byte or value of the annotated variable must be what the
expression denotes. Not const -> the program must be rejected with a "not const" diagnostic, never evaluated, never a panic.
"""
import json
import os
import re
import shutil
import time

from .. import common as C
from .. import capyrun as R

RULE = ("case = (expression kind, const position, layout of the referenced declarations, value): kinds = literal; `::` local bound to a literal / to another "
        "`::` local / to a global / to a comptime block / to a comptime parameter; `:=` local and `::` local bound to it; `::` global bound to a literal / to "
        "another global (chains of 2 and 3) / to a comptime block / to an imported global; imported global (literal, chain, comptime, bound to a global of a third file, the same with decoy reads of a fourth file); extern global "
        "(local file, imported, behind a `::` global); inline comptime block (of literals, of a global, of a call); comptime parameter; run-time parameter; "
        "arithmetic, call and member access (inline, bound to a `::` local, bound to a `::` global). positions = array length (local annotation, global alias, "
        "struct field, parameter type), enum discriminant (local / global enum), comptime argument, type annotation (local, parameter type, struct field; "
        "type-valued versions of the kinds). layouts = every way to put the referenced globals/imports before or after the use, in both dependency orders. "
        "quick = every (kind, position) with a random value in at most 2 sub-positions and 2 random layouts; thorough = every layout with 8 random values each. non-trivial = reached a verdict; "
        "distinct = distinct (kind, position, layout) tuples")
ASSUME = ["const by the README rule: a literal, `::` binding to a literal / a const / a comptime block, a comptime block, a comptime parameter; arithmetic, calls, member "
          "access, run-time parameters, `:=` locals, extern globals and `::` bindings to any of those are NOT const (capy rejects all of them on the unchanged tree, "
          "so no listed kind had to be treated as unconstrained); parenthesised / cast expressions are not in the property's kind list and are not generated",
          "a rejection of a non-const case counts only if one of capy's not-const diagnostics is printed (array size / discriminant / comptime argument / global not const, "
          "mutable local as type, parameter as type, cannot be used as a type); any other rejection is a generator error (inconclusive)",
          "a comptime block that reads a `::` local is generated with expectation 'either' (README does not say whether locals are visible in comptime blocks): only an "
          "internal error is a violation there",
          "discriminants are observed as the tag byte after an i64 payload (README: 'a u8 that comes after the payload'); the enum has an i64 payload so that the tag store "
          "stays inside the value"]

NOTCONST = re.compile(r"must be known at compile-time|this must be a constant value|globals must be constant values|cannot be used as types if they are mutable|"
                      r"this cannot be used as a type|parameters cannot be used as types")


class K:
    """an expression kind instantiated for a value: what to declare, where, and what to write in the const position"""

    def __init__(self, name, expect, expr, scope="global", decls=(), locals_=(), files=None, helpers=()):
        self.name, self.expect, self.expr, self.scope = name, expect, expr, scope
        self.decls, self.locals, self.files, self.helpers = list(decls), list(locals_), dict(files or {}), list(helpers)


def split_sum(v, rng):
    a = rng.range(0, v)
    return a, v - a


def int_kinds(T, v, rng, untyped_ok):
    """kinds for an integer of type T (usize / u8) denoting v"""
    a, b = split_sum(v, rng)
    w = v - 1 if v >= 1 else 0          # `w + 1` forms need v >= 1
    can_inc = v >= 1
    ks = []
    ann = lambda n: (f"{n} :: " if (untyped_ok and rng.chance(1, 2)) else f"{n} : {T} : ")   # noqa: E731
    imp = 'o :: #import("o.capy");'
    ks.append(K("literal", "const", f"{v}"))
    ks.append(K("local_lit", "const", "n", scope="local", locals_=[f"{ann('n')}{v};"]))
    ks.append(K("local_ref_local", "const", "m", scope="local", locals_=[f"{ann('n')}{v};", "m :: n;"]))
    ks.append(K("local_ref_local3", "const", "l", scope="local", locals_=[f"{ann('n')}{v};", "m :: n;", "l :: m;"]))
    ks.append(K("local_ref_global", "const", "m", scope="local", decls=[f"N : {T} : {v};"], locals_=["m :: N;"]))
    ks.append(K("local_mut", "nonconst", "n", scope="local", locals_=[f"n : {T} = {v};"]))
    if untyped_ok:
        ks.append(K("local_mut_untyped", "nonconst", "n", scope="local", locals_=[f"n := {v};"]))
    ks.append(K("local_ref_mut", "nonconst", "m", scope="local", locals_=[f"n : {T} = {v};", "m :: n;"]))
    ks.append(K("global_lit", "const", "N", decls=[f"N : {T} : {v};"]))
    ks.append(K("global_ref_global", "const", "N", decls=[f"M : {T} : {v};", f"N : {T} : M;"]))
    ks.append(K("global_ref_global3", "const", "N", decls=[f"L : {T} : {v};", f"M : {T} : L;", f"N : {T} : M;"]))
    ks.append(K("imported_lit", "const", "o.N", decls=[imp], files={"o.capy": f"N : {T} : {v};\n"}))
    ks.append(K("imported_chain", "const", "o.N", decls=[imp], files={"o.capy": f"N : {T} : M;\nM : {T} : {v};\n"}))
    ks.append(K("imported_comptime", "const", "o.N", decls=[imp], files={"o.capy": f"N : {T} : comptime {{ {a} + {b} }};\n"}))
    ks.append(K("global_ref_imported", "const", "N", decls=[imp, f"N : {T} : o.N;"], files={"o.capy": f"N : {T} : {v};\n"}))
    # a global of the imported file that is itself bound to a global of a third file; the decoy version also reads a same-named global
    # (different value) of a fourth file next to the use, with a random number of statements in front
    two = {"o.capy": f'q :: #import("q.capy");\nN : {T} : q.N;\n', "q.capy": f"N : {T} : {v};\n", "r.capy": f"N : {T} : {(v + 5) % 251};\n"}
    ks.append(K("imported_ref_imported", "const", "o.N", decls=[imp], files=two))
    pad = [f"z{i} := {i};" for i in range(rng.below(4))] + [f"y{i} := r.N;" for i in range(rng.range(1, 3))]
    ks.append(K("imported_ref_imported_decoy", "const", "o.N", scope="local", decls=[imp, 'r :: #import("r.capy");'], locals_=pad, files=two))
    ks.append(K("extern_global", "nonconst", "N", decls=[f"N : {T} : extern;"]))
    ks.append(K("imported_extern", "nonconst", "o.N", decls=[imp], files={"o.capy": f"N : {T} : extern;\n"}))
    ks.append(K("global_ref_extern", "nonconst", "N", decls=[f"M : {T} : extern;", f"N : {T} : M;"]))
    ks.append(K("local_ref_extern", "nonconst", "m", scope="local", decls=[f"N : {T} : extern;"], locals_=["m :: N;"]))
    ks.append(K("comptime_inline", "const", f"comptime {{ {a} + {b} }}"))
    ks.append(K("local_comptime", "const", "n", scope="local", locals_=[f"{ann('n')}comptime {{ {a} + {b} }};"]))
    ks.append(K("global_comptime", "const", "N", decls=[f"N : {T} : comptime {{ {a} + {b} }};"]))
    ks.append(K("global_ref_comptime", "const", "N", decls=[f"M : {T} : comptime {{ {a} + {b} }};", f"N : {T} : M;"]))
    if can_inc:
        ks.append(K("comptime_of_global", "const", "comptime { N + 1 }", decls=[f"N : {T} : {w};"]))
        ks.append(K("comptime_of_local", "either", "comptime { n + 1 }", scope="local", locals_=[f"n : {T} : {w};"]))
    ks.append(K("comptime_of_call", "const", "comptime { f() }", helpers=[f"f :: () -> {T} {{ {v} }}"]))
    ks.append(K("comptime_param", "const", "n", scope="generic"))
    ks.append(K("local_ref_comptime_param", "const", "k", scope="generic", locals_=["k :: n;"]))
    ks.append(K("runtime_param", "nonconst", "k", scope="param"))
    ks.append(K("local_ref_runtime_param", "nonconst", "m", scope="param", locals_=["m :: k;"]))
    ks.append(K("arith_literals", "nonconst", f"{a} + {b}"))
    if can_inc:
        ks.append(K("arith_global", "nonconst", "N + 1", decls=[f"N : {T} : {w};"]))
        ks.append(K("arith_local", "nonconst", "n + 1", scope="local", locals_=[f"n : {T} : {w};"]))
    ks.append(K("local_bound_arith", "nonconst", "n", scope="local", locals_=[f"n : {T} : {a} + {b};"]))
    ks.append(K("global_bound_arith", "nonconst", "N", decls=[f"N : {T} : {a} + {b};"]))
    ks.append(K("call", "nonconst", "f()", helpers=[f"f :: () -> {T} {{ {v} }}"]))
    ks.append(K("local_bound_call", "nonconst", "n", scope="local", locals_=["n :: f();"], helpers=[f"f :: () -> {T} {{ {v} }}"]))
    ks.append(K("global_bound_call", "nonconst", "N", decls=[f"N : {T} : f();"], helpers=[f"f :: () -> {T} {{ {v} }}"]))
    ks.append(K("member_local", "nonconst", "s.n", scope="local", locals_=[f"s :: SM.{{ n = {v} }};"], helpers=[f"SM :: struct {{ n: {T} }};"]))
    ks.append(K("member_global", "nonconst", "G.n", decls=[f"G :: comptime {{ SM.{{ n = {v} }} }};"], helpers=[f"SM :: struct {{ n: {T} }};"]))
    return ks


def decoy_kind(T, v, pad, parity):
    """the imported global is bound to a global of a third file, main also reads a same-named global of a fourth file; `pad` globals in front of the
    binding and `parity` extra statements in main shift the expression numbering of the two files against each other"""
    other = (v + 5) % 251
    o = 'q :: #import("q.capy");\n' + "".join(f"Z{i} : {T} : {i % 200};\n" for i in range(pad)) + f"N : {T} : q.N;\n"
    files = {"o.capy": o, "q.capy": f"N : {T} : {v};\n", "r.capy": f"N : {T} : {other};\n"}
    loc = [f"z{i} := {i};" for i in range(parity)] + [f"y{i} := r.N;" for i in range(24)]
    return K("imported_ref_imported_decoy_sweep", "const", "o.N", scope="local", decls=['o :: #import("o.capy");', 'r :: #import("r.capy");'], locals_=loc, files=files)


def type_kinds(rng):
    """type-valued kinds, all denoting i64"""
    imp = 'o :: #import("o.capy");'
    mk = ["mk :: () -> type { i64 }"]
    ks = []
    ks.append(K("literal", "const", "i64"))
    ks.append(K("local_lit", "const", "T", scope="local", locals_=["T :: i64;"]))
    ks.append(K("local_ref_local", "const", "U", scope="local", locals_=["T :: i64;", "U :: T;"]))
    ks.append(K("local_ref_global", "const", "U", scope="local", decls=["T :: i64;"], locals_=["U :: T;"]))
    ks.append(K("local_mut", "nonconst", "T", scope="local", locals_=["T := i64;"]))
    ks.append(K("local_ref_mut", "nonconst", "U", scope="local", locals_=["T := i64;", "U :: T;"]))
    ks.append(K("global_lit", "const", "T", decls=["T :: i64;"]))
    ks.append(K("global_ref_global", "const", "T", decls=["U :: i64;", "T :: U;"]))
    ks.append(K("global_ref_global3", "const", "T", decls=["V :: i64;", "U :: V;", "T :: U;"]))
    ks.append(K("imported_lit", "const", "o.T", decls=[imp], files={"o.capy": "T :: i64;\n"}))
    ks.append(K("imported_chain", "const", "o.T", decls=[imp], files={"o.capy": "T :: U;\nU :: i64;\n"}))
    ks.append(K("global_ref_imported", "const", "T", decls=[imp, "T :: o.T;"], files={"o.capy": "T :: i64;\n"}))
    two = {"o.capy": 'q :: #import("q.capy");\nT :: q.T;\n', "q.capy": "T :: i64;\n", "r.capy": "T :: i32;\n"}
    ks.append(K("imported_ref_imported", "const", "o.T", decls=[imp], files=two))
    pad = [f"z{i} := {i};" for i in range(rng.below(4))] + [f"y{i} : r.T = 1;" for i in range(rng.range(1, 3))]
    ks.append(K("imported_ref_imported_decoy", "const", "o.T", scope="local", decls=[imp, 'r :: #import("r.capy");'], locals_=pad, files=two))
    ks.append(K("extern_global", "nonconst", "T", decls=["T : type : extern;"]))
    ks.append(K("imported_extern", "nonconst", "o.T", decls=[imp], files={"o.capy": "T : type : extern;\n"}))
    ks.append(K("comptime_inline", "const", "comptime { i64 }"))
    ks.append(K("local_comptime", "const", "T", scope="local", locals_=["T :: comptime { i64 };"]))
    ks.append(K("global_comptime", "const", "T", decls=["T :: comptime { i64 };"]))
    ks.append(K("comptime_of_call", "const", "comptime mk()", helpers=mk))
    ks.append(K("comptime_param", "const", "n", scope="generic"))
    ks.append(K("local_ref_comptime_param", "const", "k", scope="generic", locals_=["k :: n;"]))
    ks.append(K("runtime_param", "nonconst", "k", scope="param"))
    ks.append(K("call", "nonconst", "mk()", helpers=mk))
    ks.append(K("local_bound_call", "nonconst", "T", scope="local", locals_=["T :: mk();"], helpers=mk))
    ks.append(K("global_bound_call", "nonconst", "T", decls=["T :: mk();"], helpers=mk))
    ks.append(K("member_local", "nonconst", "s.t", scope="local", locals_=["s :: SM.{ t = i64 };"], helpers=["SM :: struct { t: type };"]))
    return ks


# position -> (value type, sub-positions usable from any scope, sub-positions that are global declarations)
POSITIONS = {
    "array_len": ("usize", ["local_annot"], ["global_alias", "struct_field", "param_type"]),
    "discriminant": ("u8", ["local_enum"], ["global_enum"]),
    "comptime_arg": ("usize", ["call"], []),
    "type_annot": ("type", ["local_annot"], ["param_type", "struct_field"]),
}


def layouts(ndecl):
    """every way to put the referenced declarations before / after the use, in dependency order or reversed"""
    if ndecl == 0:
        return ["none"]
    if ndecl == 1:
        return ["before", "after"]
    return ["before", "before_rev", "after", "after_rev", "split", "split_rev"]


def lay_out(decls, layout):
    """-> (lines before the use, lines after the use); decls are given in dependency order (referenced first)"""
    d = list(decls)
    if layout in ("none", "before"):
        return d, []
    if layout == "before_rev":
        return d[::-1], []
    if layout == "after":
        return [], d
    if layout == "after_rev":
        return [], d[::-1]
    h = (len(d) + 1) // 2
    if layout == "split":
        return d[:h], d[h:]
    if layout == "split_rev":
        return d[h:], d[:h]
    raise ValueError(layout)


def use_site(position, sub, X, v):
    """-> (global lines, statements, observation spec)"""
    if position == "array_len":
        idx = []
        if v >= 1:
            idx = ["vr_flush();", f"ix := usize.(vr_opaque_u64({v - 1}));", "{ARR}[ix] = 77;", "vr_i64(2, {ARR}[ix]);"]
        if sub == "local_annot":
            g, st, arr = [], [f"arr : [{X}]i64;"], "arr"
        elif sub == "global_alias":
            g, st, arr = [f"A :: [{X}]i64;"], ["arr : A;"], "arr"
        elif sub == "struct_field":
            g, st, arr = [f"SA :: struct {{ a: [{X}]i64 }};"], ["sa : SA;"], "sa.a"
        else:
            g = [f"pf :: (a: [{X}]i64) -> usize {{ a.len }}"]
            return g, [f"arr : [{v}]i64;", "vr_u64(1, u64.(pf(arr)));"], {"U1": str(v)}
        st += [f"vr_u64(1, u64.({arr}.len));"] + [s.replace("{ARR}", arr) for s in idx]
        return g, st, ({"U1": str(v), "I2": "77"} if v >= 1 else {"U1": str(v)})
    if position == "discriminant":
        other = (v + 1 + (v % 7)) % 256
        if other == v:
            other = (v + 1) % 256
        decl = f"E :: enum {{ A | {X}, B: i64 | {other} }};"
        st = ["e : E = E.A;", "vr_bytes(1, ^e, 16);"]
        return ([decl], st, {"tag": v}) if sub == "global_enum" else ([], [decl] + st, {"tag": v})
    if position == "comptime_arg":
        return ["g :: (comptime c: usize) -> usize { c }"], [f"vr_u64(1, u64.(g({X})));"], {"U1": str(v)}
    if position == "type_annot":
        if sub == "local_annot":
            return [], [f"x : {X} = {v};", "px : ^i64 = ^x;", "vr_i64(1, px^);"], {"I1": str(v)}
        if sub == "param_type":
            return [f"pf :: (a: {X}) -> i64 {{ a }}"], [f"vr_i64(1, pf({v}));"], {"I1": str(v)}
        return [f"ST :: struct {{ f: {X} }};"], [f"st := ST.{{ f = {v} }};", "px : ^i64 = ^st.f;", "vr_i64(1, px^);"], {"I1": str(v)}
    raise ValueError(position)


def build(position, sub, k, layout, v, T):
    """-> (files, observation spec)"""
    g_use, st, obs = use_site(position, sub, k.expr, v)
    pre, post = lay_out(k.decls, layout)
    body = "\n".join("    " + s for s in k.locals + st)
    if k.scope in ("global", "local"):
        fn = f"main :: () -> i32 {{\n{body}\n    0\n}}"
    elif k.scope == "generic":
        arg = "i64" if T == "type" else str(v)
        # the comptime parameter under test sits among run-time parameters and other comptime parameters with other values:
        # its value must come from its own argument whatever its position
        decoy = (v + 3) % 200 + 1 if T != "type" else 7
        shape = (v + len(body) + len(position)) % 4
        params, args = [
            (f"comptime n: {T}", arg),
            (f"r0: i64, comptime n: {T}", f"5, {arg}"),
            (f"r0: i64, comptime n: {T}, comptime z: usize", f"5, {arg}, {decoy}"),
            (f"comptime z: usize, r0: i64, comptime n: {T}, r1: i64", f"{decoy}, 5, {arg}, 6"),
        ][shape]
        fn = f"gen :: ({params}) {{\n{body}\n}}\nmain :: () -> i32 {{\n    gen({args});\n    0\n}}"
    else:
        arg = "i64" if T == "type" else str(v)
        fn = f"run :: (k: {T}) {{\n{body}\n}}\nmain :: () -> i32 {{\n    run({arg});\n    0\n}}"
    text = R.PRELUDE + "\n".join(k.helpers + pre + g_use + [fn] + post) + "\n"
    files = {"main.capy": text}
    files.update(k.files)
    return files, obs


def cases(tier, rng):
    reps = 1 if tier == "quick" else 8
    out = []
    for position, (T, subs_any, subs_global) in POSITIONS.items():
        for rep in range(reps):
            if T == "usize":
                v = rng.pick([1, 2, 3, 7, 64, 255, 256, 1000]) if rng.chance(1, 3) else rng.range(0, 600)
            elif T == "u8":
                v = rng.pick([0, 1, 127, 128, 254, 255]) if rng.chance(1, 3) else rng.range(0, 255)
            else:
                v = rng.range(-100000, 100000)
            # an untyped `n :: 3` local is weak and takes the position's type; an untyped global literal is finalised as i32, so globals are always annotated
            kinds = type_kinds(rng) if T == "type" else int_kinds(T, v, rng, untyped_ok=True)
            for k in kinds:
                subs = list(subs_any) + (list(subs_global) if k.scope == "global" else [])
                if tier == "quick" and len(subs) > 2:
                    subs = subs[:1] + rng.sample(subs[1:], 1)
                for sub in subs:
                    lays = layouts(len(k.decls))
                    if tier == "quick" and len(lays) > 2:
                        lays = rng.sample(lays, 2)
                    for lay in lays:
                        out.append({"position": position, "sub": sub, "kind": k.name, "expect": k.expect, "layout": lay, "value": v, "T": T, "k": k})
    # sweep of the relative expression numbering for the two-level import (a const_data lookup in the wrong body shows up only when the numbers collide)
    sweep = [(pos, pad, par) for pos in ("array_len", "comptime_arg") for pad in range(0, 72) for par in (0, 1)]
    if tier == "quick":
        # main reads the decoy 24 times (every other expression number over a span of 48), so a stride of 6 globals (12 numbers) cannot step over the collision window
        off = rng.below(6)
        sweep = [x for x in sweep if x[0] == "array_len" and x[1] % 6 == off and x[1] < 60]
    for pos, pad, par in sweep:
        v = rng.range(1, 240)
        k = decoy_kind("usize", v, pad, par)
        out.append({"position": pos, "sub": POSITIONS[pos][1][0], "kind": k.name, "expect": k.expect, "layout": rng.pick(["before", "after"]), "value": v, "T": "usize", "k": k,
                    "variant": f"pad{pad}/{par}"})
    return out


# --------------------------------------------------------------------------- execution and verdicts

EXTERNAL_SIGNALS = (2, 9, 15)


def compile_retry(d, files):
    """the CLI binary is briefly absent while another check's build_cli() relinks it: wait instead of aborting the whole run"""
    for attempt in range(40):
        try:
            c = R.compile_capy(d, files)
        except C.Inconclusive:
            if attempt == 39:
                raise
            time.sleep(1.5)
            continue
        # SIGINT / SIGKILL / SIGTERM come from outside (another job's cleanup), not from the compiler: run again
        if c.sig in EXTERNAL_SIGNALS and not c.timed_out and attempt < 3:
            continue
        return c


def run_case(arg):
    work, idx, case = arg
    files, obs = build(case["position"], case["sub"], case["k"], case["layout"], case["value"], case["T"])
    d = os.path.join(work, f"c{idx}")
    c = compile_retry(d, files)
    r = None
    if c.accepted and case["expect"] != "nonconst":
        r = R.link_and_run(d, c.obj)
    return case, files, obs, c, r


def observe(obs, r):
    """-> (ok, description) comparing the run's output with what the expression denotes"""
    log = R.parse_log(r.out)
    got = {f"{t}{i}": val.strip() for t, i, val in log if i is not None}
    bad = []
    for key, want in obs.items():
        if key == "tag":
            hx = got.get("X1")
            if hx is None or len(hx) < 18:
                bad.append(f"enum bytes not printed ({hx})")
            elif int(hx[16:18], 16) != want:
                bad.append(f"tag byte of E.A is {int(hx[16:18], 16)}, the discriminant expression denotes {want} (bytes {hx})")
        elif got.get(key) != want:
            bad.append(f"output {key} is {got.get(key)}, the expression denotes {want}")
    return (not bad), "; ".join(bad)


def judge(case, files, obs, c, r):
    """-> (verdict, violation|None, inconclusive|None, diag kind)"""
    name = f"{case['kind']} in {case['position']}/{case['sub']} layout={case['layout']} value={case['value']}"
    wit = {"files": files, "kind": case["kind"], "position": case["position"], "sub": case["sub"], "layout": case["layout"], "value": case["value"],
           "expect": case["expect"], "obs": obs}
    tup = f"{case['kind']}|{case['position']}/{case['sub']}"
    if c.timed_out or c.cpu_exceeded or c.sig in EXTERNAL_SIGNALS:
        return "inconc", None, f"watchdog / killed from outside (signal {c.sig}): {name}", None
    if c.internal_error:
        return "viol", {"key": "internal_error", "sig": "internal_error|" + c.panic_sig(),
                        "what": f"internal compiler error for {name} (expected: {case['expect']}): {c.brief()[:300]}", "witness": wit}, None, None
    diags = c.diag_kinds()
    if case["expect"] == "nonconst":
        if c.accepted:
            return "viol", {"key": "accepted_non_const", "sig": f"accepted_non_const|{tup}",
                            "what": f"a non-const expression is accepted and evaluated: {name}", "witness": wit}, None, None
        nc = [d for d in diags if NOTCONST.search(d)]
        if c.rejected and nc:
            return "ok", None, None, nc[0][:60]
        return "inconc", None, f"rejected without a not-const diagnostic: {name}: {diags[:3]} rc={c.rc}", None
    if case["expect"] == "either":
        if c.accepted or c.rejected:
            if c.accepted and r is not None and not r.link_failed and r.rc == 0:
                ok, why = observe(obs, r)
                if not ok:
                    return "viol", {"key": "wrong_value", "sig": f"wrong_value|{tup}", "what": f"{name}: {why}", "witness": wit}, None, None
            return "ok", None, None, "accepted" if c.accepted else "rejected"
        return "inconc", None, f"no verdict: {name} rc={c.rc}", None
    # const
    if c.rejected:
        return "viol", {"key": "rejected_const", "sig": f"rejected_const|{tup}",
                        "what": f"a const expression is rejected: {name}: {diags[:3]}", "witness": wit}, None, None
    if not c.accepted:
        return "inconc", None, f"no verdict: {name} rc={c.rc}", None
    if r is None or r.link_failed or r.timed_out:
        return "inconc", None, f"accepted program did not link/run: {name}: {getattr(r, 'link_err', '')[-200:]}", None
    ok, why = observe(obs, r)
    if not ok:
        return "viol", {"key": "wrong_value", "sig": f"wrong_value|{tup}", "what": f"{name}: {why} (exit rc={r.rc} sig={r.sig})", "witness": wit}, None, None
    if r.rc != 0:
        return "inconc", None, f"accepted program printed the right values but exited rc={r.rc} sig={r.sig}: {name}", None
    return "ok", None, None, "accepted+value"


def run(tier, seed):
    t0 = time.time()
    C.build_cli()
    C.build_rt()
    work = C.fresh_dir("C15")
    rng = C.Rng(seed, 15)
    cs = cases(tier, rng)
    results = C.pmap(run_case, [(work, i, c) for i, c in enumerate(cs)])
    viol, inconc, sigs, samples = [], [], set(), []
    cnt = {"programs_compiled": len(cs), "const_accepted_value_checked": 0, "non_const_rejected": 0, "either": 0}
    evals = 0
    for case, files, obs, c, r in results:
        verdict, v, inc, dk = judge(case, files, obs, c, r)
        if verdict == "inconc":
            inconc.append(inc)
            continue
        evals += 1
        if v is not None:
            viol.append(v)
            continue
        sigs.add((case["kind"], case["position"], case["sub"], case["layout"]))
        if case["expect"] == "const":
            cnt["const_accepted_value_checked"] += 1
        elif case["expect"] == "nonconst":
            cnt["non_const_rejected"] += 1
            cnt["diag: " + dk] = cnt.get("diag: " + dk, 0) + 1
        else:
            cnt["either"] += 1
            cnt[f"either_{dk}"] = cnt.get(f"either_{dk}", 0) + 1
        want = {("global_ref_global", "array_len", "const"), ("local_mut", "type_annot", "nonconst"), ("extern_global", "comptime_arg", "nonconst"),
                ("imported_chain", "discriminant", "const"), ("arith_global", "array_len", "nonconst")}
        key = (case["kind"], case["position"], case["expect"])
        if key in want and not [s for s in samples if (s["kind"], s["position"].split("/")[0]) == key[:2]]:
            samples.append({"kind": case["kind"], "position": case["position"] + "/" + case["sub"], "layout": case["layout"], "value": case["value"], "expect": case["expect"],
                            "main.capy": files["main.capy"][len(R.PRELUDE):], "o.capy": files.get("o.capy"),
                            "observed": (r.out.strip()[:120] if r is not None else c.diag_kinds()[:2])})
    seen, uniq = set(), []
    for v in viol:
        s = v["key"] + "|" + v["sig"]
        if s not in seen:
            seen.add(s)
            uniq.append(v)
    rep = {"evaluations": evals, "distinct_nontrivial": len(sigs), "violations": uniq, "samples": samples, "counters": cnt,
           "notes": [f"{len(viol) - len(uniq)} further violations share a signature with a reported one"] if len(viol) > len(uniq) else [],
           "exhaustive": False, "dropped_violations": len(viol) - len(uniq)}
    return C.finish("C15", tier, seed, t0, "exploration", rep, ASSUME, RULE, min_evals=250, inconclusive=inconc)


def replay(path):
    w = json.load(open(os.path.join(path, "witness.json")))
    wit = w.get("witness") or {}
    files = wit.get("files")
    if not files:
        print(json.dumps(w, indent=1)[:3000])
        return run("quick", 0)
    C.build_cli()
    C.build_rt()
    work = C.fresh_dir("C15", "replay")
    d = os.path.join(work, "case")
    c = R.compile_capy(d, files)
    for name, text in files.items():
        print(f"--- {name}\n{text[len(R.PRELUDE):] if text.startswith(R.PRELUDE) else text}")
    print(f"--- accepted={c.accepted} rejected={c.rejected} internal_error={c.internal_error}\n{c.brief()[:1200]}")
    r = R.link_and_run(d, c.obj) if c.accepted and wit.get("expect") != "nonconst" else None
    if r is not None:
        print(f"--- run rc={r.rc} sig={r.sig}\n{r.out[:400]}")
    case = {"kind": wit.get("kind"), "position": wit.get("position"), "sub": wit.get("sub"), "layout": wit.get("layout"), "value": wit.get("value"), "expect": wit.get("expect")}
    verdict, v, inc, _ = judge(case, files, wit.get("obs") or {}, c, r)
    shutil.rmtree(work, ignore_errors=True)
    if v is not None:
        print(f"VIOLATION property=C15 replay={path}")
        print(f"  {v['key']}: {v['what'][:400]}")
        return 1
    if verdict == "inconc":
        print(f"INCONCLUSIVE property=C15: {inc}")
        return 2
    print("the recorded violation does not reproduce on the current tree")
    return 0
