"""C16 — generic calls behave like calls to hand-substituted copies.

Workload: generated programs (main.capy + an imported o.capy) with 2-4 generic functions (1-3 comptime parameters: types of every
integer width, f32/f64, bool, char, distinct types, named structs, array types; integers of several types), whose bodies are
composed from a deterministic fragment that USES the comptime parameters (arithmetic in T with `T.(..)` casts, wrapping that
differs per width, `[N]T` locals, loops to N, element stride, struct fields, local aliases / local structs of T, inline header
references `x: T`, `ys: [3]T`, `p: ^mut T`, `sl: []T`, `rest: ...T`, `-> T` / `-> [3]T` / `-> struct { v: T, .. }`, nested generic
calls that forward or replace the comptime arguments, generics defined in the imported file that use that file's own scope,
two type parameters with conversions between them, `comptime D: T` value parameters typed by an earlier type parameter, type-returning
generics `(comptime T: type, comptime N: usize) -> type { struct {..} }` used from main through `comptime g(..)`, and non-generic
wrappers in the imported file that request the same instantiation as main).
Each generic is instantiated 1-4 times with equal and with conflicting comptime arguments (instantiations that differ in exactly
one argument, distinct type vs underlying type, structurally identical structs), the call sites of all generics interleaved.
For every distinct instantiation the generator emits the hand-substituted copy (substitution on the generator's AST) and calls
it with the same run-time arguments in the same program.

Monitors: the CLI's verdict, and the executable's event log (every trace statement inside the functions and every leaf of
every result, tagged with ids that are disjoint per call).

Oracle: (1) events of the generic call == events of the copy; (2) both == a reference interpreter of the substituted copy
(c16_lang.Interp: a generic call IS its substitution); (3) call sites with equal arguments and equal inputs give identical events.
A rejected program whose copies-only version is accepted is a violation; internal errors and hangs of the compiler are violations.
"""
import json
import os
import re
import shutil
import time

from .. import common as C
from .. import capyrun as R
from .. import c16_lang as L
from ..c16_lang import P, I64, U64, USIZE, BOOL, Func, World

RULE = ("one case = one generic function of a generated program with its call sites; program = 2-4 generics (families: num-int, num-float, struct, "
        "array-type, eq, ints-only, conv = two type parameters, tygen = type-returning generic used from main; 1-3 comptime parameters in shuffled order, run-time parameters before/after them), each with a random subset of body "
        "features and 1-4 call sites following an instantiation pattern (A, AA, AB, ABA, ABAB, ABC, ABCA, AABB; B/C differ from A in exactly one comptime "
        "argument), call sites of all generics shuffled; quick = 250 programs, thorough = 6000; non-trivial = every case (a generic instantiation whose "
        "events were compared with its copy and with the model); distinct = distinct (comptime parameter kinds, body feature set, instantiation pattern incl. "
        "which argument varies and how) tuples; evaluations = call sites judged")
ASSUME = ["hand substitution replaces a comptime type parameter by the argument's type expression and a comptime value parameter by a typed literal "
          "(`usize.(5)`), a bare literal where a constant is required (array length, comptime argument of a nested call); named constants / comptime "
          "blocks used as arguments are substituted by their value",
          "the copy of a generic defined in the imported file is placed in main.capy with its references to that file's globals qualified (`o.K`)",
          "wrapping two's-complement arithmetic, IEEE f32/f64 (+ - *), zero default values and natural C-like layout with alignment capped at 8 (element stride) are the reference "
          "semantics of the model; a disagreement of generic AND copy with the model is reported under a separate key (model_mismatch)",
          "features known to crash the compiler (comptime block inside a generic body, inline header reference to a comptime VALUE parameter such as "
          "`xs: [N]T`, `comptime B: bool` parameters, `comptime D: T` in a generic of the imported file, self-recursive generic calls, a comptime block as argument inside `comptime g(..)`) are probed once per run with a pinned program and only enter the bulk "
          "generator when that probe passes completely"]

INTS = ["i8", "i16", "i32", "i64", "i128", "isize", "u8", "u16", "u32", "u64", "u128", "usize"]
CV_TYPES = ["usize", "i64", "u8", "i32", "u64", "u16", "i8", "u32", "i16"]
T = ("tp", "T")
SITE_STRIDE = 2000


def named(n, home="main"):
    return ("named", n, home)


def lit(v, t=I64):
    return ("lit", v, t)


def tl(v, t=T):
    """T.(v)"""
    return ("cast", t, lit(v))


def var(n):
    return ("var", n)


def bin_(op, a, b):
    return ("bin", op, a, b)


def base_world():
    w = World()
    w.add_type("main", "D8", ("distinct", P("i8")))
    w.add_type("main", "DU16", ("distinct", P("u16")))
    w.add_type("main", "D64", ("distinct", P("i64")))
    w.add_type("main", "DF32", ("distinct", P("f32")))
    w.add_type("main", "SA", ("struct", (("a", P("i8")), ("b", P("i64")))))
    w.add_type("main", "SB", ("struct", (("a", P("i8")), ("b", P("i64")))))
    w.add_type("main", "SC", ("struct", (("a", P("i64")), ("b", P("i8")))))
    w.add_type("main", "SD", ("struct", (("a", P("u16")), ("b", P("u32")))))
    w.add_type("main", "OS", ("struct", (("a", P("i64")), ("b", P("i64")))))
    w.add_type("main", "TyA", ("alias", P("i16")))
    w.add_type("main", "TyB", ("alias", P("u64")))
    w.add_const("main", "NA", USIZE, 5)
    w.add_const("main", "NB", USIZE, 3)
    w.add_const("main", "KA", I64, 77)
    w.add_const("main", "OK", I64, 1000)
    w.add_type("o", "OD", ("distinct", P("u8")))
    w.add_type("o", "OS", ("struct", (("a", P("i32")), ("b", P("i8")))))
    w.add_const("o", "OK", I64, 7)
    for home, c, m in (("main", 2, 2), ("o", 1, 3)):
        w.add_func(Func("hlp", home, [("T", "ct", None), ("x", "rt", T)], T, [], bin_("+", var("x"), tl(c)), meta={"helper": True}))
        w.add_func(Func("oplain", home, [("x", "rt", I64)], I64, [], bin_("*", var("x"), lit(m)), meta={"helper": True}))
    return w


INT_POOL = [P(n) for n in INTS] + [named("D8"), named("DU16"), named("D64"), named("OD", "o"), named("TyA"), named("TyB")]
FLOAT_POOL = [P("f32"), P("f64"), named("DF32")]
STRUCT_POOL = [named("SA"), named("SB"), named("SC"), named("SD"), named("OS"), named("OS", "o")]
CONV_POOL = [P(n) for n in INTS] + [named("TyA"), named("TyB")]
EQ_POOL = INT_POOL + [P("f32"), P("f64"), P("bool"), P("char"), named("DF32")]
ARR_ELEMS = [P("i8"), P("i16"), P("u8"), P("i64"), P("u32"), named("D8"), P("u16")]
# (a, b): b has the same representation as a but is a different type
TWINS = {repr(named("D8")): P("i8"), repr(P("i8")): named("D8"), repr(named("DU16")): P("u16"), repr(P("u16")): named("DU16"),
         repr(named("D64")): P("i64"), repr(P("i64")): named("D64"), repr(named("DF32")): P("f32"), repr(P("f32")): named("DF32"),
         repr(named("TyA")): P("i16"), repr(P("i16")): named("TyA"), repr(named("SA")): named("SB"), repr(named("SB")): named("SA"),
         repr(named("OD", "o")): P("u8"), repr(P("u8")): named("OD", "o")}


def cv_range(tname):
    bits = L.INT_BITS[tname]
    hi = (1 << (bits - 1)) - 1 if tname[0] == "i" else (1 << bits) - 1
    return min(hi, (1 << 62))


# --------------------------------------------------------------------------- function generator

class Builder:
    """builds one generic function of a family; collects statements, features and trace labels"""

    def __init__(self, rng, world, name, home, family, gates):
        self.rng, self.w, self.name, self.home, self.family, self.gates = rng, world, name, home, family, gates
        self.body, self.feats, self.k = [], [], 0
        self.cparams, self.rparams = [], []
        self.ncall = 0
        self.callees = []
        self.minN_req = 1

    def trace(self, kind, e, label):
        if self.k >= 9:
            return
        self.k += 1
        self.body.append(("trace", self.k, kind, e, f"{self.family}.{label}"))

    def has(self, n):
        return any(p[0] == n for p in self.cparams)

    def cv_type(self, n):
        for p in self.cparams:
            if p[0] == n:
                return p[2]
        return None


def nestable(f):
    return (f.meta.get("family") in ("numi", "numf") and f.meta.get("ret") == "T" and f.height <= 1
            and all(n in ("x", "y", "base", "rest") for n, k, _ in f.params if k in ("rt", "va")))


def nested_call(b, callee, tmode, src_T, src_expr, height_holder):
    """call of an earlier generic from inside the body under construction. tmode: 'fwd' (forward T) or a fixed closed type"""
    rng = b.rng
    b.ncall += 1
    j = b.ncall
    targ = T if tmode == "fwd" else tmode
    args = []
    for n, k, t in callee.params:
        if k == "ct":
            args.append(("T", targ))
        elif k == "cv" and n == "D":
            if tmode == "fwd" and b.has("D"):
                args.append(("V", ("cp", "D")))
            else:
                args.append(("V", ("n", 2.5 if callee.meta.get("flt") else rng.range(1, 100))))
        elif k == "cv":
            mine = b.cv_type(n)
            if mine is not None and mine == t and rng.chance(2, 3):
                args.append(("V", ("cp", n)))
                if n == "N":
                    b.minN_req = max(b.minN_req, callee.meta.get("minN", 1))
            else:
                lo = 2 if (n == "N" and callee.meta.get("minN", 1) >= 2) else 1
                v = rng.range(lo, 6) if n == "N" else rng.range(0, min(cv_range(t[1]), 120))
                args.append(("V", ("n", v)))
        elif k == "rt" and n == "base":
            args.append(("E", ("BASEOFF", j)))
        elif k == "rt":
            args.append(("E", src_expr if tmode == "fwd" else ("cast", targ, src_expr)))
        elif k == "va":
            for _ in range(rng.below(3)):
                args.append(("E", src_expr if tmode == "fwd" else ("cast", targ, src_expr)))
    b.callees.append(callee)
    return ("call", (callee.name, callee.home), tuple(args))


def fix_baseoff(node, height):
    """replace ("BASEOFF", j) by base + j * 10**height"""
    if isinstance(node, tuple):
        if len(node) == 2 and node[0] == "BASEOFF":
            return bin_("+", var("base"), lit(node[1] * 10 ** height))
        return tuple(fix_baseoff(x, height) for x in node)
    if isinstance(node, list):
        return [fix_baseoff(x, height) for x in node]
    return node


def order_params(rng, cparams, rparams, va):
    """comptime parameters in shuffled order; `base` (and sometimes the first run-time parameter) may come before them"""
    cps = list(cparams)
    rng.shuffle(cps)
    dps = [c for c in cps if c[0] == "D"]
    if dps:
        cps = [c for c in cps if c[0] != "D"]
        ti = [c[0] for c in cps].index("T")
        cps.insert(rng.range(ti + 1, len(cps)), dps[0])
    rps = list(rparams)
    basep = ("base", "rt", I64)
    pre, post = [], []
    r = rng.below(4)
    if r == 0:
        pre = [basep]
        post = rps
    elif r == 1:
        post = [basep] + rps
    else:
        post = rps + [basep]
    # a run-time parameter whose type does not mention a comptime parameter may also stand first
    return pre + cps + post + ([va] if va else [])


def gen_num(b, flt, earlier, leaf=False):
    rng = b.rng
    tk = "f64" if flt else "i64"
    b.cparams.append(("T", "ct", None))
    if rng.chance(3, 5):
        b.cparams.append(("N", "cv", USIZE))
    if rng.chance(1, 2):
        b.cparams.append(("K", "cv", P(rng.pick(CV_TYPES))))
    if rng.chance(1, 8) and not leaf and (b.home == "main" or b.gates.get("dparam_imported")):
        b.cparams.append(("D", "cv", T))      # a comptime value parameter whose type is the earlier comptime type parameter
    b.rparams.append(("x", "rt", T))
    acc = var("acc")
    S = b.body
    S.append(("let", "acc", T, var("x")))
    c1, c2 = rng.range(2, 7), rng.range(1, 90)
    S.append(("assign", acc, bin_("+", bin_("*", acc, tl(c1)), tl(c2))))
    b.trace(tk, acc, "wrap")
    b.feats.append("wrap")
    if b.has("D"):
        S.append(("assign", acc, bin_("+", bin_("*", acc, ("cpv", "D")), ("cpv", "D"))))
        b.trace(tk, acc, "d")
        b.feats.append("dparam")
    opts = ["k", "loopN", "arrN", "y", "inarr", "ptr", "slice", "va", "alias", "lstruct", "nest", "nestfix", "scope", "cmp", "bits"]
    if b.gates.get("comptime_block"):
        opts.append("ctblock")
    if b.gates.get("inline_len"):
        opts.append("inlen")
    if leaf:
        opts = [o for o in opts if o in ("k", "loopN", "arrN", "y", "va", "alias", "lstruct", "scope", "cmp", "bits")]
    chosen = [o for o in opts if rng.chance(1, 3)]
    if earlier and (leaf == "mid" or (not leaf and rng.chance(1, 2))) and "nest" not in chosen and "nestfix" not in chosen:
        chosen.insert(rng.below(len(chosen) + 1), rng.pick(["nest", "nestfix"]))
    va = None
    minN = 1
    for o in chosen:
        if o == "k" and b.has("K"):
            S.append(("assign", acc, bin_("+", acc, ("cast", T, ("cpv", "K")))))
            b.trace(tk, acc, "k")
        elif o == "loopN" and b.has("N"):
            S.append(("let", "li", USIZE, lit(0, USIZE)))
            S.append(("while", bin_("<", var("li"), ("cpv", "N")),
                      [("assign", acc, bin_("+", bin_("*", acc, tl(3)), ("cast", T, var("li")))),
                       ("assign", var("li"), bin_("+", var("li"), lit(1, USIZE)))]))
            b.trace(tk, acc, "loopN")
        elif o == "arrN" and b.has("N"):
            S.append(("let", "arr", ("arr", ("cp", "N"), T), None))
            S.append(("let", "ai", USIZE, lit(0, USIZE)))
            S.append(("while", bin_("<", var("ai"), ("cpv", "N")),
                      [("assign", ("idx", var("arr"), var("ai")), acc),
                       ("assign", acc, bin_("+", acc, tl(rng.range(1, 50)))),
                       ("assign", var("ai"), bin_("+", var("ai"), lit(1, USIZE)))]))
            S.append(("let", "asum", T, tl(0)))
            S.append(("let", "aj", USIZE, ("len", var("arr"))))
            S.append(("while", bin_(">", var("aj"), lit(0, USIZE)),
                      [("assign", var("aj"), bin_("-", var("aj"), lit(1, USIZE))),
                       ("assign", var("asum"), bin_("+", bin_("*", var("asum"), tl(2)), ("idx", var("arr"), var("aj"))))]))
            b.trace("u64", ("len", var("arr")), "arrN.len")
            b.trace(tk, var("asum"), "arrN.sum")
            S.append(("assign", acc, bin_("+", acc, var("asum"))))
            if rng.chance(1, 2):
                minN = 2
                S.append(("stride", "sd", "arr"))
                b.trace("u64", var("sd"), "stride")
                b.feats.append("stride")
        elif o == "y":
            b.rparams.append(("y", "rt", T))
            S.append(("if", bin_("<", acc, var("y")), [("assign", acc, bin_("+", acc, var("y")))], [("assign", acc, bin_("-", acc, var("y")))]))
            b.trace(tk, acc, "y")
        elif o == "inarr":
            b.rparams.append(("ys", "rt", ("arr", ("n", 3), T)))
            S.append(("assign", acc, bin_("+", acc, bin_("*", ("idx", var("ys"), lit(1, USIZE)), ("idx", var("ys"), lit(2, USIZE))))))
            b.trace(tk, acc, "inarr")
        elif o == "inlen" and b.has("N"):
            b.rparams.append(("zs", "rt", ("arr", ("cp", "N"), T)))
            S.append(("let", "zi", USIZE, lit(0, USIZE)))
            S.append(("while", bin_("<", var("zi"), ("len", var("zs"))),
                      [("assign", acc, bin_("+", bin_("*", acc, tl(2)), ("idx", var("zs"), var("zi")))),
                       ("assign", var("zi"), bin_("+", var("zi"), lit(1, USIZE)))]))
            b.trace(tk, acc, "inlen")
        elif o == "ptr":
            b.rparams.append(("p", "rt", ("ptr", True, T)))
            S.append(("assign", ("deref", var("p")), bin_("+", ("deref", var("p")), acc)))
            S.append(("assign", acc, bin_("+", acc, ("deref", var("p")))))
            b.trace(tk, acc, "ptr")
        elif o == "slice":
            b.rparams.append(("sl", "rt", ("slice", T)))
            S.append(("let", "si", USIZE, lit(0, USIZE)))
            S.append(("while", bin_("<", var("si"), ("len", var("sl"))),
                      [("assign", acc, bin_("+", bin_("*", acc, tl(2)), ("idx", var("sl"), var("si")))),
                       ("assign", var("si"), bin_("+", var("si"), lit(1, USIZE)))]))
            b.trace("u64", ("len", var("sl")), "slice.len")
            b.trace(tk, acc, "slice")
        elif o == "va":
            va = ("rest", "va", T)
            S.append(("let", "vi", USIZE, lit(0, USIZE)))
            S.append(("while", bin_("<", var("vi"), ("len", var("rest"))),
                      [("assign", acc, bin_("-", bin_("*", acc, tl(3)), ("idx", var("rest"), var("vi")))),
                       ("assign", var("vi"), bin_("+", var("vi"), lit(1, USIZE)))]))
            b.trace("u64", ("len", var("rest")), "va.len")
            b.trace(tk, acc, "va")
        elif o == "alias":
            S.append(("ltype", "U", T))
            S.append(("let", "u", ("lnamed", "U"), ("cast", ("lnamed", "U"), lit(rng.range(1, 99)))))
            S.append(("assign", acc, bin_("*", acc, var("u"))))
            b.trace(tk, acc, "alias")
        elif o == "lstruct":
            S.append(("ltype", "LS", ("structdecl", (("a", T), ("b", T)))))
            S.append(("let", "ls", ("lnamed", "LS"), ("slit", ("lnamed", "LS"), (("a", acc), ("b", bin_("+", acc, tl(1)))))))
            S.append(("assign", ("fld", var("ls"), "b"), bin_("+", ("fld", var("ls"), "b"), ("fld", var("ls"), "a"))))
            S.append(("assign", acc, ("fld", var("ls"), "b")))
            b.trace(tk, acc, "lstruct")
        elif o in ("nest", "nestfix"):
            cands = [f for f in earlier if nestable(f) and (b.home == "main" or f.home == "o")
                     and (f.meta.get("flt") == flt)]
            if o == "nestfix":
                cands = [f for f in cands if not flt]
            if not cands:
                continue
            cal = rng.pick(cands)
            if o == "nest":
                S.append(("assign", acc, bin_("+", acc, nested_call(b, cal, "fwd", T, acc, None))))
            else:
                ft = P(rng.pick(["i16", "u8", "i64", "u32", "i8"]))
                S.append(("assign", acc, bin_("+", acc, ("cast", T, nested_call(b, cal, ft, T, acc, None)))))
            b.trace(tk, acc, o)
        elif o == "scope":
            # globals of the defining file that have namesakes with other values in the other file
            S.append(("assign", acc, bin_("+", acc, ("cast", T, ("gconst", "OK", b.home)))))
            S.append(("assign", acc, bin_("+", acc, ("cast", T, ("call", ("oplain", b.home), (("E", lit(3)),))))))
            S.append(("assign", acc, ("call", ("hlp", b.home), (("T", T), ("E", acc)))))
            b.trace(tk, acc, "scope")
        elif o == "cmp":
            b.trace("bool", bin_(">", acc, tl(rng.range(1, 100))), "cmp")
        elif o == "bits" and not flt:
            S.append(("assign", acc, bin_("~", bin_("&", acc, tl(rng.range(1, 100))), bin_("|", acc, tl(rng.range(1, 100))))))
            b.trace(tk, acc, "bits")
        elif o == "ctblock":
            a1, a2 = rng.range(1, 40), rng.range(1, 40)
            S.append(("assign", acc, bin_("+", acc, ("cast", T, ("ctb", f"{a1} + {a2}", a1 + a2, I64)))))
            b.trace(tk, acc, "ctblock")
        else:
            continue
        b.feats.append(o)
    rk = rng.weighted([("T", 6), ("anon", 2), ("arr3", 2), ("void", 1)] + ([] if flt else [("i64", 1)]))
    if leaf:
        rk = "T"
    ret, tail = T, acc
    if rk == "anon":
        ret = ("anon", (("v", T), ("w", I64)))
        tail = ("anonlit", (("v", acc), ("w", lit(rng.range(1, 1000)))), ret)
    elif rk == "arr3":
        ret = ("arr", ("n", 3), T)
        S.append(("let", "r3", ret, None))
        S.append(("assign", ("idx", var("r3"), lit(0, USIZE)), acc))
        S.append(("assign", ("idx", var("r3"), lit(1, USIZE)), bin_("+", acc, acc)))
        S.append(("assign", ("idx", var("r3"), lit(2, USIZE)), bin_("*", acc, acc)))
        tail = var("r3")
    elif rk == "void":
        ret, tail = None, None
    elif rk == "i64":
        ret, tail = I64, ("cast", I64, acc)
    b.feats.append("ret_" + rk)
    return ret, tail, va, {"family": "numf" if flt else "numi", "flt": flt, "ret": rk, "minN": minN}


def gen_struct(b, earlier):
    rng = b.rng
    b.cparams.append(("T", "ct", None))
    if rng.chance(1, 2):
        b.cparams.append(("N", "cv", USIZE))
    if rng.chance(1, 2):
        b.cparams.append(("K", "cv", P(rng.pick(CV_TYPES))))
    b.rparams.append(("x", "rt", T))
    S = b.body
    w_ = var("w")
    xa, xb = ("fld", var("x"), "a"), ("fld", var("x"), "b")
    S.append(("let", "w", I64, bin_("+", bin_("*", ("cast", I64, xa), lit(3)), ("cast", I64, xb))))
    b.trace("i64", w_, "fields")
    b.feats.append("fields")
    S.append(("let", "y", T, var("x")))
    minN = 1
    for o in [o for o in ["fieldwrap", "k", "arrN", "nest", "scope", "ptr"] if rng.chance(2 if o == "nest" else 1, 2 if o != "nest" else 3)]:
        if o == "fieldwrap":
            ya, yb = ("fld", var("y"), "a"), ("fld", var("y"), "b")
            S.append(("assign", ya, bin_("+", ya, ya)))
            S.append(("assign", yb, bin_("*", yb, yb)))
            b.trace("i64", ya, "fieldwrap.a")
            b.trace("i64", yb, "fieldwrap.b")
            S.append(("assign", w_, bin_("+", w_, ("cast", I64, ya))))
        elif o == "k" and b.has("K"):
            S.append(("assign", w_, bin_("+", bin_("*", w_, lit(5)), ("cast", I64, ("cpv", "K")))))
            b.trace("i64", w_, "k")
        elif o == "arrN" and b.has("N"):
            S.append(("let", "arr", ("arr", ("cp", "N"), T), None))
            S.append(("let", "ai", USIZE, lit(0, USIZE)))
            el = ("idx", var("arr"), var("ai"))
            S.append(("while", bin_("<", var("ai"), ("cpv", "N")),
                      [("assign", el, var("y")),
                       ("assign", ("fld", var("y"), "a"), bin_("+", ("fld", var("y"), "a"), ("fld", el, "a"))),
                       ("assign", w_, bin_("+", bin_("*", w_, lit(3)), ("cast", I64, ("fld", el, "a")))),
                       ("assign", var("ai"), bin_("+", var("ai"), lit(1, USIZE)))]))
            b.trace("u64", ("len", var("arr")), "arrN.len")
            b.trace("i64", w_, "arrN")
            if rng.chance(1, 2):
                minN = 2
                S.append(("stride", "sd", "arr"))
                b.trace("u64", var("sd"), "stride")
                b.feats.append("stride")
        elif o == "nest":
            cands = [f for f in earlier if nestable(f) and (b.home == "main" or f.home == "o") and not f.meta.get("flt")]
            if not cands:
                continue
            ft = P(rng.pick(["i16", "u8", "i64", "u32", "i8"]))
            S.append(("assign", w_, bin_("+", w_, ("cast", I64, nested_call(b, rng.pick(cands), ft, None, xa, None)))))
            b.trace("i64", w_, "nest")
        elif o == "scope":
            fts = dict(b.w.types[(b.home, "OS")][1])
            S.append(("let", "os", named("OS", b.home), ("slit", named("OS", b.home), (("a", lit(rng.range(1, 100), fts["a"])), ("b", lit(rng.range(1, 100), fts["b"]))))))
            S.append(("assign", ("fld", var("os"), "b"), bin_("*", ("fld", var("os"), "b"), ("fld", var("os"), "b"))))
            S.append(("assign", w_, bin_("+", w_, bin_("+", ("cast", I64, ("fld", var("os"), "b")), ("gconst", "OK", b.home)))))
            b.trace("i64", w_, "scope")
        elif o == "ptr":
            b.rparams.append(("p", "rt", ("ptr", True, T)))
            S.append(("assign", ("fld", var("p"), "a"), bin_("+", ("fld", var("p"), "a"), ("fld", var("y"), "a"))))
            S.append(("assign", w_, bin_("+", w_, ("cast", I64, ("fld", var("p"), "a")))))
            b.trace("i64", w_, "ptr")
        else:
            continue
        b.feats.append(o)
    rk = rng.weighted([("i64", 3), ("T", 3), ("anon", 1)])
    if rk == "i64":
        ret, tail = I64, w_
    elif rk == "T":
        ret, tail = T, var("y")
    else:
        ret = ("anon", (("v", T), ("w", I64)))
        tail = ("anonlit", (("v", var("y")), ("w", w_)), ret)
    b.feats.append("ret_" + rk)
    return ret, tail, None, {"family": "struct", "ret": rk, "minN": minN}


def gen_arrt(b):
    rng = b.rng
    b.cparams.append(("T", "ct", None))
    if rng.chance(1, 2):
        b.cparams.append(("K", "cv", P(rng.pick(CV_TYPES))))
    b.rparams.append(("x", "rt", T))
    S = b.body
    s_ = var("s")
    S.append(("let", "s", I64, lit(0)))
    S.append(("let", "i", USIZE, lit(0, USIZE)))
    S.append(("while", bin_("<", var("i"), ("len", var("x"))),
              [("assign", s_, bin_("+", bin_("*", s_, lit(31)), ("cast", I64, ("idx", var("x"), var("i"))))),
               ("assign", var("i"), bin_("+", var("i"), lit(1, USIZE)))]))
    b.trace("u64", ("len", var("x")), "len")
    b.trace("i64", s_, "elems")
    b.feats.append("elems")
    S.append(("let", "y", T, var("x")))
    if rng.chance(2, 3):
        y0 = ("idx", var("y"), lit(0, USIZE))
        S.append(("assign", y0, bin_("+", bin_("*", y0, y0), y0)))
        S.append(("assign", s_, bin_("+", s_, ("cast", I64, y0))))
        b.trace("i64", s_, "elemwrap")
        b.feats.append("elemwrap")
    if b.has("K") and rng.chance(2, 3):
        S.append(("assign", s_, bin_("+", bin_("*", s_, lit(7)), ("cast", I64, ("cpv", "K")))))
        b.trace("i64", s_, "k")
        b.feats.append("k")
    if rng.chance(1, 3):
        S.append(("let", "two", ("arr", ("n", 2), T), None))
        S.append(("assign", ("idx", var("two"), lit(1, USIZE)), var("y")))
        S.append(("stride", "sd", "two"))
        b.trace("u64", var("sd"), "stride")
        b.feats.append("stride")
    rk = rng.pick(["i64", "T"])
    b.feats.append("ret_" + rk)
    return (I64, s_, None, {"family": "arrt", "ret": rk}) if rk == "i64" else (T, var("y"), None, {"family": "arrt", "ret": rk})


def gen_eq(b):
    rng = b.rng
    b.cparams.append(("T", "ct", None))
    if rng.chance(2, 3):
        b.cparams.append(("N", "cv", USIZE))
    b.rparams += [("x", "rt", T), ("y", "rt", T)]
    S = b.body
    S.append(("let", "z", T, var("x")))
    S.append(("let", "r", BOOL, bin_("==", var("z"), var("y"))))
    b.trace("bool", var("r"), "eq")
    b.feats.append("eq")
    S.append(("let", "cnt", U64, lit(0, U64)))
    minN = 1
    if b.has("N") and rng.chance(3, 4):
        S.append(("let", "arr", ("arr", ("cp", "N"), T), None))
        S.append(("let", "i", USIZE, lit(0, USIZE)))
        S.append(("while", bin_("<", var("i"), ("cpv", "N")),
                  [("if", bin_("==", bin_("&", var("i"), lit(1, USIZE)), lit(0, USIZE)),
                    [("assign", ("idx", var("arr"), var("i")), var("x"))], [("assign", ("idx", var("arr"), var("i")), var("y"))]),
                   ("assign", var("i"), bin_("+", var("i"), lit(1, USIZE)))]))
        S.append(("assign", var("i"), lit(0, USIZE)))
        S.append(("while", bin_("<", var("i"), ("len", var("arr"))),
                  [("if", bin_("==", ("idx", var("arr"), var("i")), var("x")), [("assign", var("cnt"), bin_("+", var("cnt"), lit(1, U64)))], []),
                   ("assign", var("i"), bin_("+", var("i"), lit(1, USIZE)))]))
        b.trace("u64", var("cnt"), "arrN.count")
        b.feats.append("arrN")
        if rng.chance(1, 2):
            minN = 2
            S.append(("stride", "sd", "arr"))
            b.trace("u64", var("sd"), "stride")
            b.feats.append("stride")
    if rng.chance(1, 2):
        S.append(("ltype", "U", T))
        S.append(("let", "u", ("lnamed", "U"), var("y")))
        b.trace("bool", bin_("!=", var("u"), var("z")), "alias")
        b.feats.append("alias")
    rk = rng.pick(["bool", "u64", "T"])
    b.feats.append("ret_" + rk)
    ret, tail = {"bool": (BOOL, var("r")), "u64": (U64, var("cnt")), "T": (T, var("z"))}[rk]
    return ret, tail, None, {"family": "eq", "ret": rk, "minN": minN}


def gen_ints(b, earlier):
    rng = b.rng
    pool = [("N", "cv", USIZE), ("K", "cv", P(rng.pick(CV_TYPES))), ("J", "cv", P(rng.pick(CV_TYPES)))]
    if b.gates.get("bool_cparam"):
        pool.append(("B", "cv", BOOL))
    n = rng.range(1, 3)
    b.cparams += rng.sample(pool, n)
    b.rparams.append(("x", "rt", I64))
    S = b.body
    acc = var("acc")
    S.append(("let", "acc", I64, bin_("*", var("x"), lit(rng.range(2, 9)))))
    if b.has("K"):
        S.append(("assign", acc, bin_("+", acc, ("cast", I64, ("cpv", "K")))))
        b.trace("i64", acc, "k")
        b.feats.append("k")
    if b.has("J"):
        S.append(("assign", acc, bin_("~", bin_("*", acc, lit(3)), ("cast", I64, ("cpv", "J")))))
        b.trace("i64", acc, "j")
        b.feats.append("j")
    if b.has("B"):
        S.append(("if", ("cpv", "B"), [("assign", acc, bin_("+", acc, lit(1)))], [("assign", acc, bin_("-", acc, lit(1)))]))
        b.trace("i64", acc, "b")
        b.feats.append("b")
    minN = 1
    if b.has("N"):
        S.append(("let", "arr", ("arr", ("cp", "N"), I64), None))
        S.append(("let", "i", USIZE, lit(0, USIZE)))
        S.append(("while", bin_("<", var("i"), ("cpv", "N")),
                  [("assign", ("idx", var("arr"), var("i")), acc),
                   ("assign", acc, bin_("+", bin_("*", acc, lit(3)), ("cast", I64, var("i")))),
                   ("assign", var("i"), bin_("+", var("i"), lit(1, USIZE)))]))
        b.trace("u64", ("len", var("arr")), "arrN.len")
        b.trace("i64", bin_("+", acc, ("idx", var("arr"), bin_("-", ("cpv", "N"), lit(1, USIZE)))), "arrN")
        b.feats.append("arrN")
    if rng.chance(2, 3):
        cands = [f for f in earlier if nestable(f) and (b.home == "main" or f.home == "o") and not f.meta.get("flt")]
        if cands:
            ft = P(rng.pick(["i16", "u8", "i64", "u32"]))
            S.append(("assign", acc, bin_("+", acc, ("cast", I64, nested_call(b, rng.pick(cands), ft, None, acc, None)))))
            b.trace("i64", acc, "nest")
            b.feats.append("nest")
    if rng.chance(1, 3):
        S.append(("assign", acc, bin_("+", acc, bin_("*", ("gconst", "OK", b.home), ("call", ("oplain", b.home), (("E", lit(2)),))))))
        b.trace("i64", acc, "scope")
        b.feats.append("scope")
    b.feats.append("ret_i64")
    return I64, acc, None, {"family": "ints", "ret": "i64", "minN": minN}


def gen_conv(b):
    """two comptime type parameters: conversions between them"""
    rng = b.rng
    U = ("tp", "U")
    b.cparams += [("T", "ct", None), ("U", "ct", None)]
    if rng.chance(1, 2):
        b.cparams.append(("N", "cv", USIZE))
    b.rparams += [("x", "rt", T), ("y", "rt", U)]
    S = b.body
    a_, b_ = var("a"), var("b")
    S.append(("let", "a", U, ("cast", U, var("x"))))
    S.append(("assign", a_, bin_("+", bin_("*", a_, tl(rng.range(2, 9), U)), var("y"))))
    b.trace("i64", a_, "a")
    S.append(("let", "b", T, ("cast", T, a_)))
    S.append(("assign", b_, bin_("+", bin_("*", b_, tl(rng.range(2, 9))), var("x"))))
    b.trace("i64", b_, "b")
    b.feats.append("conv")
    minN = 1
    if b.has("N"):
        S.append(("let", "arr", ("arr", ("cp", "N"), U), None))
        S.append(("let", "brr", ("arr", ("cp", "N"), T), None))
        S.append(("let", "i", USIZE, lit(0, USIZE)))
        S.append(("while", bin_("<", var("i"), ("cpv", "N")),
                  [("assign", ("idx", var("arr"), var("i")), bin_("+", a_, ("cast", U, var("i")))),
                   ("assign", ("idx", var("brr"), var("i")), ("cast", T, ("idx", var("arr"), var("i")))),
                   ("assign", a_, bin_("+", bin_("*", a_, tl(3, U)), ("cast", U, ("idx", var("brr"), var("i"))))),
                   ("assign", var("i"), bin_("+", var("i"), lit(1, USIZE)))]))
        b.trace("i64", a_, "arrN")
        b.feats.append("arrN")
        if rng.chance(1, 2):
            minN = 2
            S.append(("stride", "sd", "arr"))
            S.append(("stride", "se", "brr"))
            b.trace("u64", var("sd"), "stride.U")
            b.trace("u64", var("se"), "stride.T")
            b.feats.append("stride")
    if rng.chance(1, 2):
        S.append(("ltype", "LP", ("structdecl", (("t", T), ("u", U)))))
        S.append(("let", "lp", ("lnamed", "LP"), ("slit", ("lnamed", "LP"), (("t", b_), ("u", a_)))))
        S.append(("assign", ("fld", var("lp"), "u"), bin_("+", ("fld", var("lp"), "u"), ("cast", U, ("fld", var("lp"), "t")))))
        S.append(("assign", a_, ("fld", var("lp"), "u")))
        b.trace("i64", a_, "lstruct")
        b.feats.append("lstruct")
    rk = rng.pick(["U", "T", "anon"])
    b.feats.append("ret_" + rk)
    if rk == "U":
        ret, tail = U, a_
    elif rk == "T":
        ret, tail = T, b_
    else:
        ret = ("anon", (("v", T), ("w", U)))
        tail = ("anonlit", (("v", b_), ("w", a_)), ret)
    return ret, tail, None, {"family": "conv", "ret": rk, "minN": minN}


def gen_tygen(b):
    """a type-generating generic: (comptime T: type, comptime N: usize) -> type { struct { .. } }"""
    rng = b.rng
    b.cparams += [("T", "ct", None), ("N", "cv", USIZE)]
    buf = ("buf", ("arr", ("cp", "N"), T))
    shape = rng.below(3)
    fields = [(buf, ("len", USIZE), ("tag", T)), (("tag", T), ("len", USIZE), buf), (buf, ("tag", T))][shape]
    b.feats += ["tygen", f"shape{shape}"]
    return P("type"), ("tyval", ("anon", tuple(fields))), None, {"family": "tygen", "ret": "type", "minN": 2, "has_len": shape != 2}


def tygen_site(it, s, kind, B, pfx, c):
    """statements of main that use the type made by the generator (kind g) or by its substituted copy (kind c)"""
    f = s.f
    ct_ = s.binding["T"][1]
    flt = it.resolve(ct_, {})[0] == "float"
    tk = "f64" if flt else "i64"
    if kind == "g":
        args = tuple(s.spelled[n] for n, k, t in f.params)
        tg = ("tgcall", (f.name, f.home), args)
    else:
        tg = ("tgcall", (s.copy.name, "main"), ())
    A, a = ("lnamed", pfx + "A"), var(pfx + "a")
    buf = ("fld", a, "buf")
    i_, s_ = var(pfx + "i"), var(pfx + "s")
    el = ("idx", buf, i_)
    v0 = mkval(None, it, ct_, s.sels)
    one = lit(1, USIZE)
    st = [("ltype", pfx + "A", tg), ("let", pfx + "a", A, None), ("let", pfx + "i", USIZE, lit(0, USIZE)),
          ("while", bin_("<", i_, ("len", buf)),
           [("assign", el, bin_("+", v0, ("cast", ct_, i_))), ("assign", el, bin_("*", el, el)), ("assign", i_, bin_("+", i_, one))]),
          ("trace", B + 1, "u64", ("len", buf), "tygen.len"),
          ("let", pfx + "s", ct_, tl(0, ct_)), ("assign", i_, lit(0, USIZE)),
          ("while", bin_("<", i_, ("len", buf)),
           [("assign", s_, bin_("+", bin_("*", s_, tl(3, ct_)), el)), ("assign", i_, bin_("+", i_, one))]),
          ("trace", B + 2, tk, s_, "tygen.sum"),
          ("assign", ("fld", a, "tag"), bin_("+", s_, ("idx", buf, lit(0, USIZE)))),
          ("trace", B + 3, tk, ("fld", a, "tag"), "tygen.tag")]
    if f.meta.get("has_len"):
        st += [("assign", ("fld", a, "len"), bin_("*", ("len", buf), lit(2, USIZE))), ("trace", B + 4, "u64", ("fld", a, "len"), "tygen.lenfield")]
    st += [("let", pfx + "two", ("arr", ("n", 2), A), None), ("stride", pfx + "sd", pfx + "two"), ("trace", B + 5, "u64", var(pfx + "sd"), "tygen.stride")]
    return st


def gen_function(rng, world, name, home, earlier, gates, leaf=False):
    family = rng.weighted([("numi", 8), ("numf", 3), ("struct", 4), ("arrt", 2), ("eq", 3), ("ints", 3), ("conv", 3), ("tygen", 2)])
    if leaf:
        family = rng.weighted([("numi", 4), ("numf", 1)])
    b = Builder(rng, world, name, home, family, gates)
    if family in ("numi", "numf"):
        ret, tail, va, meta = gen_num(b, family == "numf", earlier, leaf)
    elif family == "struct":
        ret, tail, va, meta = gen_struct(b, earlier)
    elif family == "arrt":
        ret, tail, va, meta = gen_arrt(b)
    elif family == "eq":
        ret, tail, va, meta = gen_eq(b)
    elif family == "conv":
        ret, tail, va, meta = gen_conv(b)
    elif family == "tygen":
        ret, tail, va, meta = gen_tygen(b)
    else:
        ret, tail, va, meta = gen_ints(b, earlier)
    height = 1 + max(c.height for c in b.callees) if b.callees else 0
    body = fix_baseoff(b.body, height)
    tail = fix_baseoff(tail, height) if tail is not None else None
    params = order_params(rng, b.cparams, b.rparams, va)
    if family == "tygen":
        params = [p_ for p_ in params if p_[0] != "base"]
    meta.update({"feats": sorted(set(b.feats)), "home": home, "minN": max(meta.get("minN", 1), b.minN_req)})
    return Func(name, home, params, ret, body, tail, height, meta)


# --------------------------------------------------------------------------- instantiations and call sites

PATTERNS = [("A", 3), ("AA", 2), ("AB", 4), ("ABA", 4), ("ABAB", 2), ("ABC", 2), ("ABCA", 2), ("AABB", 1)]


def type_pool(f):
    fam = f.meta["family"]
    if fam == "numi":
        return INT_POOL
    if fam == "numf":
        return FLOAT_POOL
    if fam == "struct":
        return STRUCT_POOL
    if fam == "eq":
        return EQ_POOL
    if fam == "conv":
        return CONV_POOL
    if fam == "tygen":
        return INT_POOL + FLOAT_POOL
    if fam == "arrt":
        return None
    return None


def pick_cv(rng, f, n, t, other=None):
    if t == BOOL:
        return (not other) if other is not None else rng.chance(1, 2)
    if n == "N":
        lo = f.meta.get("minN", 1)
        for _ in range(20):
            v = rng.pick([3, 5]) if rng.chance(1, 3) else rng.range(lo, 9)
            if v != other and v >= lo:
                return v
        return lo + 1 if other == lo else lo
    hi = cv_range(t[1])
    if f.meta["family"] == "numf":
        hi = min(hi, 1000)
    for _ in range(20):
        v = rng.pick([77, hi, hi - 1, 0, 1, hi // 2 + 1]) if rng.chance(1, 2) else rng.range(0, min(hi, 100000))
        if v != other:
            return v
    return 0 if other else 1


def pick_d(rng, it, t, other=None):
    """value of a `comptime D: T` argument for the closed type t"""
    ct = it.resolve(t, {})
    if ct[0] == "float":
        cands = [2.5, 0.125, 100.0, 3.0, 1000.5, 7.75]
    else:
        hi = min((1 << (ct[1] - 1)) - 1 if ct[2] else (1 << ct[1]) - 1, 1 << 62)
        cands = [hi, hi - 1, hi // 2 + 1, 100, 7, 1, 0, hi // 3, 50]
    for _ in range(20):
        v = rng.pick(cands)
        if v != other:
            return v
    return cands[0] if cands[0] != other else cands[1]


def pick_type(rng, f, other=None, how=None):
    if f.meta["family"] == "arrt":
        for _ in range(20):
            t = ("arr", ("n", rng.range(1, 5)), rng.pick(ARR_ELEMS))
            if how == "len" and other is not None:
                t = ("arr", ("n", rng.range(1, 5)), other[2])
            if how == "elem" and other is not None:
                t = ("arr", other[1], rng.pick(ARR_ELEMS))
            if t != other:
                return t
        return ("arr", ("n", 6), P("i32"))
    pool = type_pool(f)
    if how == "twin" and other is not None and repr(other) in TWINS and TWINS[repr(other)] in pool:
        return TWINS[repr(other)]
    for _ in range(20):
        t = rng.pick(pool)
        if t != other:
            return t
    return pool[0]


def vary(rng, it, f, a):
    """-> (binding that differs from `a` in exactly one comptime argument, description of the difference)"""
    cps = [(n, k, t) for n, k, t in f.params if k in ("ct", "cv")]
    n, k, t = rng.pick(cps)
    b = dict(a)
    if n == "D":
        b[n] = ("V", pick_d(rng, it, a["T"][1], a[n][1]), t)
        return b, n
    if k == "ct":
        if f.meta["family"] == "arrt":
            how = rng.pick(["len", "elem", "any"])
        else:
            how = "twin" if rng.chance(1, 4) else "any"
        nt = pick_type(rng, f, a[n][1], how)
        b[n] = ("T", nt)
        if "D" in a:
            # the old value need not fit the new type
            b["D"] = ("V", pick_d(rng, it, nt), a["D"][2])
            return b, "T+D"
        twin = how == "twin" and repr(a[n][1]) in TWINS and TWINS[repr(a[n][1])] == nt
        return b, ("T:twin" if twin else f"T:{how}" if f.meta["family"] == "arrt" else "T")
    b[n] = ("V", pick_cv(rng, f, n, t, a[n][1]), t)
    return b, n


def spell(rng, world, k, val, t, in_main=True):
    """how a comptime argument is written at a call site in main"""
    if k == "ct":
        return ("T", val)
    if t == BOOL:
        return ("V", ("b", bool(val)))
    if t[0] == "tp":
        return ("V", ("n", val))
    if rng.chance(1, 3):
        for (home, name), (ct, cv) in world.consts.items():
            if home == "main" and ct == t and cv == val and name != "OK":
                return ("V", ("cname", name, "main"))
    if rng.chance(1, 8) and val >= 1:
        a = rng.range(0, min(val, 50))
        return ("V", ("cblock", f"{a} + {val - a}", val))
    return ("V", ("n", val))


def int_values(bits, signed):
    hi = (1 << (bits - 1)) - 1 if signed else (1 << bits) - 1
    hi = min(hi, (1 << 63) - 1)
    vals = [hi, hi - 1, hi // 2 + 1, hi // 3, 100, 7, 1, 0, 90, 13]
    if signed:
        vals += [-1, -100, -(hi // 2), -7]
    return vals


def mkval(rng, it, t, sel):
    """closed type -> closed expression of that type; `sel` selects the kind of value so that different types get comparable inputs"""
    ct = it.resolve(t, {})
    k = ct[0]
    if k == "int":
        vals = int_values(ct[1], ct[2])
        v = vals[sel % len(vals)]
        return ("cast", t, lit(v))
    if k == "float":
        v = [1.5, 2.25, 100.0, 0.125, 3.0, -7.5, 12.75, 1000.5, 0.0, 64.0][sel % 10]
        return ("cast", t, ("flit", v))
    if k == "bool":
        return ("blit", sel % 2 == 0)
    if k == "char":
        return ("chlit", "azAZ09 q"[sel % 8])
    if k == "struct":
        decl = it.w.types[(t[2], t[1])][1]
        return ("slit", t, tuple((f, mkval(rng, it, ft, sel + i * 3 + 1)) for i, (f, ft) in enumerate(decl)))
    if k == "array":
        return ("alit", t[2], tuple(mkval(rng, it, t[2], sel + i * 5) for i in range(ct[1])))
    raise AssertionError(ct)


def leaves(it, ct, e, out):
    """trace statements printing every leaf of a value"""
    k = ct[0]
    if k == "int":
        out.append(("hex128" if ct[1] == 128 else "i64" if ct[2] else "u64", e))
    elif k == "float":
        out.append(("f64", e))
    elif k == "bool":
        out.append(("bool", e))
    elif k == "char":
        out.append(("u64", e))
    elif k == "struct":
        for f, ft in ct[1]:
            leaves(it, ft, ("fld", e, f), out)
    elif k == "array":
        for i in range(ct[1]):
            leaves(it, ct[2], ("idx", e, lit(i, USIZE)), out)
    elif k == "void":
        pass
    else:
        raise AssertionError(ct)


class Site:
    __slots__ = ("f", "binding", "label", "spelled", "sels", "nva", "copy", "index", "diff", "wrapper")

    def __init__(self):
        self.wrapper = None


def mentions_main(t):
    if isinstance(t, tuple):
        if len(t) == 3 and t[0] == "named" and t[2] == "main":
            return True
        return any(mentions_main(x) for x in t)
    return False


def make_wrapper(f, binding, name):
    """non-generic function of the imported file that performs the generic call there: the same instantiation is then requested from two files"""
    if f.home != "o" or any(k == "va" for _, k, _ in f.params):
        return None
    ret = L.subst_type(f.ret, binding) if f.ret is not None else None
    if ret is not None and (ret[0] == "anon" or mentions_main(ret)):
        return None
    params, args = [], []
    for n, k, t in f.params:
        if k == "ct":
            if mentions_main(binding[n][1]):
                return None
            args.append(("T", binding[n][1]))
        elif k == "cv":
            args.append(("V", ("b", bool(binding[n][1])) if t == BOOL else ("n", binding[n][1])))
        else:
            ct_ = L.subst_type(t, binding)
            if mentions_main(ct_):
                return None
            params.append((n, "rt", ct_))
            args.append(("E", var(n)))
    call = ("call", (f.name, "o"), tuple(args))
    if ret is None:
        return Func(name, "o", params, None, [("expr", call)], None, f.height, {"wrapper": True})
    return Func(name, "o", params, ret, [], call, f.height, {"wrapper": True})


def binding_key(f, b):
    return (f.home, f.name, tuple((n, repr(b[n][1])) for n, k, _ in f.params if k in ("ct", "cv")))


def gen_program(seed, idx, gates, nfuncs=None):
    rng = C.Rng(seed, 1600000 + idx)
    w = base_world()
    it = L.Interp(w)
    generics = []
    nf = nfuncs or rng.range(2, 4)
    for i in range(nf):
        home = "o" if rng.chance(1, 3) else "main"
        f = gen_function(rng, w, f"g{i}", home, generics, gates, leaf=(i == 0 and rng.chance(1, 2)) or ("mid" if (i == 1 and nf >= 3 and nestable(generics[0]) and rng.chance(1, 2)) else False))
        w.add_func(f)
        generics.append(f)
    sites = []
    copies = {}
    wrappers = {}
    cases = []
    for f in generics:
        pat = rng.weighted(PATTERNS)
        a = {}
        for n, k, t in f.params:
            if k == "ct":
                a[n] = ("T", pick_type(rng, f))
            elif k == "cv" and n == "D":
                a[n] = ("V", pick_d(rng, it, a["T"][1]), t)
            elif k == "cv":
                a[n] = ("V", pick_cv(rng, f, n, t), t)
        binds = {"A": a}
        diffs = []
        if "B" in pat:
            binds["B"], d = vary(rng, it, f, a)
            diffs.append(d)
        if "C" in pat:
            binds["C"], d = vary(rng, it, f, binds["B"] if rng.chance(1, 2) else a)
            diffs.append(d)
        share_sel = rng.chance(1, 2)
        sel0 = rng.below(1000)
        fsites = []
        seen_labels = {}
        for lab in pat:
            s = Site()
            s.f, s.binding, s.label = f, binds[lab], lab
            s.spelled = {n: spell(rng, w, k, binds[lab][n][1], t) for n, k, t in f.params if k in ("ct", "cv")}
            if f.meta["family"] == "tygen":
                # a comptime block as argument inside `comptime g(..)` crashes the compiler (pinned text probe below)
                s.spelled = {n: (("V", ("n", a_[1][2])) if a_[0] == "V" and a_[1][0] == "cblock" else a_) for n, a_ in s.spelled.items()}
            if lab in seen_labels and rng.chance(1, 2):
                s.sels, s.nva = seen_labels[lab].sels, seen_labels[lab].nva       # same inputs: the events must be identical
            else:
                s.sels = sel0 if share_sel else rng.below(1000)
                s.nva = rng.below(4)
            seen_labels.setdefault(lab, s)
            key = binding_key(f, s.binding)
            if key not in copies:
                cp = L.subst_func(f, s.binding, f"{f.name}_c{len(copies)}", "main")
                copies[key] = cp
                w.add_func(cp)
            s.copy = copies[key]
            if rng.chance(1, 3):
                if key not in wrappers:
                    wrappers[key] = make_wrapper(f, s.binding, f"{f.name}_w{len(wrappers)}")
                    if wrappers[key] is not None:
                        w.add_func(wrappers[key])
                s.wrapper = wrappers[key]
            fsites.append(s)
        sites += fsites
        cases.append({"f": f.name, "pattern": pat, "diffs": diffs, "sites": fsites,
                      "kinds": tuple(("type" if k == "ct" else t[1]) for n, k, t in f.params if k in ("ct", "cv"))})
    rng.shuffle(sites)
    body = [("let", "base", I64, lit(0))]
    body_copies_only = [("let", "base", I64, lit(0))]
    for c, s in enumerate(sites):
        s.index = c
        f = s.f
        order = [("g", c * SITE_STRIDE), ("c", c * SITE_STRIDE + SITE_STRIDE // 2)]
        if rng.chance(1, 3):
            order.reverse()
        vals = {}
        for n, k, t in f.params:
            if k in ("rt", "va") and n != "base":
                ct_ = L.subst_type(t, s.binding)
                j = len(vals)
                if k == "va":
                    vals[n] = [mkval(rng, it, ct_, s.sels + 11 * (j + 1) + q) for q in range(s.nva)]
                elif ct_[0] == "ptr":
                    vals[n] = mkval(rng, it, ct_[2], s.sels + 11 * (j + 1))
                elif ct_[0] == "slice":
                    vals[n] = ("alit", ct_[1], tuple(mkval(rng, it, ct_[1], s.sels + 7 * q + j) for q in range(1 + s.sels % 3)))
                else:
                    vals[n] = mkval(rng, it, ct_, s.sels + 11 * j)
        for kind, B in order:
            pfx = f"s{c}{kind}_"
            if f.meta["family"] == "tygen":
                st = tygen_site(it, s, kind, B, pfx, c)
                body += st
                if kind == "c":
                    body_copies_only += st
                continue
            st = []
            args = []
            after = []
            for n, k, t in f.params:
                if k in ("ct", "cv"):
                    if kind == "g" and s.wrapper is None:
                        args.append(s.spelled[n])
                    continue
                ct_ = L.subst_type(t, s.binding)
                if n == "base":
                    args.append(("E", lit(B)))
                elif k == "va":
                    args += [("E", v) for v in vals[n]]
                elif ct_[0] == "ptr":
                    st.append(("let", pfx + "pv", ct_[2], vals[n]))
                    args.append(("E", ("addr", True, var(pfx + "pv"))))
                    after.append((it.resolve(ct_[2], {}), var(pfx + "pv")))
                elif ct_[0] == "slice":
                    st.append(("letinf", pfx + "sl", vals[n]))
                    args.append(("E", var(pfx + "sl")))
                else:
                    args.append(("E", vals[n]))
            callee = ((f.name, f.home) if s.wrapper is None else (s.wrapper.name, "o")) if kind == "g" else (s.copy.name, "main")
            call = ("call", callee, tuple(args))
            lv = []
            if f.ret is None:
                st.append(("expr", call))
            else:
                st.append(("letinf", pfx + "r", call))
                leaves(it, it.resolve(L.subst_type(f.ret, s.binding), {}), var(pfx + "r"), lv)
            for ct2, e2 in after:
                leaves(it, ct2, e2, lv)
            for q, (tk, e) in enumerate(lv):
                st.append(("trace", B + 900 + q, tk, e, "leaf"))
            body += st
            if kind == "c":
                body_copies_only += st
    main = Func("main", "main", [], P("i32"), body, lit(0, P("i32")))
    main_co = Func("main", "main", [], P("i32"), body_copies_only, lit(0, P("i32")))
    return {"world": w, "main": main, "main_co": main_co, "sites": sites, "cases": cases, "generics": generics}


def program_files(prog, copies_only=False):
    w = prog["world"]
    em, eo = L.Emit(w, "main"), L.Emit(w, "o")
    main = prog["main_co"] if copies_only else prog["main"]
    mt = R.PRELUDE + 'o :: #import("o.capy");\n' + em.file_text() + em.func(main) + "\n"
    return {"main.capy": mt, "o.capy": R.PRELUDE + eo.file_text()}


def model_events(prog):
    it = L.Interp(prog["world"])
    it.run_body(prog["main"], {"vars": {}, "lt": {}})
    return it.events


# --------------------------------------------------------------------------- execution and verdicts

EXTERNAL_SIGNALS = (2, 9, 15)


def compile_retry(d, files, cpu_s=20):
    for attempt in range(40):
        try:
            c = R.compile_capy(d, files, cpu_s=cpu_s)
        except C.Inconclusive:
            if attempt == 39:
                raise
            time.sleep(1.5)
            continue
        if c.sig in EXTERNAL_SIGNALS and not c.timed_out and not c.cpu_exceeded and attempt < 3:
            continue
        return c


def split_events(events, nsites):
    """events [(tag, id, val, ...)] -> per site {"g": [...], "c": [...]} with ids relative to the call's base; stray ids -> key None"""
    out = {i: {"g": [], "c": []} for i in range(nsites)}
    stray = []
    for ev in events:
        tag, eid, val = ev[0], ev[1], ev[2]
        c, off = divmod(eid, SITE_STRIDE)
        if c not in out:
            stray.append(ev)
            continue
        kind = "g" if off < SITE_STRIDE // 2 else "c"
        out[c][kind].append((tag, off % (SITE_STRIDE // 2), val.strip()) + tuple(ev[3:]))
    return out, stray


def first_diff(a, b):
    for i in range(max(len(a), len(b))):
        x = a[i][:3] if i < len(a) else None
        y = b[i][:3] if i < len(b) else None
        if x != y:
            return i, x, y
    return None


def judge_run(prog, observed_events, model):
    """-> (violations, per-site verdict list). observed_events: [(tag, id, val)]"""
    n = len(prog["sites"])
    obs, stray = split_events(observed_events, n)
    mod, _ = split_events(model, n)
    viol = []
    verdicts = []
    for s in prog["sites"]:
        c = s.index
        G, Cp, M = obs[c]["g"], obs[c]["c"], mod[c]["g"]
        fam = s.f.meta["family"]
        mark = "|dparam" if any(n == "D" for n, _, _ in s.f.params) else ""
        d = first_diff(G, Cp)
        desc = f"{s.f.name} ({fam}, home {s.f.home}) site {c} label {s.label} binding " + binding_text(s)
        if d is not None:
            i, x, y = d
            lab = M[i][3] if i < len(M) and len(M[i]) > 3 else "extra_event"
            which = "generic" if (i < len(M) and y == M[i][:3]) else "copy" if (i < len(M) and x == M[i][:3]) else "both"
            viol.append({"key": "generic_differs_from_copy", "sig": f"generic_differs_from_copy|{lab}|wrong={which}{mark}",
                         "what": f"{desc}: event #{i} ({lab}) of the generic call is {x}, of the substituted copy {y}, model {M[i][:3] if i < len(M) else None}",
                         "site": c})
            verdicts.append("viol")
            continue
        d = first_diff(G, M)
        if d is not None:
            i, x, y = d
            lab = M[i][3] if i < len(M) and len(M[i]) > 3 else "extra_event"
            viol.append({"key": "model_mismatch", "sig": f"model_mismatch|{lab}{mark}",
                         "what": f"{desc}: generic call and copy agree but event #{i} ({lab}) is {x}, the model of the substituted copy gives {y}", "site": c})
            verdicts.append("viol")
            continue
        verdicts.append("ok")
    if stray:
        viol.append({"key": "stray_events", "sig": "stray_events", "what": f"events with ids outside every call site: {stray[:3]}", "site": None})
    return viol, verdicts, obs, mod


def binding_text(s):
    w = s.f
    em = L.Emit(None, "main")
    parts = []
    for n, k, t in w.params:
        if k == "ct":
            parts.append(f"{n}={em.ty(s.binding[n][1])}")
        elif k == "cv":
            parts.append(f"{n}={s.binding[n][1]}")
    return ",".join(parts)


def run_program(arg):
    work, seed, idx, gates = arg
    try:
        prog = gen_program(seed, idx, gates)
        files = program_files(prog)
        model = model_events(prog)
    except L.ModelError as e:
        return {"idx": idx, "status": "generr", "why": f"generator/model error: {e}"}
    d = os.path.join(work, f"p{idx}")
    res = execute(d, prog, files, model)
    res["idx"] = idx
    shutil.rmtree(d, ignore_errors=True)
    return res


def execute(d, prog, files, model):
    c = compile_retry(d, files)
    res = {"prog": prog, "files": files, "model": model}
    if c.timed_out or c.sig in EXTERNAL_SIGNALS:
        res.update(status="inconc", why=f"compiler watchdog / killed from outside (signal {c.sig})")
        return res
    if c.cpu_exceeded:
        res.update(status="viol", viols=[{"key": "compiler_hang", "sig": "compiler_hang|bulk", "what": "the compiler used more than 20 s of CPU on a generated program", "site": None}])
        return res
    if c.internal_error:
        res.update(status="viol", viols=[{"key": "internal_error", "sig": "internal_error|" + c.panic_sig(),
                                          "what": f"internal compiler error: {c.brief()[:300]}", "site": None}])
        return res
    if not c.accepted:
        # is it the generic calls that are rejected? compile the same program without them
        co = program_files(prog, copies_only=True)
        c2 = compile_retry(os.path.join(d, "co"), co)
        if c2.accepted:
            kinds = sorted(set(re.sub(r"`[^`]*`", "`_`", k)[:60] for k in c.diag_kinds()))[:2]
            fn = blame(prog, files, c.out)
            res.update(status="viol", viols=[{"key": "generic_call_rejected", "sig": "generic_call_rejected|" + fn + "|" + "|".join(kinds),
                                              "what": f"the program is rejected but the same program with only the substituted copies is accepted: {c.diag_kinds()[:3]}",
                                              "site": None}])
        else:
            res.update(status="inconc", why=f"generated program rejected (also without generic calls): {c.diag_kinds()[:3]} rc={c.rc}\n{c.brief()[:600]}")
        return res
    r = R.link_and_run(d, c.obj)
    if r.link_failed:
        if "multiple definition" in r.link_err or "undefined reference" in r.link_err:
            res.update(status="viol", viols=[{"key": "link_symbol_error", "sig": "link_symbol_error|" + ("multiple_definition" if "multiple definition" in r.link_err else "undefined_reference"),
                                              "what": f"the object of an accepted program does not link: {r.link_err[-300:]}", "site": None}])
        else:
            res.update(status="inconc", why=f"link failed: {r.link_err[-200:]}")
        return res
    if r.timed_out or r.cpu_exceeded:
        res.update(status="inconc", why="executable watchdog")
        return res
    log = [(t, i, v) for t, i, v in R.parse_log(r.out) if i is not None]
    text = [v for t, i, v in R.parse_log(r.out) if i is None and v.strip()]
    viols, verdicts, obs, mod = judge_run(prog, log, model)
    if not viols and (r.rc != 0 or r.sig):
        viols.append({"key": "runtime_fault", "sig": "runtime_fault|after_all_events", "what": f"all events as expected but exit rc={r.rc} sig={r.sig} {text[:2]}", "site": None})
    res.update(status="viol" if viols else "ok", viols=viols, verdicts=verdicts, log=log, obs=obs, mod=mod, rc=r.rc, sig=r.sig, out=r.out)
    return res


def blame(prog, files, out):
    """which generic does the first diagnostic point at: -> '<family>[|dparam]' (for the signature)"""
    m = re.search(r"^error[^\n]*\n\s*--> at (\S+?):(\d+)", out, re.M)
    if not m or m.group(1) not in files:
        return "?"
    lines = files[m.group(1)].splitlines()
    ln = min(int(m.group(2)), len(lines)) - 1
    name = None
    cm = re.search(r"\b(g\d+)(?:_w\d+)?\(", lines[ln])
    if cm:
        name = cm.group(1)
    else:
        for i in range(ln, -1, -1):
            hm = re.match(r"(g\d+)(?:_[cw]\d+)? ::", lines[i])
            if hm:
                name = hm.group(1)
                break
    for f in prog["generics"]:
        if f.name == name:
            return f.meta["family"] + ("|dparam" if any(n == "D" for n, _, _ in f.params) else "")
    return "?"


def doctor_selfcheck(res):
    """feed the judge doctored logs of a real run; -> (n attempted, n fired)"""
    prog, log, model = res["prog"], res["log"], res["model"]
    tried = fired = 0
    by_f = {}
    for s in prog["sites"]:
        by_f.setdefault(s.f.name, []).append(s)
    for name, ss in by_f.items():
        for i in range(len(ss)):
            for j in range(i + 1, len(ss)):
                a, b = ss[i], ss[j]
                if binding_key(a.f, a.binding) == binding_key(b.f, b.binding):
                    continue
                ga = [e for e in log if e[1] // SITE_STRIDE == a.index and e[1] % SITE_STRIDE < SITE_STRIDE // 2]
                gb = [e for e in log if e[1] // SITE_STRIDE == b.index and e[1] % SITE_STRIDE < SITE_STRIDE // 2]
                if [(t, i_ % SITE_STRIDE, v) for t, i_, v in ga] == [(t, i_ % SITE_STRIDE, v) for t, i_, v in gb]:
                    continue
                # simulated bug 1: the instantiation of site b is reused for site a (generic events of a := those of b)
                doct = [e for e in log if e not in ga] + [(t, a.index * SITE_STRIDE + i_ % SITE_STRIDE, v) for t, i_, v in gb]
                tried += 1
                v, _, _, _ = judge_run(prog, doct, model)
                if any(x["key"] == "generic_differs_from_copy" and x["site"] == a.index for x in v):
                    fired += 1
                # simulated bug 2: generic AND copy of site a behave like site b
                ca = [e for e in log if e[1] // SITE_STRIDE == a.index]
                cb = [e for e in log if e[1] // SITE_STRIDE == b.index]
                doct = [e for e in log if e not in ca] + [(t, a.index * SITE_STRIDE + i_ % SITE_STRIDE, v) for t, i_, v in cb]
                tried += 1
                v, _, _, _ = judge_run(prog, doct, model)
                if any(x["key"] == "model_mismatch" and x["site"] == a.index for x in v):
                    fired += 1
                return tried, fired
    return tried, fired


# --------------------------------------------------------------------------- pinned probes of features kept out of the bulk generator

def probe_world(kind):
    """a small fixed program exercising one gated feature; -> prog dict like gen_program"""
    w = base_world()
    it = L.Interp(w)
    acc = var("acc")
    if kind == "comptime_block":
        f = Func("g0", "main", [("T", "ct", None), ("x", "rt", T), ("base", "rt", I64)], T,
                 [("let", "acc", T, var("x")),
                  ("assign", acc, bin_("+", acc, ("cast", T, ("ctb", "2 + 3", 5, I64)))),
                  ("trace", 1, "i64", acc, "numi.ctblock")], acc, 0, {"family": "numi", "feats": ["ctblock"]})
        binds = [{"T": ("T", P("i8"))}, {"T": ("T", P("i64"))}, {"T": ("T", P("i8"))}]
    elif kind == "inline_len":
        f = Func("g0", "main", [("T", "ct", None), ("N", "cv", USIZE), ("zs", "rt", ("arr", ("cp", "N"), T)), ("base", "rt", I64)], T,
                 [("let", "acc", T, tl(1)), ("let", "zi", USIZE, lit(0, USIZE)),
                  ("while", bin_("<", var("zi"), ("len", var("zs"))),
                   [("assign", acc, bin_("+", bin_("*", acc, tl(2)), ("idx", var("zs"), var("zi")))),
                    ("assign", var("zi"), bin_("+", var("zi"), lit(1, USIZE)))]),
                  ("trace", 1, "i64", acc, "numi.inlen")], acc, 0, {"family": "numi", "feats": ["inlen"]})
        binds = [{"T": ("T", P("i8")), "N": ("V", 3, USIZE)}, {"T": ("T", P("i64")), "N": ("V", 3, USIZE)}, {"T": ("T", P("i8")), "N": ("V", 5, USIZE)}]
    elif kind == "bool_cparam":
        f = Func("g0", "main", [("B", "cv", BOOL), ("x", "rt", I64), ("base", "rt", I64)], I64,
                 [("let", "acc", I64, var("x")),
                  ("if", ("cpv", "B"), [("assign", acc, bin_("+", acc, lit(1)))], [("assign", acc, bin_("-", acc, lit(1)))]),
                  ("trace", 1, "i64", acc, "ints.b")], acc, 0, {"family": "ints", "feats": ["b"]})
        binds = [{"B": ("V", True, BOOL)}, {"B": ("V", False, BOOL)}, {"B": ("V", True, BOOL)}]
    elif kind == "dparam_imported":
        f = Func("g0", "o", [("T", "ct", None), ("D", "cv", T), ("x", "rt", T), ("base", "rt", I64)], T,
                 [("let", "acc", T, var("x")), ("assign", acc, bin_("+", bin_("*", acc, ("cpv", "D")), ("cpv", "D"))),
                  ("trace", 1, "i64", acc, "numi.d")], acc, 0, {"family": "numi", "feats": ["dparam"]})
        binds = [{"T": ("T", P("i8")), "D": ("V", 100, T)}, {"T": ("T", P("i64")), "D": ("V", 100000, T)}, {"T": ("T", P("i8")), "D": ("V", 100, T)}]
    elif kind == "recursion":
        call = ("call", ("g0", "main"), (("T", T), ("E", bin_("-", var("n"), tl(1))), ("E", var("base"))))
        f = Func("g0", "main", [("T", "ct", None), ("n", "rt", T), ("base", "rt", I64)], T,
                 [("trace", 1, "i64", var("n"), "numi.rec")],
                 ("ifx", bin_("<=", var("n"), tl(1)), tl(1), bin_("*", var("n"), call)), 0, {"family": "numi", "feats": ["rec"]})
        binds = [{"T": ("T", P("i8"))}, {"T": ("T", P("i64"))}]
    else:
        raise AssertionError(kind)
    w.add_func(f)
    sites, copies = [], {}
    body = [("let", "base", I64, lit(0))]
    body_co = [("let", "base", I64, lit(0))]
    for c, b in enumerate(binds):
        s = Site()
        s.f, s.binding, s.label, s.index, s.sels, s.nva = f, b, "ABA"[c], c, 0, 0
        key = binding_key(f, b)
        if key not in copies:
            cp = L.subst_func(f, b, f"g0_c{len(copies)}", "main")
            if kind == "recursion":
                # the copy calls itself (the substituted call still names the generic; a hand-made copy of a recursive function recurses into the copy)
                cp.tail = retarget(cp.tail, ("g0", "main"), (cp.name, "main"))
            copies[key] = cp
            w.add_func(cp)
        s.copy = copies[key]
        sites.append(s)
        for kindc, B in (("g", c * SITE_STRIDE), ("c", c * SITE_STRIDE + SITE_STRIDE // 2)):
            args = []
            for n, k, t in f.params:
                if k == "ct":
                    if kindc == "g":
                        args.append(("T", b[n][1]))
                elif k == "cv":
                    if kindc == "g":
                        args.append(("V", ("b", b[n][1]) if t == BOOL else ("n", b[n][1])))
                elif n == "base":
                    args.append(("E", lit(B)))
                else:
                    ct_ = L.subst_type(t, b)
                    args.append(("E", mkval(None, it, ct_, 4) if kind != "recursion" else ("cast", ct_, lit(6))))
            callee = ("g0", f.home) if kindc == "g" else (s.copy.name, "main")
            st = [("letinf", f"s{c}{kindc}_r", ("call", callee, tuple(args)))]
            lv = []
            leaves(it, it.resolve(L.subst_type(f.ret, b), {}), var(f"s{c}{kindc}_r"), lv)
            st += [("trace", B + 900 + q, tk, e, "leaf") for q, (tk, e) in enumerate(lv)]
            body += st
            if kindc == "c":
                body_co += st
    return {"world": w, "main": Func("main", "main", [], P("i32"), body, lit(0, P("i32"))),
            "main_co": Func("main", "main", [], P("i32"), body_co, lit(0, P("i32"))), "sites": sites, "cases": [], "generics": [f]}


def retarget(e, frm, to):
    if isinstance(e, tuple):
        if len(e) == 3 and e[0] == "call" and e[1] == frm:
            # drop nothing: the call inside a substituted body has already lost no arguments (comptime args stay); remove them for the copy
            args = tuple(a for a in e[2] if a[0] == "E")
            return ("call", to, tuple(retarget(a, frm, to) for a in args))
        return tuple(retarget(x, frm, to) for x in e)
    return e


PROBES = ["comptime_block", "inline_len", "bool_cparam", "dparam_imported", "recursion"]
# fixed programs (kf/<file>) with the events they must print; kept out of the bulk generator because they crash the compiler
TEXT_PROBES = [("comptime_block_arg_in_comptime_call", "kf/C16_comptime_block_arg_in_comptime_call.capy", [("I", 1, "7")])]


def run_text_probe(arg):
    work, (name, rel, expect) = arg
    text = open(os.path.join(C.VERIF, rel), encoding="utf-8").read()
    files = {"main.capy": text}
    d = os.path.join(work, "tprobe_" + name)
    c = compile_retry(d, files)
    out = {"kind": name, "files": files, "status": "ok", "viols": []}
    if c.timed_out or c.sig in EXTERNAL_SIGNALS:
        out.update(status="inconc", why="watchdog")
    elif c.internal_error:
        out.update(status="viol", viols=[{"key": "internal_error", "sig": "internal_error|" + c.panic_sig(), "site": None,
                                          "what": f"pinned program {rel}: internal compiler error: {c.brief()[:300]}"}])
    elif not c.accepted:
        out.update(status="viol", viols=[{"key": "generic_call_rejected", "sig": f"generic_call_rejected|text_probe|{name}", "site": None,
                                          "what": f"pinned program {rel} is rejected: {c.diag_kinds()[:3]}"}])
    else:
        r = R.link_and_run(d, c.obj)
        got = [(t, i, v.strip()) for t, i, v in R.parse_log(r.out) if i is not None] if not r.link_failed else None
        if got != expect:
            out.update(status="viol", viols=[{"key": "model_mismatch", "sig": f"model_mismatch|text_probe|{name}", "site": None,
                                              "what": f"pinned program {rel} prints {got}, expected {expect}"}])
    shutil.rmtree(d, ignore_errors=True)
    return out


def run_probe(arg):
    work, kind = arg
    prog = probe_world(kind)
    files = program_files(prog)
    d = os.path.join(work, "probe_" + kind)
    if kind == "recursion":
        # the model of a self-recursive generic: the interpreter substitutes on the fly (instance cache), so it terminates
        pass
    try:
        model = model_events(prog)
    except L.ModelError as e:
        return {"kind": kind, "status": "generr", "why": str(e), "files": files}
    c = compile_retry(d, files, cpu_s=6 if kind == "recursion" else 20)
    if c.cpu_exceeded or (c.timed_out and kind == "recursion"):
        co = program_files(prog, copies_only=True)
        c2 = compile_retry(os.path.join(d, "co"), co, cpu_s=6)
        ok2 = False
        if c2.accepted:
            r2 = R.link_and_run(os.path.join(d, "co"), c2.obj)
            if not r2.link_failed and r2.rc == 0:
                got = split_events([(t, i, v) for t, i, v in R.parse_log(r2.out) if i is not None], len(prog["sites"]))[0]
                want = split_events(model, len(prog["sites"]))[0]
                ok2 = all([e[:3] for e in got[s.index]["c"]] == [e[:3] for e in want[s.index]["c"]] for s in prog["sites"])
        shutil.rmtree(d, ignore_errors=True)
        if not ok2:
            return {"kind": kind, "status": "inconc", "files": files, "why": "the compiler exceeds its CPU limit on the probe and the copies-only program does not behave as modelled"}
        return {"kind": kind, "status": "viol", "files": files,
                "viols": [{"key": "compiler_hang", "sig": f"compiler_hang|{kind}", "site": None,
                           "what": f"pinned probe {kind}: the compiler does not terminate (more than 6 s CPU) on a generic function that calls itself at run time; "
                                   "the same program with only the substituted copies compiles and prints the modelled events"}]}
    res = execute(d, prog, files, model)
    res["kind"] = kind
    shutil.rmtree(d, ignore_errors=True)
    if res["status"] == "viol":
        for v in res["viols"]:
            v["what"] = f"pinned probe {kind}: " + v["what"]
    return res


# --------------------------------------------------------------------------- driver

def witness_of(res, v):
    prog = res.get("prog")
    wit = {"files": res["files"]}
    if v.get("site") is not None and prog is not None:
        s = prog["sites"][v["site"]]
        wit["function"] = s.f.name
        wit["copy"] = s.copy.name
        wit["binding"] = binding_text(s)
        wit["site"] = v["site"]
        if "obs" in res:
            wit["generic_events"] = [list(e[:3]) for e in res["obs"][v["site"]]["g"]][:40]
            wit["copy_events"] = [list(e[:3]) for e in res["obs"][v["site"]]["c"]][:40]
            wit["model_events"] = [list(e) for e in res["mod"][v["site"]]["g"]][:40]
    return wit


def run_digest(arg):
    """run one program and reduce the result to what the driver aggregates (thorough runs keep thousands of results)"""
    work, seed, idx, gates = arg
    res = run_program(arg)
    out = {"idx": idx, "inconc": None, "viols": [], "evals": 0, "cnt": {}, "sigs": [], "sample": None}
    cnt = out["cnt"]

    def bump(k, n=1):
        cnt[k] = cnt.get(k, 0) + n

    st = res["status"]
    if st in ("generr", "inconc"):
        out["inconc"] = f"program {idx}: {res['why']}"
        return out
    prog = res["prog"]
    if st == "viol":
        for v in res["viols"]:
            v = dict(v)
            v["witness"] = witness_of(res, v)
            v["witness"]["program_index"] = idx
            v["witness"]["seed"] = seed
            out["viols"].append(v)
    if "verdicts" not in res:
        out["evals"] = 1 if st == "viol" else 0
        return out
    if st == "ok":
        bump("programs_ok")
    out["evals"] = len(res["verdicts"])
    bump("call_sites_judged", len(res["verdicts"]))
    bump("events_compared", sum(len(res["obs"][s.index]["g"]) for s in prog["sites"]))
    bump("copies", len({s.copy.name for s in prog["sites"]}))
    for s in prog["sites"]:
        bump("sites_family_" + s.f.meta["family"])
        if s.f.height > 0:
            bump("nested_generic_calls_sites")
        if s.f.home == "o":
            bump("imported_generic_sites")
        if s.wrapper is not None:
            bump("sites_via_wrapper_in_imported_file")
    for case in prog["cases"]:
        ss = case["sites"]
        if all(res["verdicts"][s.index] == "ok" for s in ss):
            f = ss[0].f
            out["sigs"].append((case["kinds"], tuple(f.meta["feats"]), case["pattern"], tuple(case["diffs"]), f.home))
        bump("instantiations", len({binding_key(s.f, s.binding) for s in ss}))
        for i in range(len(ss)):
            for j in range(i + 1, len(ss)):
                a, b = ss[i], ss[j]
                ga = [e[:3] for e in res["obs"][a.index]["g"]]
                gb = [e[:3] for e in res["obs"][b.index]["g"]]
                if binding_key(a.f, a.binding) == binding_key(b.f, b.binding):
                    if a.sels == b.sels and a.nva == b.nva:
                        if ga == gb:
                            bump("equal_args_same_inputs_pairs_identical")
                        elif res["verdicts"][a.index] == "ok" and res["verdicts"][b.index] == "ok":
                            out["viols"].append({"key": "equal_arguments_differ", "sig": "equal_arguments_differ|" + a.f.meta["family"],
                                                 "what": f"two calls of {a.f.name} with equal comptime arguments and equal inputs print different events",
                                                 "witness": {"files": res["files"], "sites": [a.index, b.index], "program_index": idx, "seed": seed}})
                else:
                    bump("conflicting_pairs")
                    if ga != gb:
                        bump("conflicting_pairs_outputs_differ")
    if st == "ok" and idx % 6 == 0:
        tr, fi = doctor_selfcheck(res)
        bump("selfcheck_doctored_logs", tr)
        bump("selfcheck_fired", fi)
    if st == "ok" and idx < 80 and any(s.f.height > 0 or s.f.home == "o" for s in prog["sites"]) and len(prog["sites"]) >= 3:
        s = prog["sites"][0]
        em = L.Emit(prog["world"], s.f.home)
        out["sample"] = {"generic": em.func(s.f), "copy": L.Emit(prog["world"], "main").func(s.copy), "binding": binding_text(s),
                         "generic_events": [" ".join(map(str, e[:3])) for e in res["obs"][s.index]["g"]][:12],
                         "copy_events": [" ".join(map(str, e[:3])) for e in res["obs"][s.index]["c"]][:12]}
    return out


def run(tier, seed):
    t0 = time.time()
    C.build_cli()
    C.build_rt()
    work = C.fresh_dir("C16")
    nprog = int(os.environ.get("VERIF_C16_PROGRAMS", "0") or 0) or (250 if tier == "quick" else 6000)    # the override is a development aid
    probes = C.pmap(run_probe, [(work, k) for k in PROBES]) + C.pmap(run_text_probe, [(work, tp) for tp in TEXT_PROBES])
    gates = {}
    viol, inconc, notes = [], [], []
    cnt = {"programs": 0, "programs_ok": 0, "call_sites_judged": 0, "events_compared": 0, "instantiations": 0, "copies": 0,
           "equal_args_same_inputs_pairs_identical": 0, "conflicting_pairs": 0, "conflicting_pairs_outputs_differ": 0,
           "selfcheck_doctored_logs": 0, "selfcheck_fired": 0, "nested_generic_calls_sites": 0, "imported_generic_sites": 0, "sites_via_wrapper_in_imported_file": 0}
    for p in probes:
        k = p["kind"]
        gates[k] = p["status"] == "ok"
        cnt[f"probe_{k}"] = p["status"]
        if p["status"] == "viol":
            for v in p["viols"]:
                v = dict(v)
                v["witness"] = witness_of(p, v) if "files" in p else {}
                v["witness"]["probe"] = k
                viol.append(v)
        elif p["status"] != "ok":
            inconc.append(f"probe {k}: {p.get('why')}")
        else:
            notes.append(f"probe {k} passes: the feature is part of the bulk generator in this run")
    results = C.pmap(run_digest, [(work, seed, i, gates) for i in range(nprog)])
    sigs, samples = set(), []
    evals = 0
    fam_cnt = {}
    for dg in results:
        cnt["programs"] += 1
        if dg["inconc"]:
            inconc.append(dg["inconc"])
            continue
        viol += dg["viols"]
        evals += dg["evals"]
        for k, v in dg["cnt"].items():
            if k.startswith("sites_family_"):
                fam_cnt[k[len("sites_family_"):]] = fam_cnt.get(k[len("sites_family_"):], 0) + v
            else:
                cnt[k] = cnt.get(k, 0) + v
        sigs.update(dg["sigs"])
        if dg["sample"] and len(samples) < 4:
            samples.append(dg["sample"])
    for k, v in sorted(fam_cnt.items()):
        cnt["sites_family_" + k] = v
    if cnt["selfcheck_doctored_logs"] and cnt["selfcheck_fired"] != cnt["selfcheck_doctored_logs"]:
        raise C.Inconclusive(f"oracle self-check: only {cnt['selfcheck_fired']} of {cnt['selfcheck_doctored_logs']} doctored logs were flagged")
    if cnt["programs_ok"] > 20 and not cnt["selfcheck_doctored_logs"]:
        raise C.Inconclusive("oracle self-check could not be run (no program with two conflicting instantiations whose outputs differ)")
    seen, uniq = set(), []
    for v in viol:
        s = v["key"] + "|" + v["sig"]
        if s not in seen:
            seen.add(s)
            uniq.append(v)
    if len(viol) > len(uniq):
        notes.append(f"{len(viol) - len(uniq)} further violations share a signature with a reported one")
    rep = {"evaluations": evals, "distinct_nontrivial": len(sigs), "violations": uniq, "samples": samples, "counters": cnt, "notes": notes,
           "exhaustive": False, "dropped_violations": len(viol) - len(uniq)}
    return C.finish("C16", tier, seed, t0, "exploration", rep, ASSUME, RULE, min_evals=int(nprog * 1.5), inconclusive=inconc)


def replay(path):
    w = json.load(open(os.path.join(path, "witness.json")))
    wit = w.get("witness") or {}
    C.build_cli()
    C.build_rt()
    work = C.fresh_dir("C16", "replay")
    res = None
    if wit.get("probe") in [tp[0] for tp in TEXT_PROBES]:
        res = run_text_probe((work, [tp for tp in TEXT_PROBES if tp[0] == wit["probe"]][0]))
    elif wit.get("probe"):
        res = run_probe((work, wit["probe"]))
    elif "program_index" in wit:
        gates = {}
        for p in C.pmap(run_probe, [(work, k) for k in PROBES]):
            gates[p["kind"]] = p["status"] == "ok"
        res = run_program((work, wit.get("seed", 0), wit["program_index"], gates))
        if res.get("files") and wit.get("files") and res["files"] != wit["files"]:
            print("note: the generator no longer produces the recorded program for this (seed, index); compiling the recorded files instead")
            res = None
    if res is None:
        files = wit.get("files")
        if not files:
            print(json.dumps(w, indent=1)[:3000])
            return run("quick", 0)
        c = compile_retry(os.path.join(work, "case"), files)
        print(f"accepted={c.accepted} rejected={c.rejected} internal_error={c.internal_error}\n{c.brief()[:1500]}")
        shutil.rmtree(work, ignore_errors=True)
        if c.internal_error or not c.accepted:
            print(f"VIOLATION property=C16 replay={path}")
            return 1
        print("the recorded program is accepted now; its events cannot be judged without the generator state")
        return 0
    shutil.rmtree(work, ignore_errors=True)
    print(f"status: {res['status']}")
    if res["status"] == "viol":
        for v in res["viols"]:
            print(f"VIOLATION property=C16 replay={path}")
            print(f"  {v['key']} [{v['sig']}]: {v['what'][:600]}")
        return 1
    if res["status"] in ("inconc", "generr"):
        print(f"INCONCLUSIVE property=C16: {res.get('why')}")
        return 2
    print("the recorded violation does not reproduce on the current tree")
    return 0
