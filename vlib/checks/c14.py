"""C14 — immutable data can never be modified.

Workload: assignment targets `root step*` (at most 3 steps, i.e. chains of length <= 4) over
  roots  {`::` local, `:=` local, parameter, global, `::`/`:=` local holding a `^X` / `^mut X` pointer (initialised in
          several ways), parameter holding a pointer}
  steps  {.field, [i], explicit deref `^`, parentheses, #unwrap}
  ops    {`=`, the ten compound operators, `^mut path`, `^path`}
Every expected-reject case is compiled by the real CLI in its own source file; expected-accept cases are batched (one
function per case) and any case of a batch that is not accepted / does not run cleanly is re-run in its own file.  The oracle is the path-mutability model of the
statement (`Oracle` below, written without looking at get_mutability): root mutable iff `:=` local; crossing a pointer
(explicit or automatic dereference) makes the path mutable iff the pointer TYPE is `^mut`; every other step preserves.
Accepted programs are linked and run: the written location is printed through the target path, through an alias
pointer taken to the canonical location before the write, and the whole memory (every i64 leaf of every object, every
pointer leaf identified by its pointee) is dumped and compared with a python model of the memory.
"""
import copy
import json
import os
import re
import time

from .. import common as C
from .. import capyrun as R

RULE = ("one case = (root kind incl. binding/declared type/initialiser, step sequence, operation); steps from {.field, [i], ^, (), #unwrap} "
        "over nested struct/array/pointer/optional types, at most 3 steps after the root (length <= 4), operations `=`, 10 compound operators, "
        "`^mut path`, `^path`; quick = greedy core covering every (root, step kind, operation kind) and every (root, compound operator) "
        "plus ~500 random cases; thorough = the whole space of <= 3 steps (exhaustive) plus a random sample of 4-step chains; every case "
        "is non-trivial (a real accept/reject decision of the CLI, and for accepted writes a run with full memory dump); "
        "distinct = distinct (root, step sequence, operation) tuples that reached a verdict")
ASSUME = ["a rejection counts as evidence only if one of its diagnostics is `cannot mutate immutable data` or `cannot get a `^mut` to immutable data`; "
          "rejections for any other reason are generator errors (inconclusive)",
          "the pointer TYPE decides (statement: 'through an immutable pointer'): a `^T`-typed pointer never gives write access, even when the pointee "
          "is a `:=` variable; a `^mut T`-typed pointer always does, however the variable holding it was declared",
          "slices, `any`, raw pointers and pointers to pointers declared by the user are outside the alphabet; globals hold pointer-free data "
          "(capy rejects pointers in comptime globals)",
          "visibility of a `^path` reference is only checked at creation time (the property is about modification)"]

MUT_KINDS = ("cannot mutate immutable data", "cannot get a `^mut` to immutable data")
MAX_STEPS = 3
VIOLATION_CAP = 150

# --------------------------------------------------------------------------- types

I = "i64"


def P(m, x):
    return ("ptr", bool(m), x)


def ARR(x):
    return ("arr", x)


def OPT(x):
    return ("opt", x)


A = ARR(I)
STRUCTS = {
    "T": [("a", I), ("b", I)],
    "S": [("a", I), ("b", I), ("arr", A), ("inner", "T"), ("p", P(1, "T")), ("q", P(0, "T")), ("tarr", ARR("T")),
          ("ps", ARR(P(1, "T"))), ("qs", ARR(P(0, "T"))), ("opt", OPT(I)), ("ot", OPT("T")), ("popt", OPT(P(1, "T"))),
          ("qopt", OPT(P(0, "T")))],
    "G": [("a", I), ("b", I), ("arr", A), ("inner", "T"), ("tarr", ARR("T")), ("opt", OPT(I)), ("ot", OPT("T"))],
}


def is_ptr(t):
    return isinstance(t, tuple) and t[0] == "ptr"


def is_arr(t):
    return isinstance(t, tuple) and t[0] == "arr"


def is_opt(t):
    return isinstance(t, tuple) and t[0] == "opt"


def is_struct(t):
    return isinstance(t, str) and t in STRUCTS


def ty_text(t):
    if isinstance(t, str):
        return t
    if t[0] == "ptr":
        return ("^mut " if t[1] else "^") + ty_text(t[2])
    if t[0] == "arr":
        return "[2]" + ty_text(t[1])
    return "?" + ty_text(t[1])


def field_ty(s, name):
    return dict(STRUCTS[s])[name]


DECLS = "".join(f"{n} :: struct {{ " + ", ".join(f"{f}: {ty_text(t)}" for f, t in fs) + " };\n" for n, fs in STRUCTS.items())

# --------------------------------------------------------------------------- the case space

CMP = [("+=", 5), ("-=", 3), ("*=", 3), ("/=", 2), ("%=", 7), ("|=", 1024), ("&=", 6), ("~=", 1029), ("<<=", 2), (">>=", 1)]
PY_OP = {"+=": lambda a, b: a + b, "-=": lambda a, b: a - b, "*=": lambda a, b: a * b, "/=": lambda a, b: a // b,
         "%=": lambda a, b: a % b, "|=": lambda a, b: a | b, "&=": lambda a, b: a & b, "~=": lambda a, b: a ^ b,
         "<<=": lambda a, b: a << b, ">>=": lambda a, b: a >> b}
POINTEE_OBJ = {"S": "s", A: "ar", I: "x"}          # what a pointer root points to
ALT_OBJ = {"T": "t4", "S": "s2", A: "ar2", I: "x2"}  # what a pointer-typed target is re-pointed to


def all_roots():
    """(kind, binding, declared type, initialiser)"""
    roots = []
    for b in ("::", ":="):
        roots.append(("local", b, "S", "value"))
        roots.append(("local", b, I, "value"))
    roots.append(("global", None, "G", "value"))
    roots.append(("global", None, I, "value"))
    roots.append(("param", None, "S", "value"))
    roots.append(("param", None, I, "value"))
    for pointee in ("S", A, I):
        for m in (0, 1):
            roots.append(("param", None, P(m, pointee), "arg"))
            for b in ("::", ":="):
                for init in ("ref", "copy", "call") + (("coerce",) if not m else ()):
                    roots.append(("local", b, P(m, pointee), init))
    return roots


def root_desc(root):
    kind, bind, ty, init = root
    return f"{kind}{bind or ''} {ty_text(ty)}" + (f" init={init}" if init not in ("value", "arg") else "")


def root_class(root):
    """the root kinds of the property statement"""
    kind, bind, ty, _ = root
    return f"{kind}{bind or ''}" + (f" holding {'^mut' if ty[1] else '^'}" if is_ptr(ty) else "")


def steps_from(t, last):
    out = []
    base = t[2] if is_ptr(t) else t
    if is_ptr(t):
        out.append((("d",), t[2]))
    if is_struct(base):
        for n, ft in STRUCTS[base]:
            if n != "b":            # .b is the untouched neighbour of .a
                out.append((("f", n), ft))
    if is_arr(base):
        out.append((("i",), base[1]))
    if is_opt(t):
        out.append((("u",), t[1]))
    if last != "p":
        out.append((("p",), t))
    return out


def chains_from(t, nsteps):
    """all step sequences of exactly 0..nsteps steps: [(steps, final type)]"""
    res = [((), t)]
    frontier = [((), t)]
    for _ in range(nsteps):
        nf = []
        for st, ty in frontier:
            for s, nt in steps_from(ty, st[-1][0] if st else None):
                nf.append((st + (s,), nt))
        res += nf
        frontier = nf
    return res


def ops_for(t):
    ops = []
    if t == I:
        ops.append(("assign",))
        ops += [("cmp", k) for k in range(len(CMP))]
    elif t in ("T", A) or is_ptr(t):
        ops.append(("assign",))
    ops += [("mutref",), ("ref",)]
    return ops


def op_kind(op):
    return op[0]


def op_text(op):
    return CMP[op[1]][0] if op[0] == "cmp" else {"assign": "=", "mutref": "^mut", "ref": "^"}[op[0]]


def case_space(nsteps, exact=False):
    cases = []
    for root in all_roots():
        for steps, fty in chains_from(root[2], nsteps):
            if exact and len(steps) != nsteps:
                continue
            for op in ops_for(fty):
                cases.append((root, steps, op))
    return cases


# --------------------------------------------------------------------------- python model of the memory

def s_value(n, with_ptrs=True):
    v = {"a": n + 1, "b": n + 2, "arr": [n + 3, n + 4], "inner": {"a": n + 5, "b": n + 6},
         "tarr": [{"a": n + 7, "b": n + 8}, {"a": n + 9, "b": n + 10}], "opt": {"some": n + 11}, "ot": {"some": {"a": n + 12, "b": n + 13}}}
    if with_ptrs:
        v.update({"p": ("ptr", "t1"), "q": ("ptr", "t2"), "ps": [("ptr", "t1"), ("ptr", "t3")], "qs": [("ptr", "t2"), ("ptr", "t3")],
                  "popt": {"some": ("ptr", "t3")}, "qopt": {"some": ("ptr", "t2")}})
    return v


BASE_OBJS = [("t1", "T"), ("t2", "T"), ("t3", "T"), ("t4", "T"), ("s", "S"), ("s2", "S"), ("ar", A), ("ar2", A), ("x", I), ("x2", I)]


def base_memory():
    return {"t1": {"a": 101, "b": 102}, "t2": {"a": 201, "b": 202}, "t3": {"a": 301, "b": 302}, "t4": {"a": 401, "b": 402},
            "s": s_value(10), "s2": s_value(50), "ar": [31, 32], "ar2": [33, 34], "x": 41, "x2": 43}


def literal(v, t):
    if t == I:
        return str(v)
    if is_struct(t):
        return f"{t}.{{ " + ", ".join(f"{f} = {literal(v[f], ft)}" for f, ft in STRUCTS[t]) + " }"
    if is_arr(t):
        inner = ", ".join(literal(e, t[1]) for e in v)
        return f"i64.[{inner}]" if t[1] == I else f".[{inner}]"
    if is_ptr(t):
        return ("^mut " if t[1] else "^") + v[1]
    return literal(v["some"], t[1])


def mem_get(mem, loc):
    v = mem[loc[0]]
    for p in loc[1]:
        v = v[p]
    return v


def mem_set(mem, loc, val):
    if not loc[1]:
        mem[loc[0]] = val
        return
    v = mem[loc[0]]
    for p in loc[1][:-1]:
        v = v[p]
    v[loc[1][-1]] = val


def canon_text(owner, owner_ty, path):
    """the location written without any dereference, from the variable that owns the storage"""
    text, t = owner, owner_ty
    for p in path:
        if p == "some":
            text, t = f"#unwrap({text}, {ty_text(t[1])})", t[1]
        elif isinstance(p, int):
            text, t = f"{text}[{p}]", t[1]
        else:
            text, t = f"{text}.{p}", field_ty(t, p)
    return text


def leaf_path(t):
    """path from a value of type t to the i64 that the effect checks look at (None: not checked)"""
    if t == I:
        return ()
    if is_struct(t):
        return ("a",)
    if t == A:
        return (1,)
    return None


def leaf_of_value(text, t):
    """expression reading the witness i64 of a value expression of type t"""
    if t == I:
        return text
    if is_struct(t):
        return f"{text}.a"
    if t == A:
        return f"{text}[1]"
    if is_ptr(t):
        return {"T": f"{text}.a", "S": f"{text}.a", A: f"{text}[0]", I: f"{text}^"}.get(t[2])
    return None


def leaf_through_ptr(w, t):
    """expression reading the witness i64 of the value of type t that pointer variable w points to"""
    if t == I:
        return f"{w}^"
    if is_struct(t):
        return f"{w}.a"
    if t == A:
        return f"{w}[1]"
    if is_ptr(t):
        return {"T": f"{w}^.a", "S": f"{w}^.a", A: f"{w}^[0]", I: f"{w}^^"}.get(t[2])
    return None


def model_leaf(mem, loc, t):
    """model value of leaf_of_value / leaf_through_ptr for the value of type t stored at loc"""
    if is_ptr(t):
        v = mem_get(mem, loc)
        tgt = (v[1], ())
        return mem_get(mem, (tgt[0], {"T": ("a",), "S": ("a",), A: (0,), I: ()}[t[2]]))
    lp = leaf_path(t)
    return mem_get(mem, (loc[0], loc[1] + lp))


def dump_exprs(owner, t):
    """[(expression, model path function)] for every i64 leaf / pointer leaf of an object"""
    out = []

    def rec(text, ty, path):
        if ty == I:
            out.append((text, path, None))
        elif is_struct(ty):
            for f, ft in STRUCTS[ty]:
                rec(f"{text}.{f}", ft, path + (f,))
        elif is_arr(ty):
            for k in range(2):
                rec(f"{text}[{k}]", ty[1], path + (k,))
        elif is_ptr(ty):
            out.append((leaf_of_value(text, ty), path, ty))
        elif is_opt(ty):
            rec(f"#unwrap({text}, {ty_text(ty[1])})", ty[1], path + ("some",))
    rec(owner, t, ())
    return out


# --------------------------------------------------------------------------- oracle + rendering of one chain

class Walk:
    """text, final type, final location and ORACLE mutability of `root steps`"""

    def __init__(self, root, steps, mem, rootname):
        kind, bind, ty, _ = root
        text = rootname
        # ---- oracle (from the statement): only a `:=` local is a mutable root
        mutable = kind == "local" and bind == ":="
        why = f"root {kind}{bind or ''}"
        loc = (rootname, ())
        src = "root"
        nidx = 0
        for st in steps:
            if st[0] == "p":
                text = f"({text})"
                continue
            if st[0] == "u":
                text = f"#unwrap({text}, {ty_text(ty[1])})"
                ty = ty[1]
                loc = (loc[0], loc[1] + ("some",))
                src = "unwrap"
                continue
            if is_ptr(ty):
                # ---- oracle: an explicit or automatic dereference decides by the pointer type alone
                mutable = ty[1]
                style = {"d": "deref", "f": "autofield", "i": "autoindex"}[st[0]]
                why = f"{'^mut' if ty[1] else '^'} from {src} crossed by {style}"
                loc = (mem_get(mem, loc)[1], ())
                ty = ty[2]
                src = "deref"
                if st[0] == "d":
                    text += "^"
                    continue
            # ---- oracle: field / element steps preserve mutability
            if st[0] == "f":
                text += "." + st[1]
                ty = field_ty(ty, st[1])
                loc = (loc[0], loc[1] + (st[1],))
                src = "field"
            elif st[0] == "i":
                idx = 1 - (nidx % 2)
                nidx += 1
                text += f"[{idx}]"
                ty = ty[1]
                loc = (loc[0], loc[1] + (idx,))
                src = "index"
            else:
                raise AssertionError(st)
        self.text, self.ty, self.loc, self.mutable, self.why = text, ty, loc, mutable, why


def ref_operand(text):
    """operand of `^` / `^mut`: capy parses `^mut p^.a` as `((^mut p)^).a` (no dereference inside the operand of a reference), so a
    path with an explicit dereference outside of parentheses has to be parenthesised as a whole"""
    depth = 0
    for ch in text:
        if ch in "([":
            depth += 1
        elif ch in ")]":
            depth -= 1
        elif ch == "^" and depth == 0:
            return f"({text})"
    return text


def chain_text(root, steps):
    return Walk(root, steps, setup_memory(root, "r")[0], "r").text


def setup_memory(root, rootname):
    """model memory after the set-up of a case, and the types of the owners visible in main"""
    kind, bind, ty, init = root
    mem = base_memory()
    types = dict(BASE_OBJS)
    if init == "value":
        if kind == "param":
            mem[rootname] = copy.deepcopy(mem["s"]) if ty == "S" else mem["x"]
        elif ty == I:
            mem[rootname] = 71
        else:
            mem[rootname] = s_value(70 if kind == "local" else 80, with_ptrs=(ty == "S"))
    else:
        mem[rootname] = ("ptr", POINTEE_OBJ[ty[2]])
    if kind != "param":
        types[rootname] = ty
    return mem, types


def render_case(case, n):
    """source pieces for one case: top-level text, body of its function, expected events (if the write is accepted)"""
    root, steps, op = case
    kind, bind, rty, init = root
    rootname = f"gr{n}" if kind == "global" else "r"
    mem, types = setup_memory(root, rootname)
    w = Walk(root, steps, mem, rootname)
    fty = w.ty
    expect_accept = True if op[0] == "ref" else w.mutable
    base = n * 1000
    top, body, expected = [], [], {}

    for name, t in BASE_OBJS:
        if t == I:
            body.append(f"{name} : i64 = {mem[name]};")
        else:
            body.append(f"{name} := {literal(mem[name], t)};")
    # ---- the root
    arg = None
    if kind == "global":
        top.append(f"{rootname} : i64 : {mem[rootname]};" if rty == I else f"{rootname} :: comptime {{ {literal(mem[rootname], rty)} }};")
    elif kind == "param":
        if init == "value":
            arg = "s" if rty == "S" else "x"
        else:
            arg = ("^mut " if rty[1] else "^") + POINTEE_OBJ[rty[2]]
    elif init == "value":
        body.append(f"r : {ty_text(rty)} {bind[1]} {literal(mem['r'], rty)};")
    else:
        m = "^mut " if rty[1] else "^"
        po = POINTEE_OBJ[rty[2]]
        if init == "ref":
            body.append(f"r {bind} {m}{po};")
        elif init == "coerce":
            body.append(f"r : {ty_text(rty)} {bind[1]} ^mut {po};")
        elif init == "copy":
            body.append(f"r0 := {m}{po};")
            body.append(f"r {bind} r0;")
        elif init == "call":
            top.append(f"idp{n} :: (p: {ty_text(rty)}) -> {ty_text(rty)} {{ p }}")
            body.append(f"r {bind} idp{n}({m}{po});")
    # ---- the operation under test
    stmts = []
    extra_param = None
    P_ = w.text
    writes = op[0] != "ref"
    after = copy.deepcopy(mem)
    if op[0] == "assign":
        if fty == I:
            val, mv = "7001", 7001
        elif fty == "T":
            val, mv = "T.{ a = 7001, b = 7002 }", {"a": 7001, "b": 7002}
        elif fty == A:
            val, mv = "i64.[7002, 7001]", [7002, 7001]
        else:
            val, mv = ("^mut " if fty[1] else "^") + ALT_OBJ[fty[2]], ("ptr", ALT_OBJ[fty[2]])
        if kind == "param" and is_ptr(fty):
            extra_param, val = (f"nv: {ty_text(fty)}", val), "nv"      # the new pointee is a local of the caller
        stmts.append(f"{P_} = {val};")
        mem_set(after, w.loc, mv)
    elif op[0] == "cmp":
        sym, k = CMP[op[1]]
        stmts.append(f"{P_} {sym} {k};")
        mem_set(after, w.loc, PY_OP[sym](mem_get(mem, w.loc), k))
    elif op[0] == "mutref":
        stmts.append(f"m1 := ^mut {ref_operand(P_)};")
        lp = leaf_path(fty)
        if lp is not None:
            stmts.append({(): "m1^ = 7001;", ("a",): "m1.a = 7001;", (1,): "m1[1] = 7001;"}[lp])
            mem_set(after, (w.loc[0], w.loc[1] + lp), 7001)
    else:
        stmts.append(f"m1 := ^{ref_operand(P_)};")
        e = leaf_through_ptr("m1", fty)
        if e is not None:
            stmts.append(f"vr_i64({base + 3}, {e});")
            expected[base + 3] = model_leaf(mem, w.loc, fty)
    if writes:
        e = leaf_of_value(P_, fty)
        if e is not None:
            stmts.append(f"vr_i64({base + 1}, {e});")
            expected[base + 1] = model_leaf(after, w.loc, fty)
    # ---- alias pointer to the canonical location, taken before the write
    alias = None
    if writes and expect_accept and w.loc[0] in types and "some" not in w.loc[1]:
        e = leaf_through_ptr("w", fty)
        if e is not None:
            body.append(f"w :: ^{canon_text(w.loc[0], types[w.loc[0]], w.loc[1])};")
            alias = f"vr_i64({base + 2}, {e});"
            expected[base + 2] = model_leaf(after, w.loc, fty)
    if kind == "param":
        top.append(f"f{n} :: (r: {ty_text(rty)}{', ' + extra_param[0] if extra_param else ''}) {{\n    " + "\n    ".join(stmts) + "\n}")
        body.append(f"f{n}({arg}{', ' + extra_param[1] if extra_param else ''});")
    else:
        body += stmts
    if alias:
        body.append(alias)
    # ---- dump of the whole memory
    k = 100
    for owner, t in types.items():
        for text, path, pty in dump_exprs(owner, t):
            body.append(f"vr_i64({base + k}, {text});")
            expected[base + k] = model_leaf(after, (owner, path), pty) if pty else mem_get(after, (owner, path))
            k += 1
    func = f"case{n} :: () {{\n    " + "\n    ".join(body) + "\n}\n"
    return {"top": "\n".join(top), "func": func, "expected": expected, "expect_accept": expect_accept, "target": P_, "fty": ty_text(fty),
            "why": w.why, "stmt": stmts[0], "loc": canon_text(w.loc[0], types.get(w.loc[0], rty), w.loc[1]) if w.loc[0] in types else f"(parameter copy){w.loc[1]}"}


def program(rendered):
    tops = "\n".join(r["top"] for r in rendered if r["top"])
    funcs = "\n".join(r["func"] for r in rendered)
    calls = "\n    ".join(f"case{k}();" for k in range(len(rendered)))
    return R.PRELUDE + DECLS + tops + "\n" + funcs + f"\nmain :: () -> i32 {{\n    {calls}\n    0\n}}\n"


# --------------------------------------------------------------------------- running and judging

def case_key(case):
    root, steps, op = case
    return (root_desc(root), chain_text(root, steps), op_text(op))


def judge_single(case, d):
    """compile (and run) one case in its own file -> verdict dict"""
    rd = render_case(case, 0)
    text = program([rd])
    c = R.compile_capy(d, {"main.capy": text})
    root, steps, op = case
    v = {"case": case, "status": None, "kinds": c.diag_kinds(), "helps": re.findall(r"^help: (.*)$", c.out, re.M), "rd": rd, "text": text}
    desc = f"`{rd['stmt']}` (root: {root_desc(root)}; oracle: path is {'mutable' if rd['expect_accept'] and op[0] != 'ref' else ('readable' if op[0] == 'ref' else 'immutable')} because {rd['why']})"
    v["desc"] = desc
    if c.timed_out or c.cpu_exceeded:
        v["status"] = "inconclusive"
        v["note"] = f"compiler watchdog on {desc}"
        return v
    if c.internal_error:
        v["status"] = "internal_error"
        v["sig"] = c.panic_sig()
        v["out"] = c.brief()[:1500]
        return v
    mut_diag = any(k in MUT_KINDS for k in v["kinds"])
    if c.rejected:
        if not mut_diag:
            v["status"] = "inconclusive"
            v["note"] = f"generator error: {desc} rejected without a mutability diagnostic: {v['kinds'][:3]}"
            v["out"] = c.brief()[:1500]
        elif rd["expect_accept"]:
            v["status"] = "rejected_mutable"
            v["out"] = c.brief()[:1500]
        else:
            v["status"] = "held_reject"
        return v
    if not c.accepted:
        v["status"] = "inconclusive"
        v["note"] = f"unclassifiable compiler outcome rc={c.rc} for {desc}"
        return v
    r = R.link_and_run(d, c.obj)
    if r.link_failed or r.timed_out:
        v["status"] = "inconclusive"
        v["note"] = f"link/run infrastructure failure for {desc}: {r.link_err[-200:]}"
        return v
    if not rd["expect_accept"]:
        v["status"] = "accepted_immutable"
        got = {i: val for tag, i, val in R.parse_log(r.out) if tag == "I"}
        changed = [f"event {i}: expected {e} got {got.get(i)}" for i, e in sorted(setup_expect(case).items()) if str(e) != got.get(i)]
        v["out"] = f"exe rc={r.rc} sig={r.sig}; memory dump entries that differ from the state before the operation: {changed[:6]}"
        return v
    v.update(compare_run(rd, r, 0))
    return v


def setup_expect(case):
    """the dump a program prints if the operation has no effect at all (used to show what an illegal write changed)"""
    rd = render_case((case[0], (), ("ref",)), 0)
    return {i: e for i, e in rd["expected"].items() if i >= 100}


def compare_run(rd, r, n):
    """effect check of case n of a program run"""
    got = {}
    for tag, i, val in R.parse_log(r.out):
        if tag == "I" and n * 1000 <= i < (n + 1) * 1000:
            got[i] = val
    bad = []
    names = {1: ("target", "read back through the target path"), 2: ("alias", "read through the alias pointer to the canonical location"),
             3: ("newref", "read through the new `^` reference")}
    for i, e in sorted(rd["expected"].items()):
        if got.get(i) != str(e):
            short, where = names.get(i % 1000, ("dump", "memory dump"))
            bad.append((short, f"{where} (event {i % 1000}): expected {e}, got {got.get(i)}"))
    if r.rc != 0 or r.sig:
        return {"status": "effect_not_visible", "how": "crash", "out": f"the accepted program ends with rc={r.rc} signal={r.sig}; {[b[1] for b in bad[:3]]}"}
    if bad:
        return {"status": "effect_not_visible", "how": "mismatch:" + "+".join(sorted({b[0] for b in bad})), "out": "; ".join(b[1] for b in bad[:6])}
    return {"status": "held_accept"}


def run_batch(job):
    """job = (index, work dir, [cases]); batches contain only expected-accept cases"""
    idx, d, cases = job
    if len(cases) == 1:
        return [judge_single(cases[0], d)]
    rds = [render_case(cs, n) for n, cs in enumerate(cases)]
    c = R.compile_capy(os.path.join(d, "batch"), {"main.capy": program(rds)})
    if c.accepted:
        r = R.link_and_run(os.path.join(d, "batch"), c.obj)
        if not (r.link_failed or r.timed_out) and r.rc == 0 and not r.sig:
            out = []
            redo = []
            for n, cs in enumerate(cases):
                res = compare_run(rds[n], r, n)
                if res["status"] == "held_accept":
                    out.append({"case": cs, "status": "held_accept", "kinds": [], "helps": [], "rd": rds[n], "batched": True})
                else:
                    out.append(None)
                    redo.append(n)
            for n in redo:
                out[n] = judge_single(cases[n], os.path.join(d, f"s{n}"))
            return out
    return [judge_single(cs, os.path.join(d, f"s{n}")) for n, cs in enumerate(cases)]


def chain_final_type(t, steps):
    for st in steps:
        nxt = [nt for s_, nt in steps_from(t, None) if s_ == st]
        if not nxt:
            return t
        t = nxt[0]
    return t


def select_quick(seed):
    rng = C.Rng(seed, 14)
    space = case_space(MAX_STEPS)
    order = C.Rng(0, 1414).shuffle(list(range(len(space))))   # the core does not depend on the seed
    order.sort(key=lambda k: len(space[k][1]))       # short chains first
    covered, core = set(), []
    for k in order:
        root, steps, op = space[k]
        rdsc = root_desc(root)
        rc = root_class(root)
        feats = {(rc, st[0], op_kind(op)) for st in steps} or {(rc, "none", op_kind(op))}
        feats.add((rdsc, "root", op_kind(op)))
        # every ordered pair of adjacent step kinds under every operation kind, and the (last two steps, operation) triple:
        # a bug may need a particular neighbourhood (e.g. parentheses around an #unwrap under ^mut)
        kinds = [st[0] for st in steps]
        for a_, b_ in zip(kinds, kinds[1:]):
            feats.add(("pair", a_, b_, op_kind(op), "ptr" if is_ptr(root[2]) else "val"))
        if len(kinds) >= 2:
            # ... and the last two steps together with the class of the value that is finally written
            fty = chain_final_type(root[2], steps)
            fcls = "int" if fty == I else "ptr" if is_ptr(fty) else "arr" if is_arr(fty) else "opt" if is_opt(fty) else "struct"
            feats.add(("tail", kinds[-2], kinds[-1], op_kind(op), fcls))
        if op[0] == "cmp":
            feats.add((rc, "operator", op[1]))
        if feats - covered:
            covered |= feats
            core.append(k)
    chosen = set(core)
    rest = [k for k in range(len(space)) if k not in chosen]
    extra = rng.sample(rest, 460)
    four = case_space(MAX_STEPS + 1, exact=True)
    sample4 = rng.sample(four, 60)
    return [space[k] for k in core] + [space[k] for k in extra] + sample4, len(core), len(space)


# --------------------------------------------------------------------------- two pointer levels (family B)

def two_level_cases():
    """targets reached through a pointer to a pointer: every level that is crossed must be `^mut` for a write to be accepted.
    (outer mutable?, inner mutable?, pointee kind, access form) -> one small program each"""
    out = []
    forms_arr = [("index_auto", "pp[0] = 77;", 2), ("index_auto_cmp", "pp[0] += 70;", 2), ("mutref_index", "m := ^mut pp[0]; m^ = 77;", 2),
                 ("deref_index", "pp^[0] = 77;", 2), ("deref2_index", "pp^^[0] = 77;", 2), ("deref_only_assign_inner", None, 1)]
    forms_st = [("field_auto", "pp.a = 77;", 2), ("field_auto_cmp", "pp.a += 70;", 2), ("mutref_field", "m := ^mut pp.a; m^ = 77;", 2),
                ("deref_field", "pp^.a = 77;", 2), ("deref2_field", "pp^^.a = 77;", 2)]
    for mo in (0, 1):
        for mi in (0, 1):
            for kind, forms in (("arr", forms_arr), ("struct", forms_st)):
                for fname, stmt, levels in forms:
                    if stmt is None:
                        continue
                    for bind in ("::", ":="):
                        inner_t = ("^mut " if mi else "^") + ("[2]i64" if kind == "arr" else "T2")
                        outer_t = ("^mut " if mo else "^") + inner_t
                        obj = "arr := i64.[7, 8];" if kind == "arr" else "arr := T2.{ a = 7, b = 8 };"
                        rd = "vr_i64(1, arr[0]); vr_i64(2, arr[1]);" if kind == "arr" else "vr_i64(1, arr.a); vr_i64(2, arr.b);"
                        text = (R.PRELUDE + "T2 :: struct { a: i64, b: i64 };\nmain :: () -> i32 {\n    " + obj + f"\n    q : {inner_t} = {'^mut ' if mi else '^'}arr;\n"
                                f"    pp : {outer_t} {':' if bind == '::' else '='} {'^mut ' if mo else '^'}q;\n    {stmt}\n    {rd}\n    0\n}}\n")
                        accept = bool(mo and mi)
                        out.append({"name": f"{kind}_{fname}_o{mo}_i{mi}_{'c' if bind == '::' else 'v'}", "text": text, "accept": accept, "form": fname, "mo": mo, "mi": mi, "bind": bind})
    return out


def run_two_level(work):
    """returns (evaluations, distinct set, violations, inconclusive)"""
    cases = two_level_cases()

    def one(cs):
        d = os.path.join(work, "tl_" + cs["name"])
        c = R.compile_capy(d, {"main.capy": cs["text"]})
        r = R.link_and_run(d, c.obj) if c.accepted else None
        return cs, c, r
    evals, distinct, viol, inconc = 0, set(), [], []
    for cs, c, r in C.pmap(one, cases):
        wit = {"files": {"main.capy": cs["text"]}}
        if c.timed_out or (r is not None and (r.link_failed or r.timed_out)):
            inconc.append(f"two-level {cs['name']}: watchdog/link")
            continue
        if c.internal_error:
            viol.append({"key": "internal_error", "sig": "internal_error|" + c.panic_sig(), "what": f"two-level pointer case {cs['name']}: internal compiler error", "witness": wit})
            continue
        kinds = c.diag_kinds()
        if not c.accepted and (any(not k.startswith(MUT_KINDS) for k in kinds) or not kinds):
            inconc.append(f"two-level {cs['name']}: rejected for another reason: {kinds[:2]}")
            continue
        evals += 1
        distinct.add(("two_level", cs["form"], cs["mo"], cs["mi"], cs["bind"]))
        if cs["accept"] and not c.accepted:
            viol.append({"key": "rejected_mutable", "sig": f"rejected_mutable|two_level|{cs['form']}", "what": f"two-level pointer case {cs['name']} (both levels ^mut) is rejected: {kinds[:2]}", "witness": wit})
        elif not cs["accept"] and c.accepted:
            viol.append({"key": "accepted_immutable", "sig": f"accepted_immutable|two_level|{cs['form']}|outer={'mut' if cs['mo'] else 'imm'}|inner={'mut' if cs['mi'] else 'imm'}",
                         "what": f"two-level pointer case {cs['name']}: a write that crosses an immutable pointer level is accepted (exit {r.rc if r else None}, output {r.out[-120:] if r else ''})", "witness": wit})
        elif cs["accept"]:
            vals = {i: v.strip() for t, i, v in R.parse_log(r.out) if t == "I"}
            if r.rc != 0 or vals.get(1) != "77" or vals.get(2) != "8":
                viol.append({"key": "effect_not_visible", "sig": f"effect_not_visible|two_level|{cs['form']}", "what": f"two-level pointer case {cs['name']}: accepted write not visible through the owner: rc={r.rc} values={vals}", "witness": wit})
    return evals, distinct, viol, inconc


def select_thorough(seed):
    rng = C.Rng(seed, 14)
    space = case_space(MAX_STEPS)
    four = case_space(MAX_STEPS + 1, exact=True)
    return space + rng.sample(four, 4000), len(space), len(space)


def violation_of(v):
    case = v["case"]
    root, steps, op = case
    rd = v["rd"]
    st = v["status"]
    chain = chain_text(root, steps)
    via = root_class(root) + (f" init={root[3]}" if root[3] not in ("value", "arg") else "")
    opk = "write" if op[0] in ("assign", "cmp") else op[0]
    fine = f"|root={root_desc(root)}|op={op_text(op)}|chain={chain}"
    if st == "internal_error":
        sig = "internal_error|" + v["sig"]
        cls = sig
        what = f"internal compiler error on {v['desc']}: {v.get('out', '')[:300]}"
    elif st in ("accepted_immutable", "rejected_mutable"):
        cls = f"{st}|why={rd['why']}|via={via}|op={opk}"
        sig = cls + fine
        if st == "accepted_immutable":
            what = f"accepted although the target is immutable: {v['desc']}; written location: {rd['loc']}; {v.get('out', '')}"
        else:
            what = f"rejected although the target is mutable: {v['desc']}; diagnostics: {v['kinds'][:2]} / {v['helps'][:2]}"
    else:
        operand = rd["stmt"].split(" = ")[0] if op[0] in ("assign", "cmp") else rd["stmt"].split(":= ", 1)[1]
        feats = "+".join((["paren"] if "(" in operand.replace("#unwrap(", "") else []) + (["unwrap"] if "#unwrap(" in operand else [])) or "plain"
        cls = f"effect_not_visible|{v['how']}|op={opk}|type={rd['fty']}|steps={feats}"
        sig = cls + fine
        what = f"accepted {v['desc']} but the effect is not what every alias shows: {v.get('out', '')[:500]}"
    return cls, {"key": "internal_error" if st == "internal_error" else st, "sig": sig, "what": what,
                 "witness": {"files": {"main.capy": v["text"]}, "case": case_to_json(case), "compiler_output": v.get("out", "")[:1500]}}


def case_to_json(case):
    return json.loads(json.dumps(case))


def tuplify(x):
    return tuple(tuplify(e) for e in x) if isinstance(x, list) else x


def run(tier, seed):
    t0 = time.time()
    C.build_cli()
    C.build_rt()
    work = C.fresh_dir("C14")
    if tier == "quick":
        cases, ncore, nspace = select_quick(seed)
        batch = 6
    else:
        cases, ncore, nspace = select_thorough(seed)
        batch = 10
    # expected-reject cases: one per file; expected-accept cases: batched, with single-file fallback
    jobs, pending = [], []
    for cs in cases:
        root, steps, op = cs
        mem, _ = setup_memory(root, "r")
        exp_accept = op[0] == "ref" or Walk(root, steps, mem, "r").mutable
        if exp_accept and batch > 1:
            pending.append(cs)
            if len(pending) == batch:
                jobs.append(pending)
                pending = []
        else:
            jobs.append([cs])
    if pending:
        jobs.append(pending)
    jobs = [(k, os.path.join(work, f"j{k}"), b) for k, b in enumerate(jobs)]

    def safe(job):
        try:
            return run_batch(job)
        except C.Inconclusive as e:
            return [{"case": cs, "status": "inconclusive", "note": f"infrastructure: {e}", "kinds": [], "helps": []} for cs in job[2]]

    results = [v for out in C.pmap(safe, jobs) for v in out]
    for v in results:
        if v["status"] in ("held_accept", "held_reject"):
            v.pop("text", None)

    counters = {"space_size_le3_steps": nspace, "core_cases": ncore, "cases_run": len(results)}
    inconc, viol_by_class, samples, distinct = [], {}, [], set()
    evaluations = 0
    nviol = 0
    for v in results:
        root, steps, op = v["case"]
        st = v["status"]
        counters[f"status:{st}"] = counters.get(f"status:{st}", 0) + 1
        for kd in v.get("kinds", []):
            kd = kd if kd in MUT_KINDS else "other: " + kd[:60]
            counters[f"diag:{op_kind(op)}:{kd}"] = counters.get(f"diag:{op_kind(op)}:{kd}", 0) + 1
        for h in v.get("helps", []):
            counters[f"help:{h[:70]}"] = counters.get(f"help:{h[:70]}", 0) + 1
        if st == "inconclusive":
            inconc.append(v["note"])
            continue
        evaluations += 1
        distinct.add(case_key(v["case"]))
        counters[f"root:{root[0]}{root[1] or ''}"] = counters.get(f"root:{root[0]}{root[1] or ''}", 0) + 1
        counters[f"op:{op_text(op)}"] = counters.get(f"op:{op_text(op)}", 0) + 1
        if st == "held_reject" and op[0] in ("assign", "cmp") and MUT_KINDS[0] not in v["kinds"]:
            counters["reject_with_other_mutability_kind"] = counters.get("reject_with_other_mutability_kind", 0) + 1
        if st == "held_reject" and op[0] == "mutref" and MUT_KINDS[1] not in v["kinds"]:
            counters["reject_with_other_mutability_kind"] = counters.get("reject_with_other_mutability_kind", 0) + 1
        if st in ("held_accept", "held_reject"):
            want = {"held_accept": 3, "held_reject": 3}[st]
            have = sum(1 for s in samples if s["verdict"] == st)
            if have < want and len(steps) >= 2:
                rd = v["rd"]
                samples.append({"verdict": st, "root": root_desc(root), "statement": rd["stmt"], "oracle": rd["why"],
                                "diagnostics": v["kinds"][:2], "help": v["helps"][:1],
                                "events_checked": len(rd["expected"]) if st == "held_accept" else 0})
            continue
        nviol += 1
        if "text" not in v:
            continue
        cls, viol = violation_of(v)
        viol_by_class.setdefault(cls, []).append(viol)
    # one representative (shortest chain) per violation class, capped
    violations = []
    for cls in sorted(viol_by_class):
        vs = sorted(viol_by_class[cls], key=lambda x: (len(x["sig"]), x["sig"]))
        vs[0]["what"] += f" [{len(vs)} case(s) of this class in this run]"
        violations.append(vs[0])
    tl_evals, tl_distinct, tl_viol, tl_inconc = run_two_level(work)
    evaluations += tl_evals
    distinct |= tl_distinct
    violations += tl_viol
    inconc += tl_inconc
    counters["two_level_pointer_cases"] = tl_evals
    dropped = nviol - len(violations) + len(tl_viol)
    if len(violations) > VIOLATION_CAP:
        dropped += len(violations) - VIOLATION_CAP
        violations = violations[:VIOLATION_CAP]
    counters["violating_cases"] = nviol
    counters["violation_classes"] = len(viol_by_class)
    report = {"evaluations": evaluations, "distinct_nontrivial": len(distinct), "violations": violations, "dropped_violations": dropped,
              "samples": samples, "counters": counters, "exhaustive": tier != "quick",
              "notes": [f"chains of at most {MAX_STEPS} steps after the root: {nspace} (root, steps, operation) cases" +
                        (" all run" if tier != "quick" else f", {ncore} core + 460 random of them run") + "; plus a random sample of 4-step chains",
                        "violations are grouped by (failure, root, oracle reason, operation kind, ...); one representative per group is reported"]}
    return C.finish("C14", tier, seed, t0, "exploration", report, ASSUME, RULE, min_evals=300, inconclusive=inconc)


def replay(path):
    w = json.load(open(os.path.join(path, "witness.json")))
    wit = w.get("witness") or {}
    C.build_cli()
    C.build_rt()
    work = C.fresh_dir("C14", "replay")
    rc = 0
    if wit.get("case"):
        case = tuplify(wit["case"])
        v = judge_single(case, os.path.join(work, "case"))
        print(f"case {case_key(case)} -> {v['status']}\n  {v.get('desc')}\n  {v.get('out', '')}\n  diagnostics: {v.get('kinds')}")
        if v["status"] not in ("held_accept", "held_reject", "inconclusive"):
            rc = 1
        elif v["status"] == "inconclusive":
            rc = 2
    elif wit.get("files"):
        c = R.compile_capy(os.path.join(work, "files"), wit["files"])
        print(f"accepted={c.accepted} rejected={c.rejected} internal_error={c.internal_error}\n{c.brief()[:1500]}")
        rc = 1
    if rc == 1:
        print(f"VIOLATION property=C14 replay={path}")
    C.clean_work("C14")
    return rc
