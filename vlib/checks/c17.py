"""C17 — layouts (probe c17 via hook H1, for pointer widths 64 and 32, plus gcc offsetof cross-check)."""
import json
import os
import time

from .. import common as C

RULE = ("types: every unary constructor over all primitives and again over all depth<=1 types (exhaustive), struct/enum shapes = all member "
        "tuples of length 1..3 over 8 representative member types (+ sampled length 4), sampled error unions and depth-2/3 composites; both "
        "pointer widths; each type's observed size/align/stride/offsets/tag offset is judged by the statement's rules; structs of C scalars "
        "are additionally compared with gcc's offsetof/sizeof/_Alignof; non-trivial = composite type, distinct = distinct (kind, size, align, offsets, tag) tuples")
ASSUME = ["'pointer' in 'optional of a pointer' means ^T, ^mut T, rawptr and mut rawptr; optionals of distinct pointers may use either representation",
          "the one-byte tag is expected directly after the largest payload (README: 'a u8 that comes after the payload')",
          "gcc -O0 on x86-64 is the reference C layout; 128-bit integers are excluded from the C comparison (capy aligns them to 8)"]


def c_crosscheck(cases, work):
    src = ["#include <stdint.h>", "#include <stddef.h>", "#include <stdio.h>"]
    body = []
    for i, c in enumerate(cases):
        src.extend(c["defs"])
        for f in range(c["nfields"]):
            body.append(f'printf("{i} {f} %zu\\n", offsetof({c["ctype"]}, f{f}));')
        body.append(f'printf("{i} size %zu\\n", sizeof({c["ctype"]}));')
        body.append(f'printf("{i} align %zu\\n", (size_t)_Alignof({c["ctype"]}));')
    src.append("int main(void) {")
    src.extend(body)
    src.append("return 0; }")
    cf = os.path.join(work, "layout.c")
    open(cf, "w").write("\n".join(src))
    exe = os.path.join(work, "layout")
    r = C.run_proc(["gcc", "-O0", "-w", cf, "-o", exe], cpu_s=300, mem_gb=8)
    if r.rc != 0:
        raise C.Inconclusive("gcc failed on the layout cross-check file: " + r.err[-500:])
    r = C.run_proc([exe], cpu_s=30)
    if r.rc != 0:
        raise C.Inconclusive("layout cross-check binary failed")
    got = {}
    for line in r.out.splitlines():
        i, k, v = line.split()
        got.setdefault(int(i), {})[k] = int(v)
    viol = []
    n = 0
    for i, c in enumerate(cases):
        n += 1
        g = got.get(i, {})
        want_off = [g.get(str(f)) for f in range(c["nfields"])]
        if want_off != c["offsets"] or g.get("size") != c["stride"] or g.get("align") != c["align"]:
            viol.append({"key": "c_layout", "what": f"capy lays out {c['defs'][-1]} as offsets={c['offsets']} stride={c['stride']} align={c['align']}, "
                         f"gcc as offsets={want_off} sizeof={g.get('size')} alignof={g.get('align')}",
                         "witness": {"type": c["type"], "c": c["defs"]}})
    return n, viol


def run(tier, seed):
    t0 = time.time()
    C.build_probe()
    rep64 = C.run_probe("c17", tier, seed, extra=["--ptr", "64"])
    rep32 = C.run_probe("c17", tier, seed, extra=["--ptr", "32"])
    cases = rep64.pop("c_cases", [])
    work = C.fresh_dir("C17")
    n, viol = c_crosscheck(cases, work) if cases else (0, [])
    rep = C.merge_reports([rep64, rep32])
    rep["violations"] = rep["violations"] + viol[:10]
    rep["evaluations"] += n
    rep["counters"]["c_structs_compared_with_gcc"] = n
    rep["distinct_nontrivial"] = rep64["distinct_nontrivial"] + rep32["distinct_nontrivial"]
    if cases:
        rep["samples"] = rep["samples"][:6] + [{"c_struct": cases[1]["defs"], "capy_offsets": cases[1]["offsets"], "stride": cases[1]["stride"]}]
    return C.finish("C17", tier, seed, t0, "exploration", rep, ASSUME, RULE, min_evals=20000)


def replay(path):
    print(open(os.path.join(path, "witness.json")).read()[:3000])
    print("layout witnesses name a type; re-running the quick check re-evaluates the whole bounded universe")
    return run("quick", 0)
