"""C06 — the compiler never crashes or hangs, whatever it is given.

Process-level monitor around the real release CLI: one child per input with RLIMIT_CPU/AS, exit status, signal,
stdout scanned for panic / verifier / internal-error text, existence of the object file.
Allowed outcomes: exit 0 with an object file, or exit 1 with at least one error line.
"""
import json
import os
import re
import shutil
import time

from .. import common as C
from .. import capyrun as R
from .. import pipe as P

RULE = ("inputs: random UTF-8, token soups over the grammar's tokens, nesting families up to depth 200, byte- and token-level mutations of the corpus "
        "(examples, core, parser fixtures, test snippets), semantic near-valid mutants (identifier swaps, type/literal/operator changes, deleted "
        "definitions), each alone and (a fraction) together with the core module; one CLI process per input under a CPU budget of 20 s; "
        "non-trivial = input that gets past the parser without syntax errors or is >= 200 bytes; distinct = distinct (class, outcome, first message shape)")
ASSUME = ["'bounded time' is judged as 20 s of CPU for inputs <= 64 KiB (about 500x the typical cost); a CPU-limit hit is re-run once alone before it counts",
          "a mutated input whose comptime code loops, dereferences garbage or calls an extern is the user program's fault: hangs/signals of inputs that contain "
          "`comptime` are counted as inconclusive, not as violations"]

TOKENS = ["foo", "bar", "x", "i32", "u8", "str", "bool", "1", "42", "0x1F", "1.5", "'c'", "\"s\"", "true", "nil", "(", ")", "{", "}", "[", "]", "::", ":=", ":", "=", ";", ",",
          ".", "..", "...", "->", "=>", "^", "^mut", "`l", "#import", "#mod", "#unwrap", "#is_variant", "?", "!", "+", "-", "*", "/", "%", "<", ">", "<=", "==", "!=", "&&",
          "||", "&", "|", "~", "<<", ">>", "if", "else", "while", "loop", "switch", "in", "distinct", "mut", "extern", "struct", "enum", "comptime", "return", "break",
          "continue", "defer", "try", ".try", "as", "_", "main", "\n", "// c\n"]
TOKEN_RE = re.compile(r"\s+|//[^\n]*|\"(?:[^\"\\\n]|\\.)*\"?|'(?:[^'\\\n]|\\.)*'?|[A-Za-z_][A-Za-z0-9_]*|\d[\d_]*(?:\.\d+)?|<<|>>|<=|>=|==|!=|&&|\|\||->|=>|\.\.\.|.", re.S)


def random_utf8(rng, n):
    out = []
    for _ in range(n):
        k = rng.below(10)
        if k < 5:
            out.append(chr(32 + rng.below(95)))
        elif k < 7:
            out.append(rng.pick(["\n", "\t", " ", "\r\n"]))
        elif k < 9:
            out.append(chr(rng.range(0xA0, 0x7FF)))
        else:
            cp = rng.range(0x800, 0x1FFFF)
            if 0xD800 <= cp <= 0xDFFF:
                cp = 0x4E00
            out.append(chr(cp))
    return "".join(out)


def token_soup(rng, n):
    return " ".join(rng.pick(TOKENS) for _ in range(n))


def structured_soup(rng):
    """definitions with plausible shape but random insides"""
    parts = []
    for _ in range(rng.range(1, 6)):
        name = rng.pick(["a", "b", "main", "T", "f"])
        kind = rng.below(5)
        inner = token_soup(rng, rng.range(1, 14))
        if kind == 0:
            parts.append(f"{name} :: ({rng.pick(['', 'x: i32', 'comptime T: type', 'x: ' + inner])}) -> {rng.pick(['i32', 'void', 'T', inner])} {{ {inner} }}")
        elif kind == 1:
            parts.append(f"{name} :: struct {{ a: {rng.pick(['i32', inner])}, b: {inner} }};")
        elif kind == 2:
            parts.append(f"{name} :: enum {{ A, B: {inner} | {rng.pick(['1', inner])} }};")
        elif kind == 3:
            parts.append(f"{name} : {rng.pick(['i32', inner])} : {inner};")
        else:
            parts.append(f"{name} :: comptime {{ {inner} }};")
    return "\n".join(parts) + "\n"


def token_mutate(rng, text):
    toks = TOKEN_RE.findall(text)
    if not toks:
        return text
    for _ in range(rng.range(1, 3)):
        if not toks:
            break
        p = rng.below(len(toks))
        k = rng.below(6)
        if k == 0:
            del toks[p]
        elif k == 1:
            toks.insert(p, toks[p])
        elif k == 2:
            q = rng.below(len(toks))
            toks[p], toks[q] = toks[q], toks[p]
        elif k == 3:
            toks[p] = rng.pick(TOKENS)
        elif k == 4:
            q = min(len(toks), p + rng.range(1, 12))
            del toks[p:q]
        else:
            toks.insert(p, rng.pick(TOKENS))
    return "".join(toks)


def byte_mutate(rng, text):
    b = bytearray(text.encode("utf-8"))
    for _ in range(rng.range(1, 4)):
        if not b:
            break
        p = rng.below(len(b))
        k = rng.below(4)
        if k == 0:
            del b[p]
        elif k == 1:
            b.insert(p, rng.below(128))
        elif k == 2:
            b[p] = rng.below(128)
        else:
            q = min(len(b), p + rng.range(1, 40))
            b[p:p] = b[p:q]
    return b.decode("utf-8", "replace")


def nesting(kind, depth):
    fam = [("(", ")", "a"), ("{", "}", "a"), ("[", "]", "a"), ("f(", ")", "a"), ("if a {", "}", "b"), ("a[", "]", "1"), ("-", "", "a"), ("^", "", "a"),
           (".{ x = ", "}", "1"), ("struct { a: ", "}", "i32"), ("?", "", "i32"), ("comptime {", "}", "1"), ("switch e in a { .X => ", "}", "1"),
           ("(x: i32) -> i32 {", "}", "x"), ("(", "", "a"), ("", ")", "a"), ("{", "", "a"), ("[1]", "", "i32"), ("distinct ", "", "i32"), ("^mut ", "", "i32")]
    o, c, core = fam[kind % len(fam)]
    return "x :: " + o * depth + core + c * depth + ";\nmain :: () {}\n"


def classify(c, text):
    """returns (verdict, detail): ok | violation | inconclusive"""
    has_comptime = "comptime" in text
    if c.timed_out:
        return "inconclusive", "wall-clock watchdog"
    if c.cpu_exceeded or c.sig in (24, 9):
        return ("inconclusive" if has_comptime else "hang"), f"CPU budget exceeded (signal {c.sig})"
    if c.sig:
        if has_comptime and c.sig in (11, 7, 4, 8):
            return "inconclusive", f"signal {c.sig} in an input with comptime code"
        return "violation", f"killed by signal {c.sig}"
    if c.internal_error:
        if has_comptime and "comptime compilation panicked" in c.out and "panicked at" not in c.err + c.out:
            return "inconclusive", "comptime user code failed"
        return "violation", "internal error"
    if c.accepted or c.rejected:
        return "ok", "accepted" if c.accepted else "rejected"
    if c.rc == 1 and not c.rejected:
        # exit 1 without an `error` line: the CLI has a few plain messages (no main function, file problems)
        if re.search(r"there is no `\w+` function|there are multiple|must end in|No such file|is not valid", c.out):
            return "ok", "rejected (plain message)"
        return "violation", "exit status 1 without any error diagnostic"
    return "violation", f"unexpected exit status {c.rc}"


def shape(c):
    m = re.search(r"^error[^:]*: (.*)$", c.out, re.M)
    if not m:
        return "-"
    s = re.sub(r"`[^`]*`", "`_`", m.group(1))
    return re.sub(r"\d+", "N", s)[:50]


def one(job):
    idx, text, cls, work = job
    d = os.path.join(work, f"i{idx}")
    c = R.compile_capy(d, {"main.capy": text}, cpu_s=20)
    verdict, detail = classify(c, text)
    if verdict == "hang":
        c2 = R.compile_capy(d, {"main.capy": text}, cpu_s=20)
        v2, d2 = classify(c2, text)
        verdict, detail = ("violation", "compilation exceeds the CPU budget of 20 s (reproduced)") if v2 == "hang" else ("inconclusive", "CPU budget hit once, not reproduced")
        c = c2 if v2 == "hang" else c
    sig = c.panic_sig() if verdict == "violation" else None
    out = (idx, cls, verdict, detail, sig, shape(c), c.brief()[:500] if verdict != "ok" else "", len(text))
    shutil.rmtree(d, ignore_errors=True)
    return out


def span_program(nfields, lead):
    """a type error whose range (a struct literal) spans nfields + 2 lines and starts at line lead + 2: exercises the snippet renderer's
    omission row (`...`) and its line-number gutter at every span length and across the 1/2/3-digit line-number boundaries"""
    fs = [f"f{i}" for i in range(nfields)]
    lines = ["// pad"] * lead + ["main :: () -> i32 {", "    total : i32 = Config.{"] + [f"        {f} = {i}," for i, f in enumerate(fs)]
    lines += ["    };", "    total", "}", "Config :: struct {"] + [f"    {f}: i32," for f in fs] + ["};"]
    return "\n".join(lines) + "\n"


def make_inputs(tier, seed):
    rng = C.Rng(seed, 6)
    corpus = C.corpus_texts()
    progs = P.programs_with_main(corpus)
    n = {"utf8": 60, "soup": 150, "structured": 150, "byte_mut": 150, "token_mut": 300, "semantic": 350, "core_semantic": 40} if tier == "quick" else \
        {"utf8": 1000, "soup": 4000, "structured": 5000, "byte_mut": 5000, "token_mut": 12000, "semantic": 15000, "core_semantic": 1000}
    inputs = []
    for _ in range(n["utf8"]):
        inputs.append((random_utf8(rng, rng.pick([5, 40, 400, 4000, 60000]) if rng.chance(1, 8) else rng.range(1, 200)), "utf8"))
    for _ in range(n["soup"]):
        inputs.append((token_soup(rng, rng.range(1, 60)), "soup"))
    for _ in range(n["structured"]):
        inputs.append((structured_soup(rng), "structured"))
    for _ in range(n["byte_mut"]):
        inputs.append((byte_mutate(rng, rng.pick(corpus)), "byte_mut"))
    for _ in range(n["token_mut"]):
        inputs.append((token_mutate(rng, rng.pick(progs)), "token_mut"))
    for _ in range(n["semantic"]):
        inputs.append((P.semantic_mutant(rng, rng.pick(progs))[0], "semantic"))
    with_core = [p for p in progs if "#mod(\"core\")" in p]
    for _ in range(n["core_semantic"]):
        if with_core:
            inputs.append((P.semantic_mutant(rng, rng.pick(with_core))[0], "core_semantic"))
    for kind in range(20):
        for depth in ((3, 40, 200) if tier == "quick" else (1, 2, 5, 20, 60, 120, 200)):
            inputs.append((nesting(kind, depth), "nesting"))
    for nfields in range(0, 25 if tier == "quick" else 40):
        for lead in ((0, 2, 88, 97) if tier == "quick" else (0, 1, 2, 5, 80, 88, 93, 97, 99, 985, 997)):
            inputs.append((span_program(nfields, lead), "diag_span"))
    return inputs


def run(tier, seed):
    t0 = time.time()
    C.build_cli()
    C.build_rt()
    work = C.fresh_dir("C06")
    inputs = make_inputs(tier, seed)
    jobs = [(i, t[:65536], cls, work) for i, (t, cls) in enumerate(inputs)]
    results = C.pmap(one, jobs)
    viol, inconc, samples, sigs = [], [], [], set()
    evals = 0
    cnt = {}
    counters = {}
    for idx, cls, verdict, detail, sig, shp, brief, size in results:
        counters[f"{cls}:{verdict}"] = counters.get(f"{cls}:{verdict}", 0) + 1
        if verdict == "inconclusive":
            inconc.append(f"input {idx} ({cls}): {detail}")
            continue
        evals += 1
        if shp != "-" or size >= 200:
            sigs.add((cls, detail.split(" ")[0], shp))
        if verdict == "violation":
            s = "internal_error|" + sig
            cnt[s] = cnt.get(s, 0) + 1
            if cnt[s] <= 2:
                viol.append({"key": "internal_error", "sig": s, "what": f"{detail} on a {cls} input: {brief[:300]}", "witness": {"files": {"main.capy": jobs[idx][1]}, "class": cls}})
        elif len(samples) < 6 and detail == "rejected" and cls in ("semantic", "token_mut", "structured"):
            samples.append({"class": cls, "outcome": detail, "first_error": shp, "bytes": size})
    pinned, notes = R.pinned_internal_errors("C06", work)
    viol.extend(pinned)
    # sanitizer sample: the same CLI under valgrind memcheck on inputs that compile normally (accepted or rejected);
    # an addressability error inside the compiler is a violation even when the process survives it
    n_mc = 6 if tier == "quick" else 120
    rng = C.Rng(seed, 66)
    cand = [j for j, r in zip(jobs, results) if r[2] == "ok" and len(j[1]) < 6000]
    mc_jobs = [(k, j[1], j[2], os.path.join(work, f"mc{k}")) for k, j in enumerate(rng.sample(cand, min(n_mc, len(cand))))]

    def mc_one(job):
        k, text, cls, d = job
        c, reports = R.memcheck_compile(d, {"main.capy": text})
        shutil.rmtree(d, ignore_errors=True)
        return k, text, cls, c.timed_out or c.cpu_exceeded, reports

    mc_done = 0
    for k, text, cls, lost, reports in C.pmap(mc_one, mc_jobs):
        if lost:
            inconc.append(f"memcheck input {k} ({cls}): watchdog")
            continue
        mc_done += 1
        for kind, sig in reports[:1]:
            viol.append({"key": "memcheck", "sig": "memcheck|" + sig, "what": f"valgrind memcheck: {kind} while compiling a {cls} input ({sig})",
                         "witness": {"files": {"main.capy": text}, "class": cls}})
    counters["memcheck_compilations"] = mc_done
    evals += mc_done
    notes.append(f"{mc_done} of the inputs were also compiled under valgrind memcheck (addressability errors only)")
    counters["distinct_internal_error_signatures"] = len(cnt)
    rep = {"evaluations": evals, "distinct_nontrivial": len(sigs), "violations": viol, "samples": samples, "counters": counters, "notes": notes, "exhaustive": False}
    return C.finish("C06", tier, seed, t0, "exploration", rep, ASSUME, RULE, min_evals=500, inconclusive=inconc)


def replay(path):
    w = json.load(open(os.path.join(path, "witness.json")))
    files = (w.get("witness") or {}).get("files")
    C.build_cli()
    work = C.fresh_dir("C06", "replay")
    c = R.compile_capy(work, files, cpu_s=20)
    v, d = classify(c, files["main.capy"])
    print(c.brief()[:2000])
    print("verdict:", v, d, c.panic_sig() if v == "violation" else "")
    if v == "violation":
        print(f"VIOLATION property=C06 replay={path}")
        return 1
    return 0
