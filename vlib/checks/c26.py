"""C26 — inference scheduling (probe c26: lock-step model vs the real TopoSort)."""
from ._probe_check import run_probe_check, replay_text

RULE = ("histories following the checker's protocol (seed, rounds of offered items that each complete or register dependencies on "
        "not-yet-completed items, cycle-breaking rounds): breadth-first over all histories with <= 3 (quick) / 4 (thorough) items and "
        "<= 8 rounds with states hashed on the real structure's Debug form, plus random histories with up to 7 items and 14 rounds; "
        "every round boundary compares len/is_empty/in_cycle/peek_all/peek_all_cyclic with the model; "
        "distinct = distinct (length, cyclic rounds, completed) shapes of finished histories")
ASSUME = ["model: offered = pending items none of whose registered dependencies is pending; cycle iff pending non-empty and that set empty",
          "histories recorded from real compilations (hook H2) are replayed against the same model in C20/C26's pipeline part"]


# the same lock-step monitor interpreted by Miri
MIRI = {"quick": ["--items", "2", "--rounds", "3", "--maxstates", "120", "--random", "16"],
        "thorough": ["--items", "2", "--rounds", "6", "--maxstates", "20000", "--random", "400"], "shards": 6, "shard_by_seed": True}


def run(tier, seed):
    # the breadth-first frontier of the 4-item space is capped so that the probe stays well inside its address-space limit
    extra = ["--maxstates", "200000"] if tier == "thorough" else []
    return run_probe_check("C26", tier, seed, RULE, ASSUME, extra=extra, min_evals=100000, miri=MIRI)


def replay(path):
    return replay_text("C26", path)
