"""C28 — imports resolve to the right files and each file is compiled once.

Workload: random directory trees (<= 6 local .capy files in <= 3 directories under a fresh working directory, plus an
own module directory given with --mod-dir) whose files import each other with random relative spellings
(`..`, `./`, detours, cycles, self-imports, the same file under two spellings, `#mod`), compiled by the real CLI with
cwd = the tree's working directory. Every file defines `id :: () -> i64 { <unique> }`; the entry file's `main`
prints `a.b.id()` along import paths through the runtime printer.

Monitor: CLI exit status + diagnostics, the `=== <file> ===` header the CLI prints per parsed file under
`--verbose-hir all`, the `x :: #import("<resolved path>")` lines of that dump, and the program's output.

Oracle: a small import-resolution model written from the property statement (m_resolve below).
"""
import json
import os
import posixpath
import re
import shutil
import time

from .. import common as C
from .. import capyrun as R

RULE = ("random trees: <= 6 local .capy files in <= 3 directories of the working directory + a generated module directory "
        "(<= 5 module files; layouts: siblings, module dir inside cwd, cwd inside module dir) with <= 5 imports per file; "
        "60% of the trees have only valid imports, 40% contain exactly one invalid import (28 invalid kinds) in a reachable file; "
        "a handful of pinned hand-made trees run in every tier. evaluation = one tree compiled (and, if accepted, linked and run) "
        "and judged; non-trivial = the tree has >= 1 import edge resolved by the model; distinct = distinct signatures "
        "(layout, set of import features among: dotdot, dot, cycle, self, double spelling, #mod, #import into the module dir, "
        "module file importing back into cwd, importer outside the cwd root, spelling that names a different existing file when "
        "read relative to cwd, path leaving cwd and coming back; invalid kind)")
ASSUME = ["'compiled once' is observed through the `=== <absolute file> ===` header which the CLI prints once per SourceFile::parse call "
          "when run with `--verbose-hir all` (crates/capy/src/source.rs); one header per file = parsed/lowered once",
          "path cleaning is lexical (a/../b == b); the generator only routes `..` detours through directories that exist and never "
          "through symlinks, so that lexical and physical resolution agree",
          "module-name rule is read as: every character is an ASCII letter or digit; `#mod(\"\")` is only generated without "
          "<mod-dir>/src/mod.capy (rejected under either reading); absolute import paths are outside the quantifier and not generated",
          "the generated module directory contains `core` as a symlink to /repo/core only so that the CLI does not try to download it; "
          "no generated program imports core",
          "a rejected tree counts as correctly rejected when the CLI exits 1 with exactly the import diagnostic(s) located at the one "
          "invalid import; which of the import diagnostics is used is recorded (counter reject_reason_as_expected) but not judged",
          "file and directory names avoid '.', '-' and local `src` folders (known C27 symbol-name collisions are not C28's subject)"]

EXTERN = "vr_i64 :: (id: i64, v: i64) extern;"
HEADER = re.compile(r"^=== (/.*) ===$", re.M)
IMPORT_LINE = re.compile(r"^\S*::(\w+) :: #import\(\"(.*)\"\);$", re.M)
ERR = re.compile(r"^error(?:\[[A-Z0-9]+\])?: (.*)(?:\n *--> at (.*):(\d+):(\d+))?", re.M)
DIAG_CLASS = [
    ("missing", re.compile(r"couldn't be found")),
    ("noncapy", re.compile(r"must end in `\.capy`")),
    ("outside", re.compile(r"is outside the current working module")),
    ("mod_missing", re.compile(r"module could not be found in|doesn't contain a `mod\.capy` file")),
    ("mod_nonalnum", re.compile(r"modules must be alphanumeric")),
]

INVALID_KINDS = [
    "missing_plain", "missing_dir", "missing_cwdrel", "missing_cwdrel", "missing_isdir",
    "noncapy_txt", "noncapy_noext", "noncapy_upper", "noncapy_suffix", "noncapy_nodot", "noncapy_dotm", "noncapy_dotonly",
    "outside_parent", "outside_prefix", "outside_prefix", "outside_prefix", "outside_detour",
    "mod_nomodfile", "mod_nosrc", "mod_absent", "mod_notinsrc", "mod_empty",
    "mod_dash", "mod_slash", "mod_dotdot", "mod_underscore", "mod_dot", "mod_dotslash", "mod_trailing", "mod_space",
]
KIND_CLASS = {"missing": "missing", "noncapy": "noncapy", "outside": "outside"}


# ------------------------------------------------------------------------------------------------ the model (oracle)

def m_within(p, base):
    """component-wise containment of the cleaned absolute path p in directory base"""
    a, b = p.split("/"), base.split("/")
    return len(a) > len(b) and a[:len(b)] == b


def m_resolve(files, importer, kind, arg, cwd, mod):
    """files: set of absolute paths of regular files. -> (target, None) for a valid import, (None, reason) otherwise."""
    if kind == "mod":
        if not all(ch.isascii() and ch.isalnum() for ch in arg):
            return None, "mod_nonalnum"
        t = posixpath.normpath(mod + "/" + arg + "/src/mod.capy")
        if t not in files:
            return None, "mod_missing"
        return t, None
    if not arg.endswith(".capy"):
        return None, "noncapy"
    t = posixpath.normpath(posixpath.dirname(importer) + "/" + arg)
    if t not in files:
        return None, "missing"
    if not m_within(t, cwd) and not m_within(t, mod):
        return None, "outside"
    return t, None


def model(case, root):
    """everything the oracle expects of a case materialised under `root`"""
    ab = lambda rel: posixpath.normpath(root + "/" + rel)
    cwd, mod = ab(case["cwd"]), ab(case["mod"])
    files = {ab(rel) for rel in case["files"]}
    res = {}       # abs file -> {binding: (target|None, reason|None, import record)}
    for rel, node in case["nodes"].items():
        f = ab(rel)
        res[f] = {}
        for imp in node["imports"]:
            t, why = m_resolve(files, f, imp["kind"], imp["arg"], cwd, mod)
            res[f][imp["name"]] = (t, why, imp)
    entry = ab(case["entry"])
    reach, todo = [entry], [entry]
    while todo:
        f = todo.pop()
        for t, why, _ in res.get(f, {}).values():
            if t is not None and t not in reach:
                reach.append(t)
                todo.append(t)
    invalid = [(f, imp, why) for f in reach for (t, why, imp) in res.get(f, {}).values() if t is None]
    ids = {ab(rel): node["id"] for rel, node in case["nodes"].items()}
    expected = []
    for pr in case["prints"]:
        f = entry
        for name in pr["path"]:
            f = res[f][name][0] if f is not None and name in res.get(f, {}) else None
        expected.append((pr["ev"], ids.get(f)))
    # features of the reachable import edges
    feats = set()
    edges = 0
    spell = {}
    for f in reach:
        for t, why, imp in res.get(f, {}).values():
            if t is None:
                continue
            edges += 1
            arg = imp["arg"]
            if imp["kind"] == "mod":
                feats.add("mod")
            else:
                parts = arg.split("/")
                if ".." in parts:
                    feats.add("dotdot")
                if "." in parts:
                    feats.add("dot")
                if m_within(t, mod) and not m_within(f, mod):
                    feats.add("import_into_moddir")
                d = posixpath.dirname(f)
                spell.setdefault((d, t), set()).add(arg)
                if d != cwd:
                    feats.add("importer_not_in_cwd_root")
                    alt = posixpath.normpath(cwd + "/" + arg)
                    if alt != t and alt in files:
                        feats.add("cwd_relative_names_other_file")
                # does the uncleaned path leave cwd (or the mod dir) on its way?
                cur, left = d, False
                for p in parts:
                    cur = posixpath.normpath(cur + "/" + p)
                    if not (cur == cwd or m_within(cur, cwd) or cur == mod or m_within(cur, mod)):
                        left = True
                if left:
                    feats.add("leaves_and_returns")
            if t == f:
                feats.add("self")
            if m_within(f, mod) and not m_within(t, mod):
                feats.add("mod_file_imports_cwd")
    if any(len(s) > 1 for s in spell.values()):
        feats.add("double_spelling")
    # cycle of length >= 2 among reachable files
    graph = {f: {t for t, _, _ in res.get(f, {}).values() if t is not None and t != f} for f in reach}

    def reaches(a, b, seen):
        for n in graph.get(a, ()):
            if n == b:
                return True
            if n not in seen:
                seen.add(n)
                if reaches(n, b, seen):
                    return True
        return False
    if any(reaches(f, f, set()) for f in reach):
        feats.add("cycle")
    return {"cwd": cwd, "mod": mod, "files": files, "res": res, "entry": entry, "reach": reach, "invalid": invalid,
            "expected": expected, "feats": feats, "edges": edges, "ab": ab}


# ------------------------------------------------------------------------------------------------ tree builder / generator

def rel_to(target, d):
    return posixpath.relpath("/R/" + target, "/R/" + d)


class Tree:
    def __init__(self, layout, cwdname, modname):
        self.layout = layout
        if layout == "sibling":
            self.cwd, self.mod = cwdname, modname
        elif layout == "mod_in_cwd":
            self.cwd, self.mod = cwdname, cwdname + "/" + modname
        else:
            self.mod, self.cwd = modname, modname + "/" + cwdname
        self.nodes = {}      # rel path (from the case root) -> {"id", "imports": [...], "intent": {...}}
        self.dirs = set()    # directories that exist without (necessarily) containing a file
        self.next_id = 1001
        self.entry = None
        self.invalid = None  # (file, binding name, kind)
        self.prints = []

    def add(self, rel):
        rel = posixpath.normpath(rel)
        if rel not in self.nodes:
            self.nodes[rel] = {"id": self.next_id, "imports": []}
            self.next_id += 7
        return rel

    def imp(self, frm, kind, arg, intent):
        n = self.nodes[frm]
        name = f"i{len(n['imports'])}"
        n["imports"].append({"name": name, "kind": kind, "arg": arg, "intent": intent})
        return name

    def all_dirs(self):
        ds = set(self.dirs)
        for rel in self.nodes:
            d = posixpath.dirname(rel)
            while d:
                ds.add(d)
                d = posixpath.dirname(d)
        for d in list(ds):
            while d:
                ds.add(d)
                d = posixpath.dirname(d)
        return ds

    def kids(self, d):
        return sorted(posixpath.basename(x) for x in self.all_dirs() if posixpath.dirname(x) == d and "." not in posixpath.basename(x) and " " not in x)

    def reachable(self):
        reach, todo = [self.entry], [self.entry]
        while todo:
            f = todo.pop()
            for imp in self.nodes[f]["imports"]:
                t = imp["intent"]
                if t is not None and t not in reach:
                    reach.append(t)
                    todo.append(t)
        return reach

    def make_prints(self, depth=3, cap=28):
        out, frontier = [], [([], self.entry)]
        for _ in range(depth):
            nxt = []
            for path, f in frontier:
                for imp in self.nodes[f]["imports"]:
                    if imp["intent"] is None:
                        continue
                    p = path + [imp["name"]]
                    if len(out) < cap:
                        out.append(p)
                        nxt.append((p, imp["intent"]))
            frontier = nxt
        self.prints = [{"ev": k + 1, "path": p} for k, p in enumerate(out)]

    def render(self, rel):
        node = self.nodes[rel]
        lines = []
        if rel == self.entry:
            lines.append(EXTERN)
        lines.append(f"id :: () -> i64 {{ {node['id']} }}")
        for imp in node["imports"]:
            imp["line"] = len(lines) + 1
            d = "mod" if imp["kind"] == "mod" else "import"
            lines.append(f'{imp["name"]} :: #{d}("{imp["arg"]}");')
        if rel == self.entry:
            lines.append("main :: () -> i32 {")
            for pr in self.prints:
                lines.append(f"    vr_i64({pr['ev']}, {'.'.join(pr['path'])}.id());")
            lines.append("    0")
            lines.append("}")
        return "\n".join(lines) + "\n"

    def to_case(self, idx, label):
        files = {rel: self.render(rel) for rel in self.nodes}
        return {"idx": idx, "label": label, "layout": self.layout, "cwd": self.cwd, "mod": self.mod,
                "entry": self.entry, "files": files, "dirs": sorted(self.dirs),
                "nodes": {rel: {"id": n["id"], "imports": n["imports"]} for rel, n in self.nodes.items()},
                "prints": self.prints,
                "invalid": list(self.invalid) if self.invalid else None}


def spell(rng, tree, frm, target, style=None):
    d = posixpath.dirname(frm)
    base = rel_to(target, d)
    style = style or rng.weighted([("plain", 36), ("dot", 12), ("sub", 18), ("up", 18), ("mid", 16)])
    if style == "dot":
        return "./" + base
    if style == "sub":
        kids = tree.kids(d)
        if kids:
            return f"{rng.pick(kids)}/../{base}"
        return base
    if style == "up" and d:
        return f"../{posixpath.basename(d)}/{base}"
    if style == "mid" and "/" in base:
        i = base.index("/")
        return base[:i] + "/." + base[i:]
    return base


def mod_name_of(tree, rel):
    """the m of <mod>/m/src/mod.capy, if rel has that shape with alphanumeric m"""
    pre = tree.mod + "/"
    if rel.startswith(pre):
        parts = rel[len(pre):].split("/")
        if len(parts) == 3 and parts[1] == "src" and parts[2] == "mod.capy" and parts[0].isalnum():
            return parts[0]
    return None


def gen_tree(rng, invalid_kind):
    layout = rng.weighted([("sibling", 64), ("mod_in_cwd", 18), ("cwd_in_mod", 18)])
    t = Tree(layout, rng.pick(["work", "w", "proj"]), rng.pick(["mods", "modules"]))
    cwd, mod = t.cwd, t.mod
    ndirs = rng.weighted([(1, 15), (2, 40), (3, 45)])
    dirs = rng.sample(["", "a", "b", "a/c", "b/a"], ndirs)
    nfiles = rng.range(max(2, ndirs), 6)
    bases = ["p", "q", "r", "e", "main"]
    local, used = [], set()
    for k in range(nfiles):
        d = dirs[k] if k < ndirs else rng.pick(dirs)
        for _ in range(12):
            if used and rng.chance(1, 2):
                b = rng.pick(sorted({x[1] for x in used}))
            else:
                b = rng.pick(bases)
            if (d, b) not in used:
                used.add((d, b))
                local.append(t.add(posixpath.join(cwd, d, b + ".capy")))
                break
    t.entry = rng.pick(local)
    modfiles = []
    if rng.chance(7, 10):
        modfiles.append(t.add(f"{mod}/m1/src/mod.capy"))
        if rng.chance(4, 10):
            modfiles.append(t.add(f"{mod}/m1/src/h.capy"))
        if rng.chance(3, 10):
            modfiles.append(t.add(f"{mod}/m1/src/sub/z.capy"))
    if rng.chance(3, 10):
        modfiles.append(t.add(f"{mod}/loose.capy"))
    if rng.chance(2, 10):
        modfiles.append(t.add(f"{mod}/Ab1/src/mod.capy"))
    t.dirs.update({mod, f"{mod}/m2/src", f"{mod}/m3"})
    # files that exist outside both roots
    outside = [t.add("outside.capy")]
    for x in (cwd, mod):
        if "/" not in x:
            outside.append(t.add(f"{x}2/y.capy"))

    def add_import(f, target):
        if len(t.nodes[f]["imports"]) >= 5:
            return
        m = mod_name_of(t, target)
        if m is not None and rng.chance(1, 2):
            t.imp(f, "mod", m, target)
        else:
            t.imp(f, "import", spell(rng, t, f, target), target)

    for f in local + modfiles:
        if f in modfiles:
            k = rng.weighted([(0, 45), (1, 38), (2, 17)])
        else:
            k = rng.weighted([(0, 18), (1, 34), (2, 30), (3, 18)])
        if f == t.entry:
            k = max(k, 1)
        for _ in range(k):
            r = rng.below(100)
            if r < 9:
                target = f
            elif r < 32 and modfiles:
                target = rng.pick(modfiles)
            else:
                target = rng.pick(local)
            add_import(f, target)
    # pull unreachable local files in
    for f in rng.shuffle(list(local)):
        reach = t.reachable()
        if f not in reach and rng.chance(7, 10):
            add_import(rng.pick(reach), f)
    # the same file under a second spelling
    if rng.chance(4, 10):
        cands = [(f, imp) for f in t.reachable() for imp in t.nodes[f]["imports"] if imp["kind"] == "import" and len(t.nodes[f]["imports"]) < 5]
        if cands:
            f, imp = rng.pick(cands)
            for _ in range(8):
                s = spell(rng, t, f, imp["intent"])
                if s != imp["arg"]:
                    t.imp(f, "import", s, imp["intent"])
                    break

    if invalid_kind:
        reach = [f for f in t.reachable() if len(t.nodes[f]["imports"]) < 6]
        f = rng.pick(reach)
        d = posixpath.dirname(f)
        kind, arg, k = "import", None, invalid_kind
        if k == "missing_cwdrel":
            cands = []
            for g in reach:
                gd = posixpath.dirname(g)
                if gd == cwd:
                    continue
                for lf in local:
                    r = rel_to(lf, cwd)
                    if posixpath.normpath(gd + "/" + r) not in t.nodes:
                        cands.append((g, r))
            if cands:
                f, arg = rng.pick(cands)
            else:
                k = "missing_plain"
        if k == "missing_plain":
            arg = spell(rng, t, f, posixpath.join(d, "nope.capy"))
        elif k == "missing_dir":
            arg = "zz/nope.capy"
        elif k == "missing_isdir":
            t.dirs.add(posixpath.join(d, "dd.capy"))
            arg = "dd.capy"
        elif k.startswith("noncapy"):
            # names that merely END in the letters `capy` (no dot, another extension that ends in capy) are not `.capy` files either
            nm = {"noncapy_txt": "x.txt", "noncapy_noext": "x", "noncapy_upper": "x.CAPY", "noncapy_suffix": "x.capy.bak",
                  "noncapy_nodot": "helpercapy", "noncapy_dotm": "x.mcapy", "noncapy_dotonly": "xcapy.c"}[k]
            ld = posixpath.dirname(rng.pick(local))
            tgt = t.add(posixpath.join(ld, nm))
            arg = spell(rng, t, f, tgt, style=rng.pick(["plain", "dot", "up"]))
        elif k == "outside_parent":
            arg = spell(rng, t, f, "outside.capy", style=rng.pick(["plain", "dot"]))
        elif k == "outside_prefix":
            arg = spell(rng, t, f, rng.pick(outside[1:]), style=rng.pick(["plain", "dot"]))
        elif k == "outside_detour":
            arg = spell(rng, t, f, rng.pick(outside), style=rng.pick(["sub", "up", "mid"]))
        elif k.startswith("mod_"):
            kind = "mod"
            if k == "mod_nomodfile":
                arg = "m2"
            elif k == "mod_nosrc":
                arg = "m3"
            elif k == "mod_absent":
                arg = "m4"
            elif k == "mod_notinsrc":
                t.add(f"{mod}/m5/mod.capy")
                arg = "m5"
            elif k == "mod_empty":
                arg = ""
            elif k in ("mod_dotslash", "mod_trailing"):
                t.add(f"{mod}/m1/src/mod.capy")
                arg = "./m1" if k == "mod_dotslash" else "m1/"
            else:
                arg = {"mod_dash": "a-b", "mod_slash": "a/b", "mod_dotdot": "../x", "mod_underscore": "m_1", "mod_dot": "m.1", "mod_space": "m 1"}[k]
                t.add(posixpath.normpath(f"{mod}/{arg}/src/mod.capy"))
        name = t.imp(f, kind, arg, None)
        t.invalid = (f, name, k)
    t.make_prints(depth=rng.pick([2, 3, 3, 4]))
    return t


def pinned_cases():
    """hand-made trees run in every tier (the three mistakes the design wants this check to see, plus the basics)"""
    out = []

    def base():
        t = Tree("sibling", "work", "mods")
        t.dirs.update({"mods", "mods/m2/src", "mods/m3"})
        return t

    for tgt in ("work2/y.capy", "mods2/y.capy", "outside.capy"):
        t = base()
        e = t.add("work/e.capy")
        t.entry = e
        p = t.add("work/a/p.capy")
        t.add(tgt)
        t.imp(e, "import", "a/p.capy", p)
        n = t.imp(e, "import", "../" + tgt, None)
        t.invalid = (e, n, "outside_prefix" if tgt != "outside.capy" else "outside_parent")
        t.make_prints()
        out.append((t, "pinned_outside_" + tgt.split("/")[0]))

    t = base()   # importer-relative, not cwd-relative
    e, p, aq, q = t.add("work/e.capy"), t.add("work/a/p.capy"), t.add("work/a/q.capy"), t.add("work/q.capy")
    t.entry = e
    t.imp(e, "import", "a/p.capy", p)
    t.imp(e, "import", "q.capy", q)
    t.imp(p, "import", "q.capy", aq)
    t.imp(p, "import", "../q.capy", q)
    t.make_prints()
    out.append((t, "pinned_importer_relative"))

    t = base()   # accepted only when read relative to cwd
    e, p, r = t.add("work/e.capy"), t.add("work/a/p.capy"), t.add("work/b/r.capy")
    t.entry = e
    t.imp(e, "import", "a/p.capy", p)
    t.imp(e, "import", "b/r.capy", r)
    n = t.imp(p, "import", "b/r.capy", None)
    t.invalid = (p, n, "missing_cwdrel")
    t.make_prints()
    out.append((t, "pinned_cwd_relative_missing"))

    t = base()   # cycle, self-import, three spellings of one file
    e, p, r = t.add("work/e.capy"), t.add("work/a/p.capy"), t.add("work/b/r.capy")
    t.entry = e
    t.imp(e, "import", "a/p.capy", p)
    t.imp(e, "import", "a/../a/p.capy", p)
    t.imp(e, "import", "./a/./p.capy", p)
    t.imp(e, "import", "../work/b/r.capy", r)
    t.imp(e, "import", "e.capy", e)
    t.imp(p, "import", "../e.capy", e)
    t.imp(p, "import", "../b/r.capy", r)
    t.imp(r, "import", "../a/p.capy", p)
    t.imp(r, "import", "r.capy", r)
    t.make_prints()
    out.append((t, "pinned_cycle_self_double"))

    t = base()   # one module file through #mod, through #import, module importing back
    e, p = t.add("work/a/e.capy"), t.add("work/p.capy")
    m, h, loose = t.add("mods/m1/src/mod.capy"), t.add("mods/m1/src/h.capy"), t.add("mods/loose.capy")
    t.entry = e
    t.imp(e, "mod", "m1", m)
    t.imp(e, "import", "../../mods/m1/src/mod.capy", m)
    t.imp(e, "import", "../../mods/loose.capy", loose)
    t.imp(e, "import", "../p.capy", p)
    t.imp(m, "import", "h.capy", h)
    t.imp(m, "import", "../../../work/p.capy", p)
    t.imp(h, "mod", "m1", m)
    t.imp(p, "import", "a/e.capy", e)
    t.make_prints()
    out.append((t, "pinned_module_routes"))

    for arg, extra in (("m2", None), ("m4", None), ("a-b", "mods/a-b/src/mod.capy"), ("../x", "x/src/mod.capy"), ("a/b", "mods/a/b/src/mod.capy")):
        t = base()
        e = t.add("work/e.capy")
        t.entry = e
        m = t.add("mods/m1/src/mod.capy")
        if extra:
            t.add(extra)
        t.imp(e, "mod", "m1", m)
        n = t.imp(e, "mod", arg, None)
        t.invalid = (e, n, "pinned_mod")
        t.make_prints()
        out.append((t, "pinned_mod_" + re.sub(r"\W", "_", arg)))
    return out


def gen_case(seed, idx):
    rng = C.Rng(seed, 28_000_000 + idx)
    invalid_kind = None
    if idx % 5 in (3, 4):
        invalid_kind = INVALID_KINDS[((idx // 5) * 2 + (idx % 5 - 3) + seed * 7) % len(INVALID_KINDS)]
    t = gen_tree(rng, invalid_kind)
    return t.to_case(idx, invalid_kind or "valid")


# ------------------------------------------------------------------------------------------------ execution

def materialise(case, root):
    shutil.rmtree(root, ignore_errors=True)
    os.makedirs(root)
    for d in case["dirs"]:
        os.makedirs(os.path.join(root, d), exist_ok=True)
    R.write_files(root, case["files"])
    os.makedirs(os.path.join(root, case["cwd"]), exist_ok=True)
    os.makedirs(os.path.join(root, case["mod"]), exist_ok=True)
    core = os.path.join(root, case["mod"], "core")
    if not os.path.lexists(core):
        os.symlink(os.path.join(C.REPO, "core"), core)


def execute(case, root, keep=False):
    materialise(case, root)
    cwd = os.path.join(root, case["cwd"])
    entry = posixpath.relpath("/R/" + case["entry"], "/R/" + case["cwd"])
    c = R.compile_capy(cwd, {}, main=entry, mod_dir=os.path.join(root, case["mod"]), cpu_s=10, extra=["--verbose-hir", "all"])
    ran = None
    if c.accepted:
        ran = R.link_and_run(cwd, c.obj)
    if not keep:
        shutil.rmtree(root, ignore_errors=True)
    return c, ran


def classify(msg):
    for k, pat in DIAG_CLASS:
        if pat.search(msg):
            return k
    return None


def judge(case, root, c, ran):
    """-> dict(verdict: 'ok'|'violation'|'inconclusive', violations, inconclusive, feats, counters)"""
    M = model(case, root)
    viol, inconc, cnt = [], [], {}
    wit = {"files": case["files"], "case": case, "command": f"cd {case['cwd']} && capy build {posixpath.relpath('/R/' + case['entry'], '/R/' + case['cwd'])} --mod-dir <root>/{case['mod']} --no-exec --verbose-hir all"}

    def V(key, sig, what, **more):
        w = dict(wit)
        w.update(more)
        w["cli_output"] = c.brief()[:1500]
        viol.append({"key": key, "sig": sig, "what": f"[{case['label']}] {what}", "witness": w})

    def done():
        return {"viol": viol, "inconc": inconc, "feats": M["feats"], "edges": M["edges"], "cnt": cnt,
                "expect": "reject" if M["invalid"] else "accept", "label": case["label"], "layout": case["layout"]}

    rel = lambda p: posixpath.relpath(p, root)
    # generator sanity: the model must resolve every import as the generator intended
    for f, binds in M["res"].items():
        for name, (t, why, imp) in binds.items():
            intent = M["ab"](imp["intent"]) if imp["intent"] is not None else None
            if t != intent:
                inconc.append(f"generator: case {case['idx']} {rel(f)}:{name} {imp['kind']}({imp['arg']!r}) intended {imp['intent']} but the model says {rel(t) if t else why}")
                return done()
    if len(M["invalid"]) > 1 or (bool(M["invalid"]) != bool(case["invalid"])):
        inconc.append(f"generator: case {case['idx']} has {len(M['invalid'])} invalid reachable imports, intended {case['invalid']}")
        return done()
    if c.timed_out:
        inconc.append(f"watchdog on compile of case {case['idx']}")
        return done()
    # ---- the per-file trace (looked at first: it also explains most internal errors)
    headers = HEADER.findall(c.out)
    counts = {}
    for h in headers:
        counts[h] = counts.get(h, 0) + 1
    cnt["headers_seen"] = len(headers)
    twice = sorted(h for h, n in counts.items() if n > 1)
    if twice:
        V("file_compiled_twice", "file_compiled_twice", f"{', '.join(rel(h) for h in twice)} parsed {counts[twice[0]]} times (headers of --verbose-hir all): {[rel(h) for h in headers]}")
    if c.internal_error:
        if M["invalid"]:
            exp = f"expected: rejected because of {rel(M['invalid'][0][0])}: #{M['invalid'][0][1]['kind']}(\"{M['invalid'][0][1]['arg']}\") ({M['invalid'][0][2]})"
        else:
            exp = "expected: accepted"
        tail = [l for l in (c.out + "\n" + c.err).splitlines() if R.PANIC_PAT.search(l)]
        V("internal_error", "internal_error|" + c.panic_sig(), f"internal compiler error on a tree of {len(case['nodes'])} files ({exp}): {' / '.join(tail)[:300] or c.brief()[-300:]}",
          cli_tail=(c.out + "\n" + c.err)[-1500:])
        return done()
    extra = sorted(set(headers) - set(M["reach"]))
    if extra:
        V("unreachable_file_compiled", "unreachable_file_compiled", f"compiled {', '.join(rel(h) for h in extra)}, which no import reachable from the entry file resolves to (expected exactly {[rel(p) for p in M['reach']]})")

    if not M["invalid"]:
        # ---- expected: accepted, every reachable file exactly once, every print = the file's own id
        if not c.accepted:
            V("valid_tree_rejected", "valid_tree_rejected|" + "|".join(sorted({classify(m) or "other" for m in c.diag_kinds()})),
              f"every import of the tree is valid but the CLI answers rc={c.rc}: {'; '.join(c.diag_kinds())[:300]}")
            return done()
        missing = [p for p in M["reach"] if p not in counts]
        if missing:
            V("reachable_file_not_compiled", "reachable_file_not_compiled", f"no header for reachable {', '.join(rel(p) for p in missing)}")
        # resolved paths shown in the dump
        secs = re.split(r"^=== (/.*) ===$", c.out, flags=re.M)
        for k in range(1, len(secs) - 1, 2):
            f, body = secs[k], secs[k + 1]
            for name, shown in IMPORT_LINE.findall(body):
                b = M["res"].get(f, {}).get(name)
                if b and b[0] is not None:
                    cnt["resolved_lines_checked"] = cnt.get("resolved_lines_checked", 0) + 1
                    if shown != b[0]:
                        V("resolved_path_mismatch", "resolved_path_mismatch", f"{rel(f)}: `{name} :: #{b[2]['kind']}(\"{b[2]['arg']}\")` is shown as resolved to {shown}, expected {b[0]}")
        if ran is None or ran.link_failed:
            inconc.append(f"link failed for case {case['idx']}: {(ran.link_err if ran else '')[-300:]}")
            return done()
        if ran.timed_out:
            inconc.append(f"watchdog on run of case {case['idx']}")
            return done()
        log = [(ev, int(v)) for tag, ev, v in R.parse_log(ran.out) if tag == "I"]
        if ran.rc != 0 or ran.sig:
            V("run_failed", "run_failed", f"accepted program ends with rc={ran.rc} sig={ran.sig}: {ran.out[-200:]} {ran.err[-200:]}")
        elif log != M["expected"]:
            bad = next((k for k in range(max(len(log), len(M["expected"]))) if k >= len(log) or k >= len(M["expected"]) or log[k] != M["expected"][k]), 0)
            pr = case["prints"][bad] if bad < len(case["prints"]) else None
            V("wrong_definition", "wrong_definition",
              f"`{'.'.join(pr['path']) if pr else '?'}.id()` printed {log[bad] if bad < len(log) else None}, expected {M['expected'][bad] if bad < len(M['expected']) else None} (event, id)",
              program_output=ran.out[:1500], expected=M["expected"])
        cnt["prints_checked"] = len(M["expected"])
        cnt["accepted_ok"] = 0 if viol else 1
        return done()

    # ---- expected: rejected with an import diagnostic at the invalid import
    f_bad, imp_bad, why = M["invalid"][0]
    if c.accepted:
        V("invalid_import_accepted", "invalid_import_accepted|" + why,
          f"{rel(f_bad)}: `#{imp_bad['kind']}(\"{imp_bad['arg']}\")` must be rejected ({why}) but the tree is accepted")
        return done()
    errs = [(m.group(1), m.group(2), int(m.group(3)) if m.group(3) else None) for m in ERR.finditer(c.out)]
    if c.rc != 1 or not errs:
        V("rejected_without_diagnostic", "rejected_without_diagnostic", f"rc={c.rc} and no error diagnostic for invalid `#{imp_bad['kind']}(\"{imp_bad['arg']}\")`")
        return done()
    other = [e for e in errs if classify(e[0]) is None]
    if other:
        inconc.append(f"generator: case {case['idx']} rejected with a diagnostic that is not about imports: {other[0][0][:200]}")
        return done()
    if any(e[1] is None for e in errs):
        inconc.append(f"case {case['idx']}: import diagnostic without a parsable location: {[e[0] for e in errs if e[1] is None][0][:200]}")
        return done()
    here, elsewhere = [], []
    for msg, loc, line in errs:
        at = posixpath.normpath(M["cwd"] + "/" + loc) if loc else None
        (here if (at == f_bad and line == imp_bad.get("line")) else elsewhere).append((msg, loc, line))
    if elsewhere:
        V("valid_import_rejected", "valid_import_rejected|" + (classify(elsewhere[0][0]) or "?"),
          f"import diagnostic at {elsewhere[0][1]}:{elsewhere[0][2]} ({elsewhere[0][0][:160]}) although the only invalid import is {rel(f_bad)}:{imp_bad.get('line')}")
    elif len(here) != 1:
        V("diagnostic_repeated", "diagnostic_repeated", f"{len(here)} diagnostics for the one invalid import at {rel(f_bad)}:{imp_bad.get('line')}")
    else:
        cnt["rejected_ok"] = 0 if viol else 1
        if classify(here[0][0]) == why:
            cnt["reject_reason_as_expected"] = 1
        else:
            cnt["reject_reason_differs"] = 1
            cnt["_reason_note"] = f"{case['label']}: expected {why}, diagnostic `{here[0][0][:120]}`"
    return done()


def run_cases(cases, work):
    def job(case):
        root = os.path.join(work, f"t{case['idx']}")
        try:
            c, ran = execute(case, root)
            return case, judge(case, root, c, ran), c, ran
        except C.Inconclusive as e:
            return case, {"viol": [], "inconc": [f"infrastructure: {e}"], "feats": set(), "edges": 0, "cnt": {}, "expect": "?", "label": case["label"], "layout": case["layout"]}, None, None
    return C.pmap(job, cases)


def run(tier, seed):
    t0 = time.time()
    C.build_cli()
    C.build_rt()
    work = C.fresh_dir("C28")
    n_random = 120 if tier == "quick" else 5000
    cases = []
    for k, (t, label) in enumerate(pinned_cases()):
        cases.append(t.to_case(900000 + k, label))
    cases += [gen_case(seed, i) for i in range(n_random)]
    results = run_cases(cases, work)

    viol, inconc, sigs, samples, notes = [], [], set(), [], set()
    counters = {"trees": 0, "expected_accept": 0, "expected_reject": 0, "accepted_ok": 0, "rejected_ok": 0, "prints_checked": 0,
                "headers_seen": 0, "resolved_lines_checked": 0, "reject_reason_as_expected": 0, "reject_reason_differs": 0}
    evals = 0
    seen_sig = set()
    for case, j, c, ran in results:
        counters["trees"] += 1
        if j["inconc"]:
            inconc += j["inconc"]
            continue
        evals += 1
        counters["expected_" + j["expect"]] = counters.get("expected_" + j["expect"], 0) + 1
        for k, v in j["cnt"].items():
            if k.startswith("_"):
                notes.add(v)
            else:
                counters[k] = counters.get(k, 0) + v
        counters["kind:" + re.sub(r"^pinned_.*", "pinned", j["label"])] = counters.get("kind:" + re.sub(r"^pinned_.*", "pinned", j["label"]), 0) + 1
        counters["layout:" + j["layout"]] = counters.get("layout:" + j["layout"], 0) + 1
        for f in j["feats"]:
            counters["feat:" + f] = counters.get("feat:" + f, 0) + 1
        for v in j["viol"]:
            if (v["key"], v["sig"]) in seen_sig and len(viol) >= 12:
                continue
            seen_sig.add((v["key"], v["sig"]))
            viol.append(v)
        if j["edges"] > 0:
            sigs.add((j["layout"], tuple(sorted(j["feats"])), j["label"] if j["expect"] == "reject" else "valid"))
        if len(samples) < 6 and j["edges"] >= 3 and not j["viol"] and (len(samples) % 2 == (0 if j["expect"] == "accept" else 1)):
            s = {"label": j["label"], "layout": j["layout"], "features": sorted(j["feats"]), "entry": case["entry"],
                 "imports": {rel: [f'{i["name"]} :: #{i["kind"]}("{i["arg"]}")' for i in n["imports"]] for rel, n in case["nodes"].items() if n["imports"]},
                 "cli": "accepted" if c.accepted else "; ".join(c.diag_kinds())[:200]}
            if ran is not None:
                s["output"] = ran.out.split("\n")[:6]
            samples.append(s)
    report = {"evaluations": evals, "distinct_nontrivial": len(sigs), "violations": viol, "samples": samples,
              "counters": counters, "notes": sorted(notes)[:10], "exhaustive": False}
    return C.finish("C28", tier, seed, t0, "exploration", report, ASSUME, RULE, min_evals=100 if tier == "quick" else 2000, inconclusive=inconc)


def replay(path):
    w = json.load(open(os.path.join(path, "witness.json")))
    case = (w.get("witness") or {}).get("case")
    if not case:
        print(json.dumps(w, indent=1)[:3000])
        return run("quick", 0)
    C.build_cli()
    C.build_rt()
    work = C.fresh_dir("C28", "replay")
    root = os.path.join(work, "t")
    c, ran = execute(case, root, keep=True)
    j = judge(case, root, c, ran)
    print(f"--- tree under {root} (cwd {case['cwd']}, mod dir {case['mod']}, entry {case['entry']}); accepted={c.accepted} rejected={c.rejected} internal_error={c.internal_error}")
    print(c.brief()[:2000])
    if ran is not None:
        print("--- program output\n" + ran.out[:1000])
    for s in j["inconc"]:
        print("INCONCLUSIVE:", s)
    for v in j["viol"]:
        print(f"  {v['key']}: {v['what'][:600]}")
    if j["viol"]:
        print(f"VIOLATION property=C28 replay={path}")
        return 1
    print("no violation on replay")
    return 2 if j["inconc"] else 0
