"""C27 — distinct entities get distinct symbols (probe c27 via hook H1)."""
import os
import time

from .. import common as C

RULE = ("entity descriptors: all file paths of <= 3 components over 14 directory and 8 file names (digits, letters, dots, dashes, 'src', "
        "'x.capy'), under the working directory and under the module directory, x {global, lambda}; all combinations of 10 global names, "
        "13 lambda / generic / comptime ids (0..999) and the data suffixes on 3 paths; random descriptors beyond; oracle = a map from symbol "
        "back to descriptor never sees two descriptors, and no symbol equals main/_CI*/.str_*/.i128_*; "
        "non-trivial = descriptor with a folder, generic id or comptime id; distinct = distinct symbols")
ASSUME = ["a descriptor denotes a realisable entity: one lambda index / comptime index per file, generic id = start of its ComptimeArgs range",
          "collisions are classified by the path normalisation that explains them; only the classes listed in known_findings.json are tolerated"]


def run(tier, seed):
    t0 = time.time()
    C.build_probe()
    cwd = C.fresh_dir("C27", "cwd")
    mods = os.path.join(C.WORK, "C27", "mods")
    rep = C.run_probe("c27", tier, seed, extra=["--moddir", mods], cwd=cwd)
    return C.finish("C27", tier, seed, t0, "exploration", rep, ASSUME, RULE, min_evals=100000)


def replay(path):
    print(open(os.path.join(path, "witness.json")).read()[:3000])
    return run("quick", 0)
