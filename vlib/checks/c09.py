"""C09 — literals denote exactly their written values or are rejected.

Pass 1 (acceptance): programs with one literal use per line are compiled; the CLI reports every offending line,
so the accept/reject decision of each literal is observed individually (diagnostic line numbers).
Pass 2 (values): the same programs restricted to the accepted lines are built and run; every value is printed as
raw bytes or through a widening cast and compared with the value the literal spells.
"""
import json
import os
import re
import struct
import time

from .. import common as C
from .. import capyrun as R

RULE = ("integer literals: values {0, 1, MAX-1, MAX, MAX+1 of every width, 2^31, 2^32, 2^63, 2^64-1} x spellings {decimal, with '_', exponent form, hex, binary} "
        "x contexts {annotated local/global/argument/array element at each of the 12 integer types, unannotated local, literal operands of comparison/arithmetic}; "
        "char literals: every printable ASCII letter as an escape and as a plain char, empty / multi-char / non-ASCII chars; string literals with all escapes; "
        "float literals: shortest round-trip decimals of random f32/f64 bit patterns (+ exponent spellings); "
        "non-trivial = literal at or next to a type boundary, an escape, or a float; distinct = distinct (value class, spelling, context, type) tuples")
ASSUME = ["an unknown escape sequence, an empty/multi-character/non-u8 char literal must be rejected (never silently given a value)",
          "decimal strings sitting on an f32 rounding tie (double rounding through f64) are not generated",
          "a literal without annotation may be rejected by the defaulting rules (that is a rejection, not a wrong value)"]

INT_TYPES = [("i8", 8, True), ("i16", 16, True), ("i32", 32, True), ("i64", 64, True), ("i128", 128, True), ("isize", 64, True),
             ("u8", 8, False), ("u16", 16, False), ("u32", 32, False), ("u64", 64, False), ("u128", 128, False), ("usize", 64, False)]
KNOWN_ESC = {"0": 0, "a": 7, "b": 8, "n": 10, "f": 12, "r": 13, "t": 9, "v": 11, "e": 27, '"': 34, "'": 39, "\\": 92}


def int_values():
    vs = {0, 1, 2 ** 31, 2 ** 32, 2 ** 63, 2 ** 64 - 1, 1000, 255000, 12 * 10 ** 9}
    for w in (8, 16, 32, 64):
        for mx in ((1 << (w - 1)) - 1, (1 << w) - 1):
            vs |= {mx - 1, mx, mx + 1}
    return sorted(v for v in vs if v < 2 ** 64)


def spellings(v):
    out = [("dec", str(v))]
    s = str(v)
    if len(s) > 3:
        parts = []
        while s:
            parts.insert(0, s[-3:])
            s = s[:-3]
        out.append(("underscore", "_".join(parts)))
    if v > 0 and v % 10 == 0:
        e = 0
        m = v
        while m % 10 == 0:
            m //= 10
            e += 1
        out.append(("exp", f"{m}e{e}"))
        out.append(("Exp", f"{m}E{e}"))
    out.append(("hex", hex(v)))
    if v < 2 ** 17 or v in (2 ** 31, 2 ** 32 - 1, 2 ** 63, 2 ** 64 - 1):
        out.append(("bin", bin(v)))
    return out


def fits(v, w, signed):
    return v <= ((1 << (w - 1)) - 1 if signed else (1 << w) - 1)


def le(v, size):
    return (v & ((1 << (8 * size)) - 1)).to_bytes(size, "little").hex()


class Case:
    __slots__ = ("cid", "kind", "line_text", "helpers", "expect_accept", "expected", "desc", "sig")

    def __init__(self, cid, kind, line_text, expect_accept, expected, desc, sig, helpers=()):
        self.cid, self.kind, self.line_text, self.expect_accept, self.expected, self.desc, self.sig = cid, kind, line_text, expect_accept, expected, desc, sig
        self.helpers = helpers   # top-level declarations the line needs


def shortest_f32(x):
    for p in range(1, 18):
        s = "%.*g" % (p, x)
        if struct.unpack("<f", struct.pack("<f", float(s)))[0] == x:
            return s
    return repr(x)


def dec_float_lit(s):
    """capy float literals need a digit on both sides of the point; exponents are allowed by the lexer"""
    if "e" in s or "E" in s:
        m, e = re.split("[eE]", s)
        if "." not in m:
            m += ".0"
        return f"{m}e{int(e)}"
    if "." not in s:
        s += ".0"
    return s


def make_cases(tier, seed):
    rng = C.Rng(seed, 9)
    cases = []
    cid = [0]

    def add(kind, line, accept, expected, desc, sig, helpers=()):
        cid[0] += 1
        cases.append(Case(cid[0], kind, line.replace("$ID", str(cid[0])).replace("$N", f"v{cid[0]}"), accept, expected, desc, sig, tuple(h.replace("$N", f"v{cid[0]}") for h in helpers)))

    vals = int_values()
    # A. annotated at every integer type, several contexts
    for ty, w, signed in INT_TYPES:
        size = w // 8
        for v in vals:
            ok = fits(v, w, signed)
            near = any(abs(v - m) <= 1 for m in ((1 << (w - 1)) - 1, (1 << w) - 1))
            for sp_name, sp in spellings(v):
                if tier == "quick" and sp_name not in ("dec", "hex") and not near:
                    continue
                exp = le(v, size) if ok else None
                add("local", f"$N : {ty} = {sp}; vr_bytes($ID, ^$N, {size});", ok, exp, f"{sp} as {ty} (annotated local)", ("local", ty, sp_name, "fits" if ok else "too_big", near))
                if sp_name == "dec" and (near or tier == "thorough"):
                    add("global", f"$Nl := $N; vr_bytes($ID, ^$Nl, {size});", ok, exp, f"{sp} as {ty} (annotated global)", ("global", ty, ok, near), helpers=(f"$N : {ty} : {sp};",))
                    add("argument", f"$Nr := id_{ty}({sp}); vr_bytes($ID, ^$Nr, {size});", ok, exp, f"{sp} as {ty} (argument)", ("argument", ty, ok, near))
                    add("array_elem", f"$Na := {ty}.[{sp}]; $Ne := $Na[0]; vr_bytes($ID, ^$Ne, {size});", ok, exp, f"{sp} as {ty} (array element)", ("array_elem", ty, ok, near))
                    add("assign", f"$N : {ty} = 0; $N = {sp}; vr_bytes($ID, ^$N, {size});", ok, exp, f"{sp} as {ty} (assignment)", ("assign", ty, ok, near))
    # B. unannotated literals: acceptance is up to the defaulting rules; an accepted one must keep its value
    for v in vals:
        for sp_name, sp in spellings(v):
            if tier == "quick" and sp_name not in ("dec", "underscore"):
                continue
            add("weak_local", f"$N := {sp}; vr_u64($ID, u64.($N));", None, v, f"{sp} unannotated local, widened to u64", ("weak_local", sp_name, v.bit_length()))
            if v >= 8:
                add("weak_cmp", f"vr_bool($ID, {sp} > 5);", None, 1, f"{sp} > 5 (both untyped)", ("weak_cmp", sp_name, v.bit_length()))
                add("weak_div", f"vr_u64($ID, u64.({sp} / 2));", None, v // 2, f"{sp} / 2 (both untyped)", ("weak_div", sp_name, v.bit_length()))
                add("weak_local_cmp", f"$N := {sp}; vr_bool($ID, $N > 5);", None, 1, f"x := {sp}; x > 5", ("weak_local_cmp", sp_name, v.bit_length()))
            if v < 2 ** 64 - 1:
                add("weak_add", f"vr_u64($ID, u64.({sp} + 1));", None, v + 1, f"{sp} + 1 (both untyped)", ("weak_add", sp_name, v.bit_length()))
            add("mixed_u64", f"$Nm : u64 = 1; vr_u64($ID, $Nm * {sp});", None, v, f"u64 var * {sp}", ("mixed_u64", sp_name, v.bit_length()))
            if v < 2 ** 63:
                add("mixed_i64", f"$Nm : i64 = 1; vr_i64($ID, $Nm * {sp});", None, v, f"i64 var * {sp}", ("mixed_i64", sp_name, v.bit_length()))
            add("weak_global", f"vr_u64($ID, u64.($N));", None, v, f"G :: {sp}; (unannotated global)", ("weak_global", sp_name, v.bit_length()), helpers=(f"$N :: {sp};",))
    # B2. untyped literals inside anonymous aggregates
    for v in (7, 2 ** 31, 3 * 10 ** 9, 2 ** 32, 5 * 10 ** 9, 2 ** 63):
        add("weak_array", f"$N := .[{v}, 1]; vr_u64($ID, u64.($N[0]));", None, v, f".[{v}, 1][0]", ("weak_array", 0, v.bit_length()))
        add("weak_array", f"$N := .[{v}, 1]; vr_u64($ID, u64.($N[1]));", None, 1, f".[{v}, 1][1]", ("weak_array", 1, v.bit_length()))
        add("weak_array", f"$N := .[1, {v}]; vr_u64($ID, u64.($N[1]));", None, v, f".[1, {v}][1]", ("weak_array", 2, v.bit_length()))
        add("weak_struct", f"$N := .{{ a = {v}, b = 1 }}; vr_u64($ID, u64.($N.a) + u64.($N.b));", None, v + 1, f".{{ a = {v}, b = 1 }}", ("weak_struct", v.bit_length()))
    # C. char literals
    for code in range(32, 127):
        ch = chr(code)
        if ch in KNOWN_ESC:
            add("char_escape", f"$N : char = '\\{ch}'; vr_bytes($ID, ^$N, 1);", True, le(KNOWN_ESC[ch], 1), f"'\\{ch}'", ("char_escape", "known", ch))
        else:
            add("char_escape", f"$N : char = '\\{ch}'; vr_bytes($ID, ^$N, 1);", False, None, f"'\\{ch}' (unknown escape)", ("char_escape", "unknown", ch))
        if ch not in ("'", "\\"):
            add("char_plain", f"$N : char = '{ch}'; vr_bytes($ID, ^$N, 1);", True, le(code, 1), f"'{ch}'", ("char_plain", ch))
    add("char_empty", "$N : char = ''; vr_bytes($ID, ^$N, 1);", False, None, "'' (empty char literal)", ("char_bad", "empty"))
    add("char_multi", "$N : char = 'ab'; vr_bytes($ID, ^$N, 1);", False, None, "'ab' (two characters)", ("char_bad", "multi"))
    add("char_multi_esc", "$N : char = '\\n\\n'; vr_bytes($ID, ^$N, 1);", False, None, "'\\n\\n' (two escapes)", ("char_bad", "multi_escape"))
    add("char_latin1", "$N : char = 'é'; vr_bytes($ID, ^$N, 1);", None, "e9", "'é' (code point 233 fits a u8 char; may also be rejected)", ("char_bad", "latin1"))
    add("char_non_u8", "$N : char = 'Ā'; vr_bytes($ID, ^$N, 1);", False, None, "'Ā' (code point 256 does not fit a u8 char)", ("char_bad", "non_u8"))
    add("char_non_bmp", "$N : char = '😀'; vr_bytes($ID, ^$N, 1);", False, None, "emoji char literal", ("char_bad", "non_bmp"))
    # D. string literals with escapes
    strs = ["plain", "a\\tb", "line\\n", "q\\\"q", "back\\\\slash", "\\0mid", "\\e[0m", "\\a\\b\\f\\v\\r", "it\\'s", "é✓", ""]
    for s in strs:
        raw = bytearray()
        i = 0
        while i < len(s):
            if s[i] == "\\":
                raw.append(KNOWN_ESC[s[i + 1]])
                i += 2
            else:
                raw.extend(s[i].encode("utf-8"))
                i += 1
        n = len(raw)
        if n:
            add("string", f"$N := \"{s}\"; vr_bytes($ID, rawptr.($N), {n + 1});", True, bytes(raw).hex() + "00", f"\"{s}\"", ("string", s))
    for bad in ("\\q", "\\x41", "\\u0041", "\\ "):
        add("string_bad_escape", f"$N := \"a{bad}b\"; vr_bytes($ID, rawptr.($N), 2);", False, None, f"\"a{bad}b\" (unknown escape)", ("string_bad", bad))
    # E. float literals
    n_f = 150 if tier == "quick" else 1500
    for k in range(n_f):
        bits = rng.below(1 << 32)
        x = struct.unpack("<f", struct.pack("<I", bits))[0]
        if x != x or x in (float("inf"), float("-inf")) or abs(x) < 1e-37:
            continue
        lit = dec_float_lit(shortest_f32(abs(x)))
        add("f32", f"$N : f32 = {lit}; vr_bytes($ID, ^$N, 4);", True, struct.pack("<f", abs(x)).hex(), f"{lit} as f32", ("f32", k % 40))
        bits = rng.below(1 << 64)
        y = struct.unpack("<d", struct.pack("<Q", bits))[0]
        if y != y or y in (float("inf"), float("-inf")) or abs(y) < 1e-300:
            continue
        lit = dec_float_lit(repr(abs(y)))
        add("f64", f"$N : f64 = {lit}; vr_bytes($ID, ^$N, 8);", True, struct.pack("<d", abs(y)).hex(), f"{lit} as f64", ("f64", k % 40))
    for lit, val in (("0.5", 0.5), ("1_000.25", 1000.25), ("2.5e3", 2500.0), ("2.5E-3", 0.0025), ("16777217.0", 16777217.0), ("0.1", 0.1), ("123456789.125", 123456789.125)):
        add("f64", f"$N : f64 = {lit}; vr_bytes($ID, ^$N, 8);", True, struct.pack("<d", val).hex(), f"{lit} as f64", ("f64_form", lit))
        add("f32", f"$N : f32 = {lit}; vr_bytes($ID, ^$N, 4);", True, struct.pack("<f", val).hex(), f"{lit} as f32", ("f32_form", lit))
    # G. a literal next to an untyped NEGATIVE operand, the whole expression used at a signed type: the literal is still used at that
    #    type, so MAX+1 must be rejected and MAX keeps its value (python's floor division differs from truncation for negatives: use exact values)
    for ty, w, signed in INT_TYPES:
        if not signed or w > 64:
            continue
        mx = (1 << (w - 1)) - 1
        for v in (mx, mx + 1):
            ok = v <= mx
            size = w // 8
            for opname, op, res in (("div", "/", -(v // 2)), ("add", "+", v - 2), ("mul", "*", -2 * v)):
                if opname == "mul" and ok:
                    continue        # MAX * -2 overflows: wrapping is C08's subject
                exp = le(res & ((1 << w) - 1), size) if ok else None
                add("lit_with_weak_negative", f"$Nd := -2; $N : {ty} = {v} {op} $Nd; vr_bytes($ID, ^$N, {size});", ok, exp,
                    f"d := -2; x : {ty} = {v} {op} d", ("lit_with_weak_negative", ty, opname, "fits" if ok else "too_big"))
                add("lit_with_weak_negative", f"$N : {ty} = {v} {op} -2; vr_bytes($ID, ^$N, {size});", ok, exp,
                    f"x : {ty} = {v} {op} -2", ("lit_with_negated_literal", ty, opname, "fits" if ok else "too_big"))
    # F. integer literals written where a float is expected: the value they spell, rounded to the nearest float
    #    (whether such a use is accepted is not constrained by the statement - capy rejects big ones in globals -, an accepted one must keep its value)
    from .c08 import int_to_float
    for v in (0, 1, 7, 2 ** 24 - 1, 2 ** 24 + 1, 2 ** 31, 2 ** 32 + 5, 2 ** 53 + 1, 2 ** 62, 2 ** 63 - 1, 2 ** 63, 2 ** 63 + 2049, 2 ** 64 - 1):
        for fty, fw, size, fmt in (("f32", 32, 4, "<f"), ("f64", 64, 8, "<d")):
            exp = struct.pack(fmt, int_to_float(v, fw)).hex()
            bucket = v.bit_length()
            add("int_as_float", f"$N : {fty} = {v}; vr_bytes($ID, ^$N, {size});", None, exp, f"{v} as {fty} (annotated local)", ("int_as_float", "local", fty, bucket))
            add("int_as_float", f"$N := {fty}.({v}); vr_bytes($ID, ^$N, {size});", None, exp, f"{fty}.({v}) (cast of the literal)", ("int_as_float", "cast", fty, bucket))
            add("int_as_float", f"$Nl := $N; vr_bytes($ID, ^$Nl, {size});", None, exp, f"{v} as {fty} (annotated global)", ("int_as_float", "global", fty, bucket), helpers=(f"$N : {fty} : {v};",))
            add("int_as_float", f"$Na := {fty}.[{v}]; $Ne := $Na[0]; vr_bytes($ID, ^$Ne, {size});", None, exp, f"{v} as {fty} (array element)", ("int_as_float", "array_elem", fty, bucket))
    return cases


def render(cases):
    """one case per line inside small functions; returns (text, line -> case)"""
    lines = R.PRELUDE.rstrip("\n").split("\n")
    for ty, _, _ in INT_TYPES:
        lines.append(f"id_{ty} :: (a: {ty}) -> {ty} {{ a }}")
    line_of = {}
    parts = []
    for c in cases:
        for h in c.helpers:
            lines.append(h)
            line_of[len(lines)] = c
    for off in range(0, len(cases), 100):
        name = f"part{off // 100}"
        parts.append(name)
        lines.append(f"{name} :: () {{")
        for c in cases[off:off + 100]:
            lines.append("    { " + c.line_text + " }")
            line_of[len(lines)] = c
        lines.append("}")
    lines.append("main :: () -> i32 {")
    for p in parts:
        lines.append(f"    {p}();")
    lines.append("    0")
    lines.append("}")
    return "\n".join(lines) + "\n", line_of


ERR_AT = re.compile(r"--> at main\.capy:(\d+):(\d+)")


def run_group(job):
    name, cases, work = job
    text, line_of = render(cases)
    d = os.path.join(work, name)
    c1 = R.compile_capy(os.path.join(d, "p1"), {"main.capy": text}, cpu_s=60)
    if c1.timed_out:
        return name, "inconclusive", "watchdog", None
    if c1.internal_error:
        return name, "internal_error", (c1, text), None
    rejected = set()
    unattributed = []
    if not c1.accepted:
        for m in ERR_AT.finditer(c1.out):
            ln = int(m.group(1))
            cs = line_of.get(ln)
            if cs is None:
                unattributed.append(ln)
            else:
                rejected.add(cs.cid)
        if not rejected and not unattributed:
            return name, "inconclusive", "rejected without attributable diagnostics: " + c1.brief()[:300], None
    if unattributed:
        return name, "inconclusive", f"diagnostics on lines without a case: {unattributed[:5]} {c1.brief()[:300]}", None
    accepted = [c for c in cases if c.cid not in rejected]
    got = {}
    text2 = None
    if accepted:
        text2, _ = render(accepted)
        c2 = R.compile_capy(os.path.join(d, "p2"), {"main.capy": text2}, cpu_s=60)
        if c2.internal_error:
            return name, "internal_error", (c2, text2), None
        if not c2.accepted:
            return name, "inconclusive", "second pass rejected although the lines were individually accepted: " + c2.brief()[:300], None
        r = R.link_and_run(os.path.join(d, "p2"), c2.obj, cpu_s=20)
        if r.link_failed or r.timed_out:
            return name, "inconclusive", "link/run failed", None
        if r.rc != 0:
            return name, "crash", (r.rc, r.sig, text2), None
        for tag, i, val in R.parse_log(r.out):
            got[i] = (tag, val.strip())
    return name, "ok", (rejected, got, text), None


def run(tier, seed):
    t0 = time.time()
    C.build_cli()
    C.build_rt()
    work = C.fresh_dir("C09")
    cases = make_cases(tier, seed)
    by_kind = {}
    for c in cases:
        by_kind.setdefault(c.kind, []).append(c)
    jobs = []
    for kind, lst in sorted(by_kind.items()):
        for off in range(0, len(lst), 400):
            jobs.append((f"{kind}_{off // 400}", lst[off:off + 400], work))
    results = C.pmap(run_group, jobs)
    viol, inconc, samples, sigs = [], [], [], set()
    evals = 0
    classes = {}
    by_name = {j[0]: j[1] for j in jobs}
    for name, status, info, _ in results:
        if status == "inconclusive":
            inconc.append(f"{name}: {info}")
            continue
        if status == "internal_error":
            c, text = info
            viol.append({"key": "internal_error", "sig": "internal_error|" + c.panic_sig(), "what": f"literal group {name}: internal compiler error: {c.brief()[:300]}", "witness": {"files": {"main.capy": text}}})
            continue
        if status == "crash":
            rc, sig, text = info
            viol.append({"key": "crash", "sig": f"crash|{name}", "what": f"literal group {name}: program exited rc={rc} sig={sig}", "witness": {"files": {"main.capy": text}}})
            continue
        rejected, got, text = info
        for c in by_name[name]:
            evals += 1
            sigs.add(c.sig)
            was_rejected = c.cid in rejected
            problem = None
            if c.expect_accept is True and was_rejected:
                problem = ("rejected_fitting", "is rejected although its value fits")
            elif c.expect_accept is False and not was_rejected:
                seen = got.get(c.cid)
                problem = ("accepted_invalid", f"is accepted (observed value bytes {seen[1] if seen else '?'}) although it must be rejected")
            elif not was_rejected and c.expected is not None:
                seen = got.get(c.cid)
                if seen is None:
                    problem = ("no_output", "produced no output")
                else:
                    tag, val = seen
                    want = c.expected
                    if tag == "X":
                        ok = val == want
                    elif tag == "B":
                        ok = int(val) == want
                    else:
                        ok = int(val) == want
                    if not ok:
                        problem = ("wrong_value", f"has the value {val} at run time, expected {want}")
            if problem:
                cls = f"{problem[0]}:{c.kind}:" + (str(c.sig[1]) if c.kind in ("local", "global", "argument", "array_elem", "assign") else "")
                classes.setdefault(cls, []).append((c, problem[1]))
            elif len(samples) < 6 and c.kind in ("weak_cmp", "f32", "char_escape", "local") and evals % 37 == 0:
                samples.append({"case": c.desc, "rejected": was_rejected, "observed": got.get(c.cid, (None, None))[1]})
    for cls, lst in sorted(classes.items()):
        c, why = lst[0]
        viol.append({"key": cls.split(":")[0], "sig": cls, "what": f"{cls}: {len(lst)} literal(s), e.g. `{c.desc}` {why}",
                     "witness": {"examples": [{"literal": x.desc, "line": x.line_text, "problem": w} for x, w in lst[:15]]}})
    rep = {"evaluations": evals, "distinct_nontrivial": len(sigs), "violations": viol, "samples": samples,
           "counters": {"literal_uses": len(cases), "programs": len(jobs), "violation_classes": len(classes)}, "notes": [], "exhaustive": False}
    return C.finish("C09", tier, seed, t0, "exploration", rep, ASSUME, RULE, min_evals=1000, inconclusive=inconc)


def replay(path):
    print(open(os.path.join(path, "witness.json")).read()[:4000])
    return run("quick", 0)
