"""C10 — out-of-range indexing and wrong #unwrap abort before touching memory.

One program holds many access sites; each execution selects one site and one runtime index through the
environment (VR_SEL / VR_ARG read by rt/vr_rt.c), so a fault in one execution does not hide the others.
Monitor: exit status, last text line, event markers before/after the access, and the bytes of the indexed
object *with guard words around it* as they are when the process exits (atexit dump of a watched range).
"""
import json
import os
import time

from .. import common as C
from .. import capyrun as R

RULE = ("access sites = {local array, array in struct, global array, slice, ^array, ^mut array, ^slice, nested arrays (both indices), array of structs} x "
        "{read, write} x element types {u8, i16, i32, i64, struct} x lengths 1..6, each executed with every runtime index in [0, len+4]; unwrap sites = "
        "{enum with/without payload, optional, nullable pointer, error union} x {matching, non-matching variant}; literal indices in and out of range "
        "are compiled separately; non-trivial = an execution whose index is >= len or whose variant does not match, or an in-range write; "
        "distinct = distinct (site kind, element type, length, index class) tuples")
ASSUME = ["the fault message must contain 'index out of bounds' (indexing) or mention #unwrap / variant (unwrap) and the exit status must be 1",
          "struct layouts used to predict the watched bytes: fields in order, natural alignment (checked separately by C17)"]

ELEMS = {"u8": 1, "i16": 2, "i32": 4, "i64": 8}


def le(v, size):
    return (v & ((1 << (8 * size)) - 1)).to_bytes(size, "little").hex()


class Site:
    def __init__(self, sid, kind, text, n_indices, lens, predict, watch_size):
        self.sid, self.kind, self.text = sid, kind, text
        self.lens = lens              # tuple of lengths per index position
        self.predict = predict        # f(idx_tuple) -> (expect_fault, expected_watch_hex or None, expected_value or None)
        self.watch_size = watch_size
        self.n_indices = n_indices


def gen_sites(rng, tier):
    sites = []
    types = []
    sid = [0]

    def new_site(kind, et, n, body, predict, watch_size, lens=None):
        sid[0] += 1
        s = sid[0]
        text = f"site{s} :: (i0: usize, i1: usize) {{\n{body(s)}\n}}"
        sites.append(Site(s, kind, text, 1 if lens is None else len(lens), lens or (n,), predict, watch_size))

    G0, G1 = 0x1111111111111111, 0x2222222222222222
    lens = [1, 2, 3, 5, 6] if tier == "thorough" else [1, 3, 6]
    for et, esz in ELEMS.items():
        for n in lens:
            vals = [(37 * (k + 1) + n) % 120 + 1 for k in range(n)]
            tname = f"W_{et}_{n}"
            types.append(f"{tname} :: struct {{ g0: u64, arr: [{n}]{et}, g1: u64 }};")
            pad = (-(8 + n * esz)) % 8
            size = 8 + n * esz + pad + 8

            def image(vs, esz=esz, n=n, pad=pad):
                return le(G0, 8) + "".join(le(v, esz) for v in vs) + "??" * pad + le(G1, 8)

            init = f"w := {tname}.{{ g0 = {G0}, arr = {et}.[{', '.join(map(str, vals))}], g1 = {G1} }};\n    vr_watch(SID, ^w, {size});"
            newv = 99

            def mk(kind, access_read, access_write, pre="", vals=vals, n=n, esz=esz, image=image, init=init, size=size, et=et):
                # read site
                def body_r(s):
                    return ("    " + init.replace("SID", str(s)) + "\n" + (f"    {pre}\n" if pre else "") +
                            f"    vr_ev({s * 10 + 1});\n    x := {access_read};\n    vr_ev({s * 10 + 2});\n    vr_i64({s * 10 + 3}, i64.(x));\n    vr_bytes({s * 10 + 4}, ^w, {size});")

                def pred_r(idx):
                    i = idx[0]
                    if i >= n:
                        return True, image(vals), None
                    return False, image(vals), vals[i]
                new_site(kind + ":read", et, n, body_r, pred_r, size)

                def body_w(s):
                    return ("    " + init.replace("SID", str(s)) + "\n" + (f"    {pre}\n" if pre else "") +
                            f"    vr_ev({s * 10 + 1});\n    {access_write} = {newv};\n    vr_ev({s * 10 + 2});\n    vr_bytes({s * 10 + 4}, ^w, {size});")

                def pred_w(idx):
                    i = idx[0]
                    if i >= n:
                        return True, image(vals), None
                    nv = list(vals)
                    nv[i] = newv
                    return False, image(nv), None
                new_site(kind + ":write", et, n, body_w, pred_w, size)

            mk("struct_field_array", "w.arr[i0]", "w.arr[i0]")
            if et in ("i32", "u8") or tier == "thorough":
                mk("slice", "s[i0]", "s[i0]", pre=f"s : []{et} = w.arr;")
                mk("ptr_mut_array", "p[i0]", "p[i0]", pre="p := ^mut w.arr;")
                mk("ptr_slice", "ps[i0]", "ps[i0]", pre=f"s : []{et} = w.arr; ps := ^mut s;")
            if et == "i32":
                # immutable pointer: read only
                def body_pr(s, init=init, n=n, size=size):
                    return ("    " + init.replace("SID", str(s)) + "\n    p := ^w.arr;\n" +
                            f"    vr_ev({s * 10 + 1});\n    x := p[i0];\n    vr_ev({s * 10 + 2});\n    vr_i64({s * 10 + 3}, i64.(x));\n    vr_bytes({s * 10 + 4}, ^w, {size});")

                def pred_pr(idx, vals=vals, n=n, image=image):
                    i = idx[0]
                    return (True, image(vals), None) if i >= n else (False, image(vals), vals[i])
                new_site("ptr_array:read", et, n, body_pr, pred_pr, size)
    # plain local array (not inside a struct) and global array: no watch image, value/marker only
    for n in (1, 4):
        vals = [11 * (k + 1) for k in range(n)]

        def body_l(s, n=n, vals=vals):
            return (f"    a := i64.[{', '.join(map(str, vals))}];\n    vr_ev({s * 10 + 1});\n    x := a[i0];\n    vr_ev({s * 10 + 2});\n    vr_i64({s * 10 + 3}, x);")

        def pred_l(idx, n=n, vals=vals):
            i = idx[0]
            return (True, None, None) if i >= n else (False, None, vals[i])
        new_site("local_array:read", "i64", n, body_l, pred_l, 0)
        gname = f"GA{n}"
        types.append(f"{gname} :: i64.[{', '.join(map(str, vals))}];")

        def body_g(s, gname=gname):
            return (f"    vr_ev({s * 10 + 1});\n    x := {gname}[i0];\n    vr_ev({s * 10 + 2});\n    vr_i64({s * 10 + 3}, x);")
        new_site("global_array:read", "i64", n, body_g, pred_l, 0)
    # nested arrays [a][b]i32 inside guards, both indices at run time
    for (a, b) in ((2, 3), (3, 1)) if tier == "quick" else ((2, 3), (3, 1), (1, 4), (4, 2)):
        tname = f"N_{a}_{b}"
        types.append(f"{tname} :: struct {{ g0: u64, m: [{a}][{b}]i32, g1: u64 }};")
        vals = [[(r * 10 + c + 1) for c in range(b)] for r in range(a)]
        pad = (-(8 + a * b * 4)) % 8
        size = 8 + a * b * 4 + pad + 8
        lit = ", ".join("i32.[" + ", ".join(map(str, row)) + "]" for row in vals)

        def image2(vs, pad=pad):
            return le(G0, 8) + "".join(le(v, 4) for row in vs for v in row) + "??" * pad + le(G1, 8)
        init = f"w := {tname}.{{ g0 = {G0}, m = .[{lit}], g1 = {G1} }};\n    vr_watch(SID, ^w, {size});"

        def body_nw(s, init=init, size=size):
            return ("    " + init.replace("SID", str(s)) + f"\n    vr_ev({s * 10 + 1});\n    w.m[i0][i1] = 77;\n    vr_ev({s * 10 + 2});\n    vr_bytes({s * 10 + 4}, ^w, {size});")

        def pred_nw(idx, a=a, b=b, vals=vals, image2=image2):
            i, j = idx
            if i >= a or j >= b:
                return True, image2(vals), None
            nv = [list(r) for r in vals]
            nv[i][j] = 77
            return False, image2(nv), None
        new_site("nested:write", "i32", a * b, body_nw, pred_nw, size, lens=(a, b))

        def body_nr(s, init=init, size=size):
            return ("    " + init.replace("SID", str(s)) + f"\n    vr_ev({s * 10 + 1});\n    x := w.m[i0][i1];\n    vr_ev({s * 10 + 2});\n    vr_i64({s * 10 + 3}, i64.(x));\n    vr_bytes({s * 10 + 4}, ^w, {size});")

        def pred_nr(idx, a=a, b=b, vals=vals, image2=image2):
            i, j = idx
            if i >= a or j >= b:
                return True, image2(vals), None
            return False, image2(vals), vals[i][j]
        new_site("nested:read", "i32", a * b, body_nr, pred_nr, size, lens=(a, b))
    # array of structs: write one field of element i
    for n in (2, 3):
        tname = f"AS_{n}"
        types.append(f"P{n} :: struct {{ a: i32, b: u8 }};")
        types.append(f"{tname} :: struct {{ g0: u64, ps: [{n}]P{n}, g1: u64 }};")
        vals = [(100 + k, 10 + k) for k in range(n)]
        size = 8 + n * 8 + 8
        lit = ", ".join(f"P{n}.{{ a = {x}, b = {y} }}" for x, y in vals)

        def image3(vs):
            return le(G0, 8) + "".join(le(x, 4) + le(y, 1) + "??????" for x, y in vs) + le(G1, 8)
        init = f"w := {tname}.{{ g0 = {G0}, ps = .[{lit}], g1 = {G1} }};\n    vr_watch(SID, ^w, {size});"

        def body_sw(s, init=init, size=size):
            return ("    " + init.replace("SID", str(s)) + f"\n    vr_ev({s * 10 + 1});\n    w.ps[i0].b = 200;\n    vr_ev({s * 10 + 2});\n    vr_bytes({s * 10 + 4}, ^w, {size});")

        def pred_sw(idx, n=n, vals=vals, image3=image3):
            i = idx[0]
            if i >= n:
                return True, image3(vals), None
            nv = list(vals)
            nv[i] = (vals[i][0], 200)
            return False, image3(nv), None
        new_site("array_of_structs:write_field", "struct", n, body_sw, pred_sw, size)
    return types, sites


def gen_unwraps(rng=None, n_random=0):
    """(decls, sites): each site: (sid, kind, text, cases) with cases = list of (arg, expect_fault, expected_value)"""
    decls = ["UE :: enum { A, B: i64, C: struct { x: i64 }, D | 40 };"]
    sites = []
    sid = [5000]
    # random enums whose explicit discriminants are packed into the range the automatic ones use (any order, before or
    # after automatic variants): every variant must keep a tag of its own, so #unwrap(e, Vj) faults iff the value is not Vj
    # fixed shapes first: automatic variants whose natural value and one or two successors are claimed explicitly by later
    # (or earlier) variants, then random ones
    fixed = [[None, 0, 1], [None, 1, 0], [None, None, 1, 2], [2, None, 3, 4], [None, 0, 1, 2], [1, 2, None, 3, None], [None, 1, None, 2, 3]]
    for k in range(len(fixed) + n_random):
        shape = fixed[k] if k < len(fixed) else None
        nv = len(shape) if shape else rng.range(2, 6)
        style = "fixed" if shape else rng.pick(["packed", "packed", "packed_all", "auto"])
        packed = rng.sample(list(range(0, nv + 2)), nv)
        parts, mks = [], []
        for i in range(nv):
            pl = rng.pick([None, "i64", "i64", "u8"])
            disc = ""
            if shape:
                disc = f" | {shape[i]}" if shape[i] is not None else ""
            elif (style == "packed" and rng.chance(1, 2)) or (style == "packed_all" and i > 0):
                disc = f" | {packed[i]}"
            parts.append(f"V{i}" + (f": {pl}" if pl else "") + disc)
            val = 100 * (k + 1) + i
            if pl == "u8":
                val = val % 200
            mks.append((pl, val, f"RE{k}.V{i}" + (f".({val})" if pl else "")))
        decls.append(f"RE{k} :: enum {{ {', '.join(parts)} }};")
        mk = f"    e : RE{k} = {mks[0][2]};\n" + "".join(f"    if sel == {i} {{ e = {mks[i][2]}; }}\n" for i in range(1, nv))
        for j in range(nv):
            pl, val, _ = mks[j]
            sid[0] += 1
            s_ = sid[0]
            show = f"vr_i64({s_ * 10 + 3}, i64.(x));" if pl else f"vr_i64({s_ * 10 + 3}, {val});"
            body = mk + f"    vr_ev({s_ * 10 + 1});\n    x := #unwrap(e, RE{k}.V{j});\n    vr_ev({s_ * 10 + 2});\n    {show}"
            sites.append((s_, "enum_packed_discriminants", f"usite{s_} :: (sel: i64) {{\n{body}\n}}", [(i, i != j, None if i != j else val) for i in range(nv)]))

    def add(kind, body, cases):
        sid[0] += 1
        s = sid[0]
        sites.append((s, kind, f"usite{s} :: (sel: i64) {{\n{body(s)}\n}}", cases))

    mk_e = "    e : UE = UE.A;\n    if sel == 1 { e = UE.B.(41); }\n    if sel == 2 { e = UE.C.{ x = 42 }; }\n    if sel == 3 { e = UE.D; }\n"
    add("enum_payload", lambda s: mk_e + f"    vr_ev({s * 10 + 1});\n    x := #unwrap(e, UE.B);\n    vr_ev({s * 10 + 2});\n    vr_i64({s * 10 + 3}, i64.(x));",
        [(0, True, None), (1, False, 41), (2, True, None), (3, True, None)])
    add("enum_struct_payload", lambda s: mk_e + f"    vr_ev({s * 10 + 1});\n    x := #unwrap(e, UE.C);\n    vr_ev({s * 10 + 2});\n    vr_i64({s * 10 + 3}, x.x);",
        [(0, True, None), (1, True, None), (2, False, 42), (3, True, None)])
    add("enum_no_payload", lambda s: mk_e + f"    vr_ev({s * 10 + 1});\n    x := #unwrap(e, UE.A);\n    vr_ev({s * 10 + 2});\n    vr_i64({s * 10 + 3}, 1);",
        [(0, False, 1), (1, True, None), (3, True, None)])
    add("enum_custom_discriminant", lambda s: mk_e + f"    vr_ev({s * 10 + 1});\n    x := #unwrap(e, UE.D);\n    vr_ev({s * 10 + 2});\n    vr_i64({s * 10 + 3}, 1);",
        [(0, True, None), (2, True, None), (3, False, 1)])
    mk_o = "    o : ?i64 = nil;\n    if sel == 1 { o = 43; }\n"
    add("optional", lambda s: mk_o + f"    vr_ev({s * 10 + 1});\n    x := #unwrap(o);\n    vr_ev({s * 10 + 2});\n    vr_i64({s * 10 + 3}, x);", [(0, True, None), (1, False, 43)])
    add("optional_typed", lambda s: mk_o + f"    vr_ev({s * 10 + 1});\n    x := #unwrap(o, i64);\n    vr_ev({s * 10 + 2});\n    vr_i64({s * 10 + 3}, x);", [(0, True, None), (1, False, 43)])
    mk_p = "    t : i64 = 44;\n    p : ?^i64 = nil;\n    if sel == 1 { p = ^t; }\n"
    add("nullable_pointer", lambda s: mk_p + f"    vr_ev({s * 10 + 1});\n    x := #unwrap(p);\n    vr_ev({s * 10 + 2});\n    vr_i64({s * 10 + 3}, x^);", [(0, True, None), (1, False, 44)])
    decls.append("UErr :: struct { code: i64 };")
    mk_u = "    u : UErr!i64 = 45;\n    if sel == 1 { u = UErr.{ code = 7 }; }\n"
    add("error_union_ok", lambda s: mk_u + f"    vr_ev({s * 10 + 1});\n    x := #unwrap(u, i64);\n    vr_ev({s * 10 + 2});\n    vr_i64({s * 10 + 3}, x);", [(0, False, 45), (1, True, None)])
    add("error_union_err", lambda s: mk_u + f"    vr_ev({s * 10 + 1});\n    x := #unwrap(u, UErr);\n    vr_ev({s * 10 + 2});\n    vr_i64({s * 10 + 3}, x.code);", [(0, True, None), (1, False, 7)])
    return decls, sites


def watch_matches(pattern, got):
    if pattern is None:
        return True
    if got is None or len(got) != len(pattern):
        return False
    return all(p == "?" or p == g for p, g in zip(pattern, got))


def literal_cases():
    out = []
    for n in (1, 3):
        for i in (0, n - 1, n, n + 4):
            out.append((f"lit_arr_{n}_{i}", R.PRELUDE + f"main :: () -> i32 {{\n    a := i64.[{', '.join(['5'] * n)}];\n    x := a[{i}];\n    0\n}}\n", i >= n))
            out.append((f"lit_arr_w_{n}_{i}", R.PRELUDE + f"main :: () -> i32 {{\n    a := i64.[{', '.join(['5'] * n)}];\n    a[{i}] = 1;\n    0\n}}\n", i >= n))
    out.append(("lit_nested_ok", R.PRELUDE + "main :: () -> i32 {\n    m : [2][3]i32;\n    x := m[1][2];\n    0\n}\n", False))
    out.append(("lit_nested_bad_inner", R.PRELUDE + "main :: () -> i32 {\n    m : [2][3]i32;\n    x := m[1][3];\n    0\n}\n", True))
    out.append(("lit_nested_bad_outer", R.PRELUDE + "main :: () -> i32 {\n    m : [2][3]i32;\n    x := m[2][0];\n    0\n}\n", True))
    out.append(("lit_field", R.PRELUDE + "S :: struct { a: [2]u8 };\nmain :: () -> i32 {\n    s := S.{ a = u8.[1, 2] };\n    x := s.a[2];\n    0\n}\n", True))
    return out


def const_index_cases():
    """indices that are compile-time constants but not bare literals. The statement leaves two correct outcomes for an
    out-of-range one: rejected at compile time, or accepted and aborting at run time before the access. In range: must work."""
    forms = [("paren", "({i})"), ("paren2", "(({i}))"), ("const_local", "K"), ("const_global", "GK"), ("cast", "usize.({i})"), ("sum", "{h} + {r}")]
    out = []
    for n in (1, 3):
        for i in (n - 1, n, n + 4):
            for fname, form in forms:
                idx = form.format(i=i, h=i // 2, r=i - i // 2)
                for via in ("arr", "ptr"):
                    for rw in ("r", "w"):
                        acc = "a" if via == "arr" else "p"
                        access = f"x := {acc}[{idx}];\n    vr_i64(3, i64.(x));" if rw == "r" else f"{acc}[{idx}] = 9;\n    vr_i64(3, 9);"
                        text = (R.PRELUDE + f"GK : usize : {i};\nmain :: () -> i32 {{\n    K : usize : {i};\n    g0 : i64 = 111;\n    a := i64.[{', '.join(['5'] * n)}];\n    g1 : i64 = 222;\n"
                                f"    p := ^mut a;\n    vr_ev(1);\n    {access}\n    vr_ev(2);\n    vr_i64(4, g0);\n    vr_i64(5, g1);\n    0\n}}\n")
                        out.append((f"cidx_{fname}_{via}_{rw}_{n}_{i}", text, i >= n, fname))
    return out


def run(tier, seed):
    t0 = time.time()
    C.build_cli()
    C.build_rt()
    work = C.fresh_dir("C10")
    rng = C.Rng(seed, 10)
    types, sites = gen_sites(rng, tier)
    udecls, usites = gen_unwraps(C.Rng(seed, 1010), 6 if tier == "quick" else 60)
    viol, inconc, samples, sigs = [], [], [], set()
    evals = 0
    # split index sites over several programs
    per = 40
    progs = []
    for off in range(0, len(sites), per):
        chunk = sites[off:off + per]
        src = [R.PRELUDE] + types + [s.text for s in chunk]
        src.append("main :: () -> i32 {\n    sel := vr_sel();\n    i0 := usize.(vr_arg() / 100);\n    i1 := usize.(vr_arg() % 100);\n" +
                   "\n".join(f"    if sel == {s.sid} {{ site{s.sid}(i0, i1); }}" for s in chunk) + "\n    0\n}")
        progs.append(("idx%d" % (off // per), "\n".join(src) + "\n", chunk, None))
    src = [R.PRELUDE] + udecls + [t for _, _, t, _ in usites]
    src.append("main :: () -> i32 {\n    sel := vr_sel();\n    a := vr_arg();\n" + "\n".join(f"    if sel == {s} {{ usite{s}(a); }}" for s, _, _, _ in usites) + "\n    0\n}")
    progs.append(("unwrap", "\n".join(src) + "\n", None, usites))

    def do_prog(p):
        name, text, chunk, us = p
        d = os.path.join(work, name)
        c = R.compile_capy(d, {"main.capy": text}, cpu_s=60)
        if c.timed_out:
            return name, "inconclusive", "watchdog", text, []
        if c.internal_error:
            return name, "internal_error", c, text, []
        if not c.accepted:
            return name, "rejected", c, text, []
        exe, err = R.link(d, c.obj)
        if exe is None:
            return name, "inconclusive", "link: " + err[:200], text, []
        runs = []
        if chunk is not None:
            for s in chunk:
                if len(s.lens) == 1:
                    idxs = [(i,) for i in range(0, s.lens[0] + 5)]
                else:
                    a, b = s.lens
                    idxs = [(i, j) for i in range(0, a + 2) for j in range(0, b + 2)] + [(a + 4, 0), (0, b + 4)]
                for idx in idxs:
                    arg = idx[0] * 100 + (idx[1] if len(idx) > 1 else 0)
                    r = R.run_exe(exe, {"VR_SEL": s.sid, "VR_ARG": arg}, cpu_s=5)
                    runs.append((s, idx, r))
        else:
            for s, kind, _, cases in us:
                for arg, fault, val in cases:
                    r = R.run_exe(exe, {"VR_SEL": s, "VR_ARG": arg}, cpu_s=5)
                    runs.append(((s, kind, fault, val), (arg,), r))
        return name, "ran", None, text, runs

    results = C.pmap(do_prog, progs)
    for name, status, info, text, runs in results:
        if status == "inconclusive":
            inconc.append(f"{name}: {info}")
            continue
        if status == "internal_error":
            viol.append({"key": "internal_error", "sig": "internal_error|" + info.panic_sig(), "what": f"program {name} ends in an internal compiler error: {info.brief()[:300]}", "witness": {"files": {"main.capy": text}}})
            continue
        if status == "rejected":
            viol.append({"key": "rejected", "sig": "rejected|" + ";".join(info.diag_kinds()[:2]), "what": f"well-typed indexing/unwrap program {name} is rejected: {info.brief()[:400]}", "witness": {"files": {"main.capy": text}}})
            continue
        for s, idx, r in runs:
            if r.timed_out:
                inconc.append(f"{name}: run watchdog")
                continue
            evals += 1
            log = R.parse_log(r.out)
            markers = [i for t, i, _ in log if t == "E"]
            texts = [v for t, _, v in log if t == "T" and v.strip()]
            watch = next((v.strip() for t, i, v in log if t == "W"), None)
            dumped = next((v.strip() for t, i, v in log if t == "X"), None)
            value = next((int(v) for t, i, v in log if t == "I"), None)
            if isinstance(s, Site):
                sid, kind = s.sid, s.kind
                fault, image, val = s.predict(idx)
                msg_ok = any("index out of bounds" in t for t in texts)
                cls = "oob" if fault else "in_range"
                sigs.add((kind, s.lens, cls if not fault else ("oob", tuple(min(i - l, 2) if i >= l else -1 for i, l in zip(idx, s.lens)))))
            else:
                sid, kind, fault, val = s
                image = None
                msg_ok = any("unwrap" in t or "variant" in t for t in texts)
                sigs.add((kind, idx, fault))
            before, after = sid * 10 + 1, sid * 10 + 2
            problems = []
            if before not in markers:
                problems.append("the access site was not reached")
            if fault:
                if r.rc != 1:
                    problems.append(f"exit status {r.rc} (signal {r.sig}) instead of 1")
                if after in markers:
                    problems.append("execution continued after the faulting access")
                if not msg_ok:
                    problems.append(f"no fault message naming the fault (output text: {texts[-2:]})")
                if value is not None:
                    problems.append("a value was produced after the fault")
            else:
                if r.rc != 0:
                    problems.append(f"in-range access exited with status {r.rc} (signal {r.sig}); text {texts[-2:]}")
                if after not in markers:
                    problems.append("execution did not continue after an in-range access")
                if val is not None and value != val:
                    problems.append(f"read value {value}, expected {val}")
            # a faulting execution exits inside the site function: the atexit dump shows the live object;
            # an in-range execution dumps the object itself right after the access
            seen_mem = watch if fault else dumped
            if image is not None and not watch_matches(image, seen_mem):
                problems.append(f"memory after the access differs: expected {image} observed {seen_mem}")
            if problems:
                k = f"{'fault' if fault else 'in_range'}:{kind}"
                viol.append({"key": k, "sig": f"{k}|{problems[0][:60]}", "what": f"{kind} with index/arg {idx}: " + "; ".join(problems),
                             "witness": {"files": {"main.capy": text}, "VR_SEL": sid, "VR_ARG": idx, "stdout": r.out[-600:]}})
            elif len(samples) < 4 and fault:
                samples.append({"site": kind, "index": idx, "exit": r.rc, "last_text": texts[-1] if texts else None, "watched_bytes_at_exit": watch})
    # literal indices: compile-time decision
    lits = literal_cases()

    def do_lit(c):
        name, text, bad = c
        return c, R.compile_capy(os.path.join(work, name), {"main.capy": text})
    for (name, text, bad), c in C.pmap(do_lit, lits):
        evals += 1
        sigs.add(("literal", name.split("_")[1], bad))
        if c.internal_error:
            viol.append({"key": "internal_error", "sig": "internal_error|" + c.panic_sig(), "what": f"literal index case {name}: internal compiler error", "witness": {"files": {"main.capy": text}}})
        elif bad and c.accepted:
            viol.append({"key": "literal_oob_accepted", "sig": f"literal_oob_accepted|{name}", "what": f"{name}: a literal index out of range for a fixed-size array is accepted", "witness": {"files": {"main.capy": text}}})
        elif bad and not any("too big" in k or "index" in k.lower() for k in c.diag_kinds()):
            inconc.append(f"{name}: rejected for another reason: {c.diag_kinds()[:2]}")
        elif not bad and not c.accepted:
            viol.append({"key": "literal_in_range_rejected", "sig": f"literal_in_range_rejected|{name}", "what": f"{name}: a literal index in range is rejected: {c.brief()[:300]}", "witness": {"files": {"main.capy": text}}})
    # constant index expressions that are not bare literals: rejected at compile time or checked at run time, never unchecked
    def do_cidx(c):
        name, text, bad, fname = c
        d = os.path.join(work, name)
        cc = R.compile_capy(d, {"main.capy": text})
        r = None
        if cc.accepted:
            r = R.link_and_run(d, cc.obj)
        return c, cc, r
    ccases = const_index_cases()
    if tier == "quick":
        must = [c for c in ccases if c[3] == "paren" and c[2]][:6]
        ccases = must + [c for c in C.Rng(seed, 1011).sample(ccases, 60) if c not in must]
    n_ct = n_rt = 0
    for (name, text, bad, fname), cc, r in C.pmap(do_cidx, ccases):
        wit = {"files": {"main.capy": text}}
        if cc.internal_error:
            viol.append({"key": "internal_error", "sig": "internal_error|" + cc.panic_sig(), "what": f"constant index case {name}: internal compiler error", "witness": wit})
            continue
        if cc.timed_out or (r is not None and (r.link_failed or r.timed_out)):
            inconc.append(f"{name}: watchdog/link")
            continue
        evals += 1
        sigs.add(("const_index", fname, bad, cc.accepted))
        if not cc.accepted:
            n_ct += 1
            if not bad:
                viol.append({"key": "const_index_in_range_rejected", "sig": f"const_index_in_range_rejected|{fname}", "what": f"{name}: an in-range constant index is rejected: {cc.brief()[:300]}", "witness": wit})
            elif not any("too big" in k or "index" in k.lower() or "bounds" in k.lower() for k in cc.diag_kinds()):
                inconc.append(f"{name}: rejected for another reason: {cc.diag_kinds()[:2]}")
            continue
        n_rt += 1
        log = R.parse_log(r.out)
        markers = [i for t, i, _ in log if t == "E"]
        vals = {i: v.strip() for t, i, v in log if t == "I"}
        texts = [v for t, _, v in log if t == "T" and v.strip()]
        if bad:
            probs = []
            if r.rc != 1:
                probs.append(f"exit status {r.rc} (signal {r.sig}) instead of 1")
            if 2 in markers or 3 in vals:
                probs.append("execution continued after the out-of-range access")
            if not any("index out of bounds" in t for t in texts):
                probs.append(f"no 'index out of bounds' message (text: {texts[-2:]})")
            if probs:
                viol.append({"key": "const_index_unchecked", "sig": f"const_index_unchecked|{fname}", "what": f"{name}: accepted out-of-range constant index is not checked at run time: " + "; ".join(probs),
                             "witness": dict(wit, stdout=r.out[-400:])})
        else:
            if r.rc != 0 or 2 not in markers or vals.get(4) != "111" or vals.get(5) != "222" or vals.get(3) not in ("5", "9"):
                viol.append({"key": "const_index_in_range_wrong", "sig": f"const_index_in_range_wrong|{fname}", "what": f"{name}: in-range constant index misbehaves: rc={r.rc} markers={markers} values={vals}",
                             "witness": dict(wit, stdout=r.out[-400:])})
    # de-duplicate violations by key (keep 3 per key)
    kept, cnt = [], {}
    for v in viol:
        cnt[v["key"]] = cnt.get(v["key"], 0) + 1
        if cnt[v["key"]] <= 3:
            kept.append(v)
    rep = {"evaluations": evals, "distinct_nontrivial": len(sigs), "violations": kept, "samples": samples,
           "counters": {"index_sites": len(sites), "unwrap_sites": len(usites), "executions": evals, "literal_cases": len(lits), "const_index_cases": len(ccases),
                        "const_index_rejected_at_compile_time": n_ct, "const_index_checked_at_run_time": n_rt, "violations_total": len(viol)},
           "notes": [], "exhaustive": False}
    return C.finish("C10", tier, seed, t0, "exploration", rep, ASSUME, RULE, min_evals=300, inconclusive=inconc)


def replay(path):
    w = json.load(open(os.path.join(path, "witness.json")))
    wit = w.get("witness") or {}
    files = wit.get("files")
    if not files:
        print(json.dumps(w, indent=1)[:3000])
        return 2
    C.build_cli()
    C.build_rt()
    work = C.fresh_dir("C10", "replay")
    c = R.compile_capy(work, files)
    print(c.brief()[:1500])
    if c.accepted and "VR_SEL" in wit:
        exe, _ = R.link(work, c.obj)
        idx = wit["VR_ARG"]
        arg = idx[0] * 100 + (idx[1] if len(idx) > 1 else 0)
        r = R.run_exe(exe, {"VR_SEL": wit["VR_SEL"], "VR_ARG": arg})
        print(r.out, "exit", r.rc, r.sig)
    print(f"(expected behaviour: {w.get('what')})")
    return 1
