"""C23 — parsing is total, terminating and lossless (probe c23, hook H3 step counter)."""
from ._probe_check import run_probe_check, replay_text

RULE = ("inputs: every token sequence of length <= N over three 14-token sets (exhaustive; N=5/4 quick, 6/5 thorough), "
        "deep-nesting families to depth 200, scaling families (x4 input must give <= x4.6 steps), random token soups, corpus files "
        "with byte- and token-level mutations; each parsed as source file and as REPL line; "
        "non-trivial = >= 2 tokens with syntax errors or >= 3 tokens, distinct = (mode, tokens, errors, tree depth) buckets")
ASSUME = ["termination is decided on logical steps (token look-ups counted by hook H3) against a budget of 3200 steps per input byte; "
          "a non-terminating loop that never looks at a token would only show as a probe time-out (inconclusive here, caught by C06)",
          "'roughly linear' is read as: steps(4n)/steps(n) <= 4.6 at fixed nesting depth"]


# the same check interpreted by Miri: the parser sink reinterprets Vec<Option<Event>> and walks raw pointers
MIRI = {"quick": ["--maxlen", "1", "--random", "256", "--mutants", "16", "--corpusfiles", "1"],
        "thorough": ["--maxlen", "2", "--random", "2400", "--mutants", "240", "--corpusfiles", "2"], "shards": 16}


def run(tier, seed):
    return run_probe_check("C23", tier, seed, RULE, ASSUME, corpus=True, shards=16 if tier == "thorough" else 8,
                           extra=["--maxlen", "6" if tier == "thorough" else "5"], min_evals=100000, miri=MIRI)


def replay(path):
    return replay_text("C23", path)
