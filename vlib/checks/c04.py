"""C04 — a comptime block yields what the same code yields at run time.

Metamorphic: every generated program holds 12 "blocks". A block is a deterministic body of a random result type (all integer
widths, f32/f64, bool, char, str and `distinct str` (also with escapes, up to 300 bytes), arrays, nested structs, enums with payloads, optionals, error unions, `type`) that is evaluated
twice in the same program: once inside `comptime { ... }` (as a global, typed global, global referenced by another global, `::` /
`:=` / annotated local, inline argument, inside a function called twice, inside a run-time loop, inside a lambda, wrapped in a
second comptime block, in an imported file, or derived from another comptime global) and once at run time (the same function
called at run time, or the body duplicated textually). Both values are printed leaf by leaf through the same printer function and
must be equal; the run-time rendering is additionally compared with the value python computed for the body. A fraction of the
blocks calls libc `puts("CT-k.")` inside the comptime body: the marker must appear in the compiler's output and never in the
program's output. Two more program families: (T) global constant arrays `TAB :: T.[A, B, comptime { .. }]` whose elements are comptime
globals / inline comptime blocks of element types with size != stride (structs ending in a small member, optionals, payload enums, error unions),
every leaf of every element printed (whole array by value and element-wise with a run-time index) against the array built at run time, plus a comptime
block reading TAB[j], j >= 1; (S) a `str` comptime global, or a function with a local `str` comptime block, that is read AGAIN by other comptime blocks
(strlen, byte loop, checksum, byte at index, strcmp) - the reader's comptime value, the same reader at run time over the comptime str, and the printed
text must all agree with the same code run on the literal. Pointer / function results, and results that hold a pointer inside an aggregate (struct with a str / slice /
pointer member, ?str, E!str, [n]str, enum with a str payload, slices, any, ?^T), must be rejected with the "cannot return pointers"
diagnostic and without a crash; a sample of compilations runs under memcheck.
"""
import json
import os
import re
import shutil
import time

from .. import common as C
from .. import capyrun as R
from .. import c04_gen as G

RULE = ("block = (result type shape, placement of the comptime block, pairing mode (same function called at compile time and at run time / body "
        "duplicated textually / derived from another comptime global), set of language features used in the body); 12 blocks per program, every block "
        "has a distinct value; non-trivial = the program was accepted, the run-time copy printed exactly the value python computed for the body and "
        "the comptime copy was printed completely or the program died while printing it; distinct = distinct (shape, placement, mode, feature set) "
        "tuples. side-effect blocks, negative programs (pointer / function results), the generic-function probe and memcheck runs are counted as "
        "separate evaluations. family T: block = (element type shape, table form (typed literal / untyped / annotated through an alias / read through an alias "
        "global / local const), how each element is supplied, length 2..5) and (form, index) for a comptime block reading an element; family S: block = "
        "(str global / function-local str comptime, reader kind, placement of the reading comptime block); 12 programs of each family per quick run")
ASSUME = ["the value of a body is computed in python from the README meaning of literals, + - * / % without overflow, value-preserving casts, control flow, "
          "calls; when the RUN-TIME copy disagrees with python the block is inconclusive (not a C04 matter), only comptime != run time is a violation",
          "padding bytes and tags' padding are not constrained: values are compared leaf by leaf, never as raw bytes; an uninitialised-bytes report of memcheck for "
          "the write(2) of the object file is judged only for programs whose comptime results are all padding-free (scalars and arrays of scalars), otherwise counted",
          "side effects: `puts` resolves to the compiler process's libc inside a comptime block; judged: marker >= 1 time in the compiler's output and 0 times in "
          "the program's output (how often the compiler evaluates one block is only counted)",
          "results holding a pointer inside an aggregate (and slices, `any`, ?^T) are negative cases only: capy rejects them like top-level pointers, a rejection "
          "with the pointer diagnostic is the expected outcome, an acceptance is recorded but not judged, a crash is a violation; plain `str` / `distinct str` "
          "results are positive and generated from literals only (static at run time)",
          "a program that dies while printing the comptime copy of block k is a violation of block k; the blocks after it are not judged in that program "
          "(str blocks are placed last)"]

BLOCKS_PER_PROG = 12
PLACEMENTS = [("glob", 14), ("glob_typed", 8), ("glob_ref", 6), ("loc_const", 12), ("loc_mut", 10), ("loc_typed", 8), ("inline", 8), ("in_fn", 7),
              ("in_loop", 6), ("in_lambda", 5), ("wrap_nested", 6), ("imported", 6)]
EXTRA_DECLS = "vr_str :: (id: i64, s: str) extern;\nputs :: (s: str) -> i32 extern;\n"
EXTERNAL_SIGNALS = (2, 9, 15)
END_ID = 999999


# --------------------------------------------------------------------------- program generation

def indent(lines, n=1):
    return "".join("    " * n + ln + "\n" for s in lines for ln in s.split("\n"))


def simple_for_import(T):
    return (T.kind in ("int", "float", "bool", "char", "str") and T.name != "DS") or (T.kind == "arr" and simple_for_import(T.elem))


def derive_value(rng, T, v):
    """a value of T that shares parts with v (the value of another comptime global) -> (new value, recipe)"""
    lo_hi = G.int_range(T) if T.kind == "int" else None
    if T.kind == "int":
        # new = v + d with d small when possible
        for _ in range(8):
            d = rng.range(-40, 40)
            if lo_hi[0] <= v + d <= lo_hi[1] and lo_hi[0] <= d <= lo_hi[1]:
                return v + d, d
        return v, 0
    nv = list(v)
    n = len(nv)
    changed = sorted(rng.sample(list(range(n)), rng.range(1, n)))
    sub = [ft for _, ft in T.fields] if T.kind == "struct" else [T.elem] * n
    for j in changed:
        nv[j] = G.gen_value(rng, sub[j])
    return nv, changed


def make_program(seed, idx, nblocks=BLOCKS_PER_PROG, padfree=False):
    """-> (files, metas)"""
    rng = C.Rng(seed, 40000 + idx)
    env = G.Env(rng)
    prog = G.Prog(rng, env)
    blocks = []
    globs, fns, blks, ofile = [], [], [], []
    for k in range(nblocks):
        placement = rng.weighted(PLACEMENTS)
        T = env.gen_type()
        while T.kind != "str" and G.has_kind(T, "str"):      # a pointer inside an aggregate result is rejected by the checker: NEGATIVES only
            T = env.gen_type()
        if padfree:
            while not G.padding_free(T) or T.kind == "type":
                T = env.gen_type()
        if placement == "imported":
            while not simple_for_import(T):
                T = env.gen_type()
        feats = set()
        mode = "fn" if (placement == "imported" or rng.chance(1, 2)) else "dup"
        v = G.gen_value(rng, T)
        ctx = G.Ctx(prog, feats, no_helpers=(placement == "imported"))
        cands = [b for b in blocks if b["placement"] in ("glob", "glob_typed") and b["T"].kind in ("int", "struct", "arr") and (not padfree or G.padding_free(b["T"]))]
        if cands and placement != "imported" and rng.chance(1, 7):
            src = rng.pick(cands)
            T, mode = src["T"], "derived"
            v, recipe = derive_value(rng, T, src["value"])
            gname = f"G_{src['k']}"
            if T.kind == "int":
                expr = f"({gname} + {G.decl_int(ctx, T, recipe)})" if recipe >= 0 else f"({gname} - {G.decl_int(ctx, T, -recipe)})"
            else:
                t = ctx.fresh("t")
                ctx.stmts.append(f"{t} : {T.name} = {gname};")
                sub = [ft for _, ft in T.fields] if T.kind == "struct" else [T.elem] * T.n
                for j in recipe:
                    acc = f"{t}.{T.fields[j][0]}" if T.kind == "struct" else f"{t}[{j}]"
                    ctx.stmts.append(f"{acc} = {G.gen(ctx, sub[j], v[j], 1)};")
                expr = t
            feats.add("reads_comptime_global")
        else:
            expr = G.gen(ctx, T, v, 2)
        fx = rng.chance(1, 4)
        b = {"k": k, "T": T, "value": v, "placement": placement, "mode": mode, "feats": feats, "fx": fx, "stmts": ctx.stmts, "expr": expr,
             "ptr": G.has_kind(T, "str"), "ret": mode == "fn" and T.kind != "type" and rng.chance(1, 4)}
        if b["ret"]:
            c2 = G.Ctx(prog, feats, no_helpers=(placement == "imported"))
            b["ret_cond"] = G.gen_bool(c2, True, 1)
            b["ret_alt"] = G.gen_direct(c2, T, G.gen_value(rng, T), 0)
            b["ret_stmts"] = c2.stmts
            feats.add("return")
        blocks.append(b)
    # a void block whose only purpose is its side effect
    blocks.append({"k": nblocks, "T": None, "placement": "void_stmt", "mode": "dup", "feats": {"void"}, "fx": True, "ptr": False})

    metas = []
    order = [b for b in blocks if not b["ptr"]] + [b for b in blocks if b["ptr"]]
    for b in order:
        k, T, pl = b["k"], b["T"], b["placement"]
        BR, BC = k * 1000, k * 1000 + 500
        ct_mark = [f'puts("CT-{k}.");'] if b["fx"] else []
        rt_mark = [f'puts("RT-{k}.");'] if b["fx"] else []
        meta = {"k": k, "placement": pl, "mode": b["mode"], "feats": sorted(b["feats"]), "fx": b["fx"], "ptr": b["ptr"], "reps": 1, "extra": [],
                "shape": G.shape(T) if T is not None else "void", "kind": T.kind if T is not None else "void", "exp": []}
        metas.append(meta)
        if T is None:
            blks.append(f"blk_{k} :: () {{\n    vr_flush();\n    puts(\"RT-{k}.\");\n    vr_flush();\n    comptime {{ puts(\"CT-{k}.\"); }};\n    vr_ev({BC});\n}}")
            continue
        pr = env.pr(T)              # one printer function per type: both copies are printed by the same code
        meta["exp"] = [list(x) for x in G.leaves(T, b["value"], 0)]
        body_ct = [G.resolve_ct(s, True) for s in b["stmts"]]
        body_rt = [G.resolve_ct(s, False) for s in b["stmts"]]
        e_ct, e_rt = G.resolve_ct(b["expr"], True), G.resolve_ct(b["expr"], False)
        q = "o." if pl == "imported" else ""
        if b["mode"] == "fn":
            tail = [e_ct]
            pre = list(body_ct)
            if b["ret"]:
                pre += b["ret_stmts"]
                tail = [f"if {b['ret_cond']} {{ return {e_ct}; }};", b["ret_alt"]]
            ftxt = f"f_{k} :: () -> {T.name} {{\n" + indent(pre + tail) + "}"
            (ofile if pl == "imported" else fns).append(ftxt)
            if ct_mark or not rng.chance(1, 4):
                CE = "comptime { " + " ".join(ct_mark) + f" f_{k}() }}"
            else:
                CE = f"comptime f_{k}()"
            RE = f"{q}f_{k}()"
            if any("@CT@" in x for x in b["stmts"] + [b["expr"]]):
                # f_k holds a nested comptime block, so it is only called at compile time; the run-time copy is the same text with plain blocks
                tail_rt = [f"if {b['ret_cond']} {{ return {e_rt}; }};", b["ret_alt"]] if b["ret"] else [e_rt]
                gtxt = f"g_{k} :: () -> {T.name} {{\n" + indent(body_rt + (b["ret_stmts"] if b["ret"] else []) + tail_rt) + "}"
                (ofile if pl == "imported" else fns).append(gtxt)
                RE = f"{q}g_{k}()"
        else:
            CE = "comptime {\n" + indent(ct_mark + body_ct + [e_ct], 2) + "    }"
            RE = "{\n" + indent(body_rt + [e_rt], 2) + "    }"
        meta["src"] = {"comptime": CE[:500], "run_time": RE[:200]}
        if b["mode"] == "fn":
            meta["src"]["function"] = ftxt[:600]
        lines = ["vr_flush();"] + rt_mark
        lines.append(f"rt_{k} := {RE};" if T.kind == "type" else f"rt_{k} : {T.name} = {RE};")
        lines += [f"{pr}({BR}, rt_{k});", "vr_flush();"]
        name = None
        if pl in ("glob", "imported"):
            (ofile if pl == "imported" else globs).append(f"G_{k} :: {CE};")
            name = f"{q}G_{k}"
            lines.append(f"{pr}({BC}, {name});")
        elif pl == "glob_typed":
            if T.kind == "arr":
                # `G : [2]i32 : ...` (array type written in a global's annotation) panics in const_ty, whatever the value is: see PROBES
                globs.append(f"A_{k} :: {T.name};")
                globs.append(f"G_{k} : A_{k} : {CE};")
            else:
                globs.append(f"G_{k} : {T.name} : {CE};")
            name = f"G_{k}"
            lines.append(f"{pr}({BC}, {name});")
        elif pl == "glob_ref":
            pair = [f"G_{k} :: {CE};", f"H_{k} :: G_{k};"]
            # (the reversed order is sometimes rejected with a spurious "circular definition" in large files; not a C04 matter, see the report)
            globs.extend(pair)
            name = f"H_{k}"
            lines.append(f"{pr}({BC}, {name});")
        elif pl == "loc_const":
            name = f"x_{k}"
            lines += [f"x_{k} :: {CE};", f"{pr}({BC}, x_{k});"]
        elif pl == "loc_mut":
            lines += [f"x_{k} := {CE};", f"{pr}({BC}, x_{k});"]
        elif pl == "loc_typed":
            lines += [f"x_{k} : {T.name} = {CE};", f"{pr}({BC}, x_{k});"]
        elif pl == "inline":
            lines.append(f"{pr}({BC}, {CE});")
        elif pl == "in_fn":
            fns.append(f"site_{k} :: () -> {T.name} {{\n    {CE}\n}}")
            lines += [f"{pr}({BC}, site_{k}());", f"{pr}({BC}, site_{k}());"]
            meta["reps"] = 2
        elif pl == "in_loop":
            lines += [f"n_{k} : i32 = 0;", f"while n_{k} < 2 {{", f"    x_{k} := {CE};", f"    {pr}({BC}, x_{k});", f"    n_{k} = n_{k} + 1;", "}"]
            meta["reps"] = 2
        elif pl == "in_lambda":
            lines += [f"lam_{k} :: () -> {T.name} {{\n        {CE}\n    }};", f"{pr}({BC}, lam_{k}());"]
        elif pl == "wrap_nested":
            if rng.chance(1, 2):
                lines += [f"x_{k} :: comptime {{ {CE} }};", f"{pr}({BC}, x_{k});"]
            else:
                lines += [f"x_{k} := comptime {{ t_{k} := {CE}; t_{k} }};", f"{pr}({BC}, x_{k});"]
        else:
            raise ValueError(pl)
        if T.kind == "type" and name is not None and b["value"] in ("i32", "i64", "u8"):
            lines += [f"y_{k} : {name} = 77;", f"vr_i64({BC + 450}, i64.(y_{k}));"]
            meta["extra"] = [["I", 450, "77", "type_use"]]
        blks.append(f"blk_{k} :: () {{\n" + indent(lines) + "}")
    main = "main :: () -> i32 {\n" + "".join(f"    blk_{m['k']}();\n" for m in metas) + f"    vr_ev({END_ID});\n    vr_flush();\n    0\n}}"
    parts = [R.PRELUDE + EXTRA_DECLS]
    if ofile:
        parts.append('o :: #import("o.capy");')
    first, second = ([globs, blks] if rng.chance(1, 2) else [blks, globs])
    parts += env.decls + prog.consts + list(prog.helpers.values()) + env.pr_texts() + fns + first + [main] + second
    files = {"main.capy": "\n".join(parts) + "\n"}
    if ofile:
        files["o.capy"] = "puts :: (s: str) -> i32 extern;\n" + "\n".join(ofile) + "\n"
    return files, metas


# --------------------------------------------------------------------------- family T: global constant arrays built from comptime values

def new_meta(k, placement, mode, feats, T, value, reps=1):
    return {"k": k, "placement": placement, "mode": mode, "feats": sorted(feats), "fx": False, "ptr": False, "reps": reps, "extra": [],
            "shape": G.shape(T), "kind": T.kind, "exp": [list(x) for x in G.leaves(T, value, 0)]}


def make_table_program(seed, idx, ntab=5):
    """tables `TAB :: T.[A, B, comptime { .. }]` whose elements are comptime globals / inline comptime blocks; element types mostly have
    size != stride (structs ending in a small member, optionals, payload enums, error unions). Every leaf of every element is printed twice (the
    whole array by value, then element-wise with a run-time index) and compared with the array built at run time from the same element functions;
    one more block reads an element with index >= 1 inside another comptime block. -> (files, metas)"""
    rng = C.Rng(seed, 60000 + idx)
    env = G.Env(rng)
    prog = G.Prog(rng, env)
    ts = G.Ty("struct", "TS", fields=[("big", G.t_int("i64")), ("small", G.t_int(rng.pick(["i8", "u8", "i16"])))])
    env.decls.append(env.decl_text(ts))
    globs, fns, blks, metas = [], [], [], []
    for k in range(ntab):
        ek = rng.weighted([("ts", 3), ("struct", 5), ("opt", 4), ("enum", 3), ("eu", 3), ("scalar", 1)])
        ET = ts if ek == "ts" else env.gen_type_of("int") if ek == "scalar" else env.gen_type_of(ek)
        while G.has_kind(ET, "str") or G.size(ET) > 40:
            ET = env.gen_type_of(ek)
        n = rng.range(2, 5)
        AT = env.arr(ET, n)
        vals = [G.gen_value(rng, ET) for _ in range(n)]
        feats = set()
        prefix = ET.name
        if ET.kind in ("opt", "eu", "arr"):
            globs.append(f"EL_{k} :: {ET.name};")
            prefix = f"EL_{k}"
        elems, gl_of, rfn = [], {}, list(range(n))
        for i in range(n):
            how = rng.weighted([("global", 5), ("inline", 3), ("repeat", 2 if gl_of else 0)])
            if how == "repeat":
                j = rng.pick(sorted(gl_of))
                vals[i], rfn[i] = vals[j], j
                elems.append(gl_of[j])
                feats.add("elem_repeated_global")
                continue
            ctx = G.Ctx(prog, feats)
            ctx.in_helper = True        # the element function is shared by the compile-time and the run-time copy
            e = G.gen(ctx, ET, vals[i], 1)
            fns.append(f"e_{k}_{i} :: () -> {ET.name} {{\n" + indent(ctx.stmts + [e]) + "}")
            if how == "global":
                gl_of[i] = f"A_{k}_{i}"
                globs.append(f"A_{k}_{i} :: comptime {{ e_{k}_{i}() }};")
                elems.append(f"A_{k}_{i}")
                feats.add("elem_comptime_global")
            else:
                elems.append(f"comptime {{ e_{k}_{i}() }}")
                feats.add("elem_inline_comptime")
        form = rng.pick(["typed_prefix", "untyped", "alias_annot", "via_alias_global", "local_const"])
        lit = ", ".join(elems)
        globs.append(f"AT_{k} :: {AT.name};")
        name, local = f"TAB_{k}", []
        if form == "typed_prefix":
            globs.append(f"TAB_{k} :: {prefix}.[{lit}];")
        elif form == "untyped":
            globs.append(f"TAB_{k} :: .[{lit}];")
        elif form == "alias_annot":
            globs.append(f"TAB_{k} : AT_{k} : .[{lit}];")
        elif form == "via_alias_global":
            globs.append(f"TAB_{k} :: {prefix}.[{lit}];")
            globs.append(f"U_{k} :: TAB_{k};")
            name = f"U_{k}"
        else:
            local = [f"TAB_{k} :: {prefix}.[{lit}];"]
        BR, BC = k * 1000, k * 1000 + 500
        pr, pe, sz = env.pr(AT), env.pr(ET), G.size(ET)
        m = new_meta(k, "const_table/" + form, "table", feats | {f"n{n}"}, AT, vals, reps=2)
        m["src"] = {"comptime": (local[0] if local else [g for g in globs if g.startswith(f"TAB_{k} ")][0])[:400],
                    "run_time": f"rt_{k} : AT_{k} = .[" + ", ".join(f"e_{k}_{rfn[i]}()" for i in range(n)) + "];"}
        metas.append(m)
        lines = ["vr_flush();", m["src"]["run_time"], f"{pr}({BR}, rt_{k});", "vr_flush();"] + local + [f"{pr}({BC}, {name});"]
        for i in range(n):
            lines += [f"ix_{k}_{i} := usize.(vr_opaque_u64({i}));", f"{pe}({BC + i * sz}, {name}[ix_{k}_{i}]);"]
        blks.append(f"blk_{k} :: () {{\n" + indent(lines) + "}")
        if not local:
            # another comptime block reads an element with index >= 1 of the table
            k2, j = ntab + k, rng.range(1, n - 1)
            m2 = new_meta(k2, "comptime_reads_table/" + form, "table", {f"index{j}"}, ET, vals[j])
            m2["src"] = {"comptime": f"comptime {{ {name}[{j}] }}", "run_time": f"e_{k}_{rfn[j]}()"}
            metas.append(m2)
            cpl = rng.pick(["glob", "loc_const", "inline"])
            if cpl == "glob":
                globs.append(f"RD_{k2} :: comptime {{ {name}[{j}] }};")
                use = [f"{pe}({k2 * 1000 + 500}, RD_{k2});"]
            elif cpl == "loc_const":
                use = [f"x_{k2} :: comptime {{ {name}[{j}] }};", f"{pe}({k2 * 1000 + 500}, x_{k2});"]
            else:
                use = [f"{pe}({k2 * 1000 + 500}, comptime {{ {name}[{j}] }});"]
            blks.append(f"blk_{k2} :: () {{\n" + indent(["vr_flush();", f"rt_{k2} : {ET.name} = e_{k}_{rfn[j]}();", f"{pe}({k2 * 1000}, rt_{k2});", "vr_flush();"] + use) + "}")
    rng.shuffle(globs)
    main = "main :: () -> i32 {\n" + "".join(f"    blk_{m['k']}();\n" for m in metas) + f"    vr_ev({END_ID});\n    vr_flush();\n    0\n}}"
    first, second = ([globs, blks] if rng.chance(1, 2) else [blks, globs])
    parts = [R.PRELUDE + EXTRA_DECLS] + env.decls + prog.consts + list(prog.helpers.values()) + env.pr_texts() + fns + first + [main] + second
    return {"main.capy": "\n".join(parts) + "\n"}, metas


# --------------------------------------------------------------------------- family S: a comptime str that is read again while compiling

STR_HELPERS = """strlen :: (s: str) -> usize extern;
strcmp :: (a: str, b: str) -> i32 extern;
h_len :: (s: str) -> usize { strlen(s) }
h_len2 :: (s: str) -> usize {
    p := ^[512]u8.(rawptr.(s));
    i : usize = 0;
    while p^[i] != 0 { i = i + 1; };
    i
}
h_sum :: (s: str) -> u64 {
    n := strlen(s);
    p := ^[512]u8.(rawptr.(s));
    acc : u64 = 7;
    i : usize = 0;
    while i < n { acc = (acc * 31 + u64.(p^[i])) % 1000000007; i = i + 1; };
    acc
}
h_at :: (s: str, k: usize) -> u8 {
    p := ^[512]u8.(rawptr.(s));
    p^[k]
}
h_eq :: (a: str, b: str) -> bool { strcmp(a, b) == 0 }
"""


def make_str_program(seed, idx, ngroups=4):
    """(i) a str comptime global read by other comptime blocks, (ii) a function with a local str comptime block called from comptime code and at run
    time. Readers: length (libc strlen / byte loop), checksum over all bytes, byte at an index, equality with a literal. Each reader is printed as
    evaluated inside comptime AND as evaluated at run time over the comptime str; the run-time copy applies the same reader to the literal. The str
    itself is printed too (before or after its readers). -> (files, metas)"""
    rng = C.Rng(seed, 70000 + idx)
    env = G.Env(rng)
    T_USIZE, T_U64, T_U8 = G.t_int("usize"), G.t_int("u64"), G.t_int("u8")
    globs, fns, blks, metas = [], [], [], []
    k = 0
    for g in range(ngroups):
        text = ""
        while len(text) < 2:
            text = G.gen_str(rng)
        lit = G.str_lit(text)
        fns.append(f"sf_{g} :: () -> str {{ {lit} }}")
        kind = rng.pick(["global", "global", "fn_local"])
        if kind == "global":
            decl = rng.pick([f"BAN_{g} :: comptime {{ {lit} }};", f"BAN_{g} :: comptime {{ sf_{g}() }};", f"BAN_{g} : str : comptime {{ {lit} }};",
                             f"BAN_{g} :: comptime {{ s : str = {lit}; s }};"])
            globs.append(decl)
            src_c = f"BAN_{g}"
        else:
            decl = rng.pick([f"tag_{g} :: () -> str {{ comptime {{ {lit} }} }}", f"tag_{g} :: () -> str {{ x :: comptime {{ {lit} }}; x }}",
                             f"tag_{g} :: () -> str {{ x := comptime {{ sf_{g}() }}; x }}"])
            fns.append(decl)
            src_c = f"tag_{g}()"
        src_r = f"sf_{g}()"
        group = []
        # the str itself
        m = new_meta(k, "str_" + kind, "reread", {"str_printed"}, G.T_STR, text)
        m["src"] = {"comptime": decl[:400], "run_time": src_r}
        group.append((m, ["vr_flush();", f"{env.pr(G.T_STR)}({k * 1000}, {src_r});", "vr_flush();", f"{env.pr(G.T_STR)}({k * 1000 + 500}, {src_c});"]))
        k += 1
        bs = text.encode()
        acc = 7
        for ch in bs:
            acc = (acc * 31 + ch) % 1000000007
        at = rng.below(len(bs))
        other = text[:-1] + ("x" if text[-1] != "x" else "y")
        readers = [("len", T_USIZE, len(bs), "h_len({S})"), ("len_loop", T_USIZE, len(bs), "h_len2({S})"), ("checksum", T_U64, acc, "h_sum({S})"),
                   (f"byte_at", T_U8, bs[at], f"h_at({{S}}, {at})"), ("eq_same", G.T_BOOL, True, f"h_eq({{S}}, {lit})"),
                   ("eq_other", G.T_BOOL, False, f"h_eq({{S}}, {G.str_lit(other)})"), ("len_twice", T_USIZE, 2 * len(bs), "(h_len({S}) + h_len2({S}))")]
        for rname, T, val, tmpl in rng.sample(readers, rng.range(2, 4)):
            ce, re_ = tmpl.replace("{S}", src_c), tmpl.replace("{S}", src_r)
            cpl = rng.pick(["glob", "glob", "loc_const", "loc_mut", "inline", "in_fn"])
            m = new_meta(k, f"comptime_reads_str_{kind}/{cpl}", "reread", {rname}, T, val, reps=2)
            m["src"] = {"comptime": f"comptime {{ {ce} }}", "str": decl[:300], "run_time": re_}
            BR, BC = k * 1000, k * 1000 + 500
            pr = env.pr(T)
            lines = ["vr_flush();", f"rt_{k} : {T.name} = {re_};", f"{pr}({BR}, rt_{k});", "vr_flush();"]
            if cpl == "glob":
                globs.append(f"RD_{k} :: comptime {{ {ce} }};")
                lines.append(f"{pr}({BC}, RD_{k});")
            elif cpl == "loc_const":
                lines += [f"x_{k} :: comptime {{ {ce} }};", f"{pr}({BC}, x_{k});"]
            elif cpl == "loc_mut":
                lines += [f"x_{k} := comptime {{ {ce} }};", f"{pr}({BC}, x_{k});"]
            elif cpl == "inline":
                lines.append(f"{pr}({BC}, comptime {{ {ce} }});")
            else:
                fns.append(f"site_{k} :: () -> {T.name} {{ comptime {{ {ce} }} }}")
                lines.append(f"{pr}({BC}, site_{k}());")
            lines += [f"c2_{k} : {T.name} = {ce};", f"{pr}({BC}, c2_{k});"]      # the same reader at run time over the comptime str
            group.append((m, lines))
            k += 1
        if rng.chance(1, 2):
            group = group[1:] + group[:1]          # the str is printed after its readers
        for m, lines in group:
            metas.append(m)
            blks.append(f"blk_{m['k']} :: () {{\n" + indent(lines) + "}")
    rng.shuffle(globs)
    main = "main :: () -> i32 {\n" + "".join(f"    blk_{m['k']}();\n" for m in metas) + f"    vr_ev({END_ID});\n    vr_flush();\n    0\n}}"
    first, second = ([globs, blks] if rng.chance(1, 2) else [blks, globs])
    parts = [R.PRELUDE + EXTRA_DECLS + STR_HELPERS] + env.pr_texts() + fns + first + [main] + second
    return {"main.capy": "\n".join(parts) + "\n"}, metas


# --------------------------------------------------------------------------- negative programs / probes

NEG_HEAD = "vr_i64 :: (id: i64, v: i64) extern;\nK : i64 : 5;\nf :: () -> i32 { 1 }\nS :: struct { a: i64 };\n"
NEGATIVES = [
    ("ptr_local", "main :: () -> i32 { p :: comptime { x : i64 = 5; ^x }; 0 }"),
    ("ptr_mut_local", "main :: () -> i32 { p := comptime { x : i64 = 5; ^mut x }; 0 }"),
    ("ptr_global", "P :: comptime { x : i64 = 5; ^x };\nmain :: () -> i32 { 0 }"),
    ("ptr_struct", "main :: () -> i32 { p :: comptime { s := S.{ a = 1 }; ^s }; 0 }"),
    ("rawptr", "main :: () -> i32 { p :: comptime { x : i64 = 5; rawptr.(^x) }; 0 }"),
    ("fn_name", "main :: () -> i32 { p :: comptime { f }; p() }"),
    ("fn_name_global", "P :: comptime { f };\nmain :: () -> i32 { P() }"),
    ("lambda", "main :: () -> i32 { p :: comptime { (a: i32) -> i32 { a } }; p(0) }"),
    ("ptr_nested", "main :: () -> i32 { p :: comptime { comptime { x : i64 = 5; ^x } }; 0 }"),
    ("ptr_inline_arg", "g :: (p: ^i64) -> i64 { p^ }\nmain :: () -> i32 { vr_i64(1, g(comptime { x : i64 = 5; ^x })); 0 }"),
]
NEG_TYPES = ("SP :: struct { a: i32, s: str };\nEP :: enum { A, B: str };\nSS :: struct { a: i32, s: []i32 };\nSQ :: struct { p: ^i64 };\n"
             "Er :: enum { X, Y: i32 };\nSN :: struct { a: i32, inner: SP };\n")
# results that hold a pointer INSIDE an aggregate / optional / error union / array / enum: rejected like top-level pointers
NEGATIVES += [(n, NEG_TYPES + t) for n, t in [
    ("struct_with_str", 'main :: () -> i32 { x :: comptime { SP.{ a = 1, s = "t" } }; 0 }'),
    ("struct_with_str_global", 'GP :: comptime { SP.{ a = 1, s = "t" } };\nmain :: () -> i32 { 0 }'),
    ("nested_struct_with_str", 'main :: () -> i32 { x := comptime { SN.{ a = 1, inner = SP.{ a = 2, s = "t" } } }; 0 }'),
    ("optional_str", 'main :: () -> i32 { x :: comptime { o : ?str = "t"; o }; 0 }'),
    ("error_union_str", 'main :: () -> i32 { x :: comptime { r : Er!str = "t"; r }; 0 }'),
    ("array_of_str", 'main :: () -> i32 { x :: comptime { str.["a", "b"] }; 0 }'),
    ("array_of_array_of_str", 'main :: () -> i32 { x :: comptime { [2]str.[str.["a", "b"], str.["c", "d"]] }; 0 }'),
    ("enum_with_str_payload", 'main :: () -> i32 { x :: comptime { e : EP = EP.B.("t"); e }; 0 }'),
    ("slice", 'main :: () -> i32 { x :: comptime { a := i32.[1, 2]; s : []i32 = a; s }; 0 }'),
    ("struct_with_slice", 'main :: () -> i32 { x :: comptime { a := i32.[1, 2]; SS.{ a = 1, s = a } }; 0 }'),
    ("struct_with_pointer", 'main :: () -> i32 { x :: comptime { v : i64 = 5; SQ.{ p = ^v } }; 0 }'),
    ("optional_pointer", 'main :: () -> i32 { x :: comptime { v : i64 = 5; o : ?^i64 = ^v; o }; 0 }'),
    ("any", 'main :: () -> i32 { x :: comptime { v : i64 = 5; a : any = v; a }; 0 }'),
    ("struct_with_str_in_fn", 'g :: () -> SP { comptime { SP.{ a = 1, s = "t" } } }\nmain :: () -> i32 { g().a - 1 }'),
]]
POINTER_DIAG = "comptime blocks cannot return pointers"
PROBES = [
    # known crash: a comptime block inside a generic function (`todo!()` in find_comptimes); kept out of the bulk generator
    ("generic_fn", "id :: (comptime T: type, v: T) -> T { c :: comptime { 5 }; v + c }\nmain :: () -> i32 { vr_i64(1, i64.(id(i32, 3))); 0 }"),
    # an array type written directly in the annotation of a global (here holding a comptime result); the bulk generator goes through an alias
    ("typed_global_array", "GA : [2]i32 : comptime { i32.[1, 2] };\nmain :: () -> i32 { vr_i64(1, i64.(GA[1])); 0 }"),
]


# --------------------------------------------------------------------------- execution

def compile_retry(d, files):
    for attempt in range(40):
        try:
            c = R.compile_capy(d, files)
        except C.Inconclusive:
            if attempt == 39:
                raise
            time.sleep(1.5)
            continue
        if c.sig in EXTERNAL_SIGNALS and not c.timed_out and attempt < 3:
            continue
        return c


MARKER = re.compile(r"^(CT|RT)-\d+\.$")


def parse_events(out):
    """R.parse_log, but a text line that follows an S event and is not a side-effect marker continues that string (strings with \\n)"""
    ev = []
    for line in out.split("\n"):
        parts = line.split(" ", 2)
        if len(parts) >= 2 and parts[0] in ("E", "I", "U", "H", "F", "D", "B", "S", "X", "W") and parts[1].lstrip("-").isdigit():
            ev.append([parts[0], int(parts[1]), parts[2] if len(parts) > 2 else ""])
        elif ev and ev[-1][0] == "S" and not MARKER.match(line.strip()) and line != "":
            ev[-1][2] += "\n" + line
        else:
            ev.append(["T", None, line])
    return [tuple(e) for e in ev]


def count_lines(text, marker):
    return sum(1 for ln in text.splitlines() if ln.strip() == marker)


def judge_program(files, metas, c, r):
    """-> {"viol": [...], "inconc": [...], "ok": [(meta, n_leaves)], "fx": counters}"""
    out = {"viol": [], "inconc": [], "ok": [], "cnt": {}}
    cnt = out["cnt"]

    def bump(key, n=1):
        cnt[key] = cnt.get(key, 0) + n

    wit = {"files": files, "metas": metas, "kind": "program"}
    if c.timed_out or c.cpu_exceeded or c.sig in EXTERNAL_SIGNALS:
        out["inconc"].append(f"compiler watchdog / killed from outside (signal {c.sig})")
        return out
    if c.internal_error:
        out["viol"].append({"key": "internal_error", "sig": "internal_error|" + c.panic_sig(),
                            "what": f"internal compiler error on a program of comptime blocks: {c.brief()[:300]}", "witness": wit})
        return out
    if not c.accepted:
        out["inconc"].append(f"generated program not accepted (rc={c.rc}): {c.diag_kinds()[:2]} {c.brief()[-300:]}")
        return out
    if r is None or r.link_failed or r.timed_out or r.cpu_exceeded:
        out["inconc"].append(f"accepted program did not link / run: {getattr(r, 'link_err', '')[-200:]}")
        return out
    ev = parse_events(r.out)
    ended = any(t == "E" and i == END_ID for t, i, _ in ev)
    crashed = bool(r.sig) or r.rc != 0 or not ended
    stopped = False
    for m in metas:
        k = m["k"]
        BR, BC = k * 1000, k * 1000 + 500
        desc = f"block {k}: {m['shape']} placement={m['placement']} mode={m['mode']} feats={','.join(m['feats'])}"
        if stopped:
            bump("blocks_not_reached_after_crash")
            continue
        exp = [tuple(x[:3]) for x in m["exp"]]
        labels = [x[3] for x in m["exp"]]
        Rs = [(t, i - BR, v) for t, i, v in ev if i is not None and BR <= i < BR + 500]
        Cs = [(t, i - BC, v) for t, i, v in ev if i is not None and BC <= i < BC + 450]
        Xs = [(t, i - BC, v) for t, i, v in ev if i is not None and BC + 450 <= i < BC + 500]
        if m["kind"] == "void":
            reached = any(t == "E" and i == BC for t, i, _ in ev)
            if not reached:
                if crashed:
                    stopped = True
                out["inconc"].append(f"{desc}: not executed (rc={r.rc} sig={r.sig})")
                continue
        else:
            if len(Rs) != len(exp):
                stopped = stopped or crashed
                out["inconc"].append(f"{desc}: the RUN-TIME copy printed {len(Rs)} of {len(exp)} leaves (rc={r.rc} sig={r.sig})")
                continue
            model_bad = [(a, b) for a, b in zip(Rs, exp) if a[:2] != b[:2] or (b[2] is not None and a[2] != b[2])]
            want = Rs * m["reps"]
            diff = None
            for i in range(max(len(want), len(Cs))):
                if i >= len(Cs) or i >= len(want) or Cs[i] != want[i]:
                    diff = i
                    break
            if diff is None:
                xw = [tuple(x[:3]) for x in m["extra"]]
                if Xs != xw:
                    if len(Xs) < len(xw) and crashed:
                        stopped = True
                    diff, want, Cs, labels = 0, xw, Xs, [x[3] for x in m["extra"]]
            if diff is not None:
                lab = labels[diff % len(labels)] if labels else "?"
                got = Cs[diff] if diff < len(Cs) else None
                wv = want[diff] if diff < len(want) else None
                died = got is None and crashed
                if crashed and len(Cs) < len(want):
                    stopped = True          # the program died inside this block: nothing after it was executed
                if model_bad and not died:
                    out["inconc"].append(f"{desc}: run-time copy disagrees with the model AND with the comptime copy: {model_bad[:2]}")
                    continue
                out["viol"].append({"key": "wrong_value", "sig": f"wrong_value|{lab}",
                                    "what": f"{desc}: leaf #{diff} ({lab}) of the comptime result is {got if got else ('missing, program died with signal %s' % r.sig if died else 'missing')}, "
                                            f"the same code at run time gives {wv}", "witness": dict(wit, block=k)})
                bump("blocks_judged")
                continue
            if model_bad:
                out["inconc"].append(f"{desc}: comptime == run time, but both differ from the python model: {model_bad[:2]}")
                continue
            bump("blocks_judged")
            bump("leaves_compared", len(want))
            out["ok"].append(m)
        if m["fx"]:
            ct_c, ct_r = count_lines(c.out + "\n" + c.err, f"CT-{k}."), count_lines(r.out, f"CT-{k}.")
            rt_c, rt_r = count_lines(c.out + "\n" + c.err, f"RT-{k}."), count_lines(r.out, f"RT-{k}.")
            if rt_r != 1:
                out["inconc"].append(f"{desc}: the run-time marker RT-{k}. was printed {rt_r} times (harness expectation 1)")
                continue
            bump("side_effect_blocks_judged")
            bump(f"compile_time_marker_count_{min(ct_c, 3)}{'+' if ct_c >= 3 else ''}")
            if rt_c:
                bump("run_time_marker_seen_in_compiler_output")
            if ct_r:
                out["viol"].append({"key": "side_effect_repeated", "sig": f"side_effect_repeated|{m['placement']}",
                                    "what": f"{desc}: the comptime block's puts(\"CT-{k}.\") ran {ct_r} time(s) in the built program", "witness": dict(wit, block=k)})
            elif ct_c < 1:
                out["viol"].append({"key": "side_effect_missing", "sig": f"side_effect_missing|{m['placement']}",
                                    "what": f"{desc}: the comptime block's puts(\"CT-{k}.\") never ran while compiling", "witness": dict(wit, block=k)})
            elif m["kind"] == "void":
                out["ok"].append(m)
    if crashed and not stopped and not out["viol"]:
        out["inconc"].append(f"program ended abnormally (rc={r.rc} sig={r.sig}, end marker {'seen' if ended else 'missing'}) without a block to blame")
    return out


MEM_BAD = re.compile(r"== (Invalid (?:read|write|free)[^\n]*|Mismatched free[^\n]*|Jump to the invalid address[^\n]*|Process terminating with[^\n]*)")
MEM_UNINIT_WRITE = re.compile(r"Syscall param write\(buf\) points to uninitialised")
MEM_UNINIT = re.compile(r"== (Conditional jump or move depends on uninitialised|Use of uninitialised value|Syscall param \S+ (?:points to|contains) uninitialised)")


def run_memcheck(d, files):
    R.write_files(d, files)
    shutil.rmtree(os.path.join(d, "out"), ignore_errors=True)
    cmd = ["valgrind", "-q", "--error-exitcode=97", "--leak-check=no", C.CLI, "build", "main.capy", "--mod-dir", C.REPO, "--no-exec", "--color", "never"]
    return C.run_proc(cmd, cwd=d, cpu_s=600, wall_s=1500, mem_gb=None)


def mem_frame(err, start):
    """first symbol of the compiler under the report that starts at `start`"""
    for ln in err[start:].splitlines()[1:14]:
        m = re.search(r"(?:at|by) 0x[0-9A-F]+: (.+?) \(in [^)]*capy\)", ln)
        if m and not m.group(1).startswith(("std::", "core::", "alloc::", "<alloc", "<core", "<std")):
            return re.sub(r"::h[0-9a-f]{16}", "", m.group(1))
    return "?"


def judge_memcheck(files, padfree, p):
    viol, inconc, cnt = [], [], {}
    wit = {"files": files, "kind": "memcheck", "padfree": padfree}
    if p.timed_out or p.cpu_exceeded or p.sig in EXTERNAL_SIGNALS:
        return viol, [f"memcheck watchdog (signal {p.sig})"], cnt
    if p.rc not in (0, 97) and not MEM_BAD.search(p.err):
        return viol, [f"memcheck run ended rc={p.rc} sig={p.sig}: {p.err[-300:]}"], cnt
    cnt["memcheck_runs"] = 1
    m = MEM_BAD.search(p.err)
    if m:
        kind = re.sub(r"\d+", "N", m.group(1))
        viol.append({"key": "memcheck", "sig": f"memcheck|{kind}|{mem_frame(p.err, m.start())}",
                     "what": f"memcheck reports `{m.group(1)}` inside the compiler while it evaluates comptime blocks:\n{p.err[m.start():m.start() + 900]}", "witness": wit})
        return viol, inconc, cnt
    cnt["memcheck_uninitialised_reports"] = len(MEM_UNINIT.findall(p.err))
    if MEM_UNINIT_WRITE.search(p.err):
        if padfree:
            viol.append({"key": "memcheck", "sig": "memcheck|uninitialised bytes written to the object file|padding-free results",
                         "what": "uninitialised bytes reach write(2) of the object file although every comptime result of the program is a scalar or an array of scalars "
                                 "(no padding that could explain them):\n" + p.err[:900], "witness": wit})
        else:
            # still observed after the result buffer was zeroed: the struct is copied out of a JIT stack slot whose padding was never written
            cnt["memcheck_uninitialised_write_with_padded_results"] = 1
    return viol, inconc, cnt


def run_job(job):
    kind, work, seed, idx = job[:4]
    try:
        if kind in ("prog", "tprog", "sprog"):
            files, metas = {"prog": make_program, "tprog": make_table_program, "sprog": make_str_program}[kind](seed, idx)
            d = os.path.join(work, f"{kind}{idx}")
            c = compile_retry(d, files)
            r = R.link_and_run(d, c.obj, cpu_s=10) if c.accepted else None
            res = judge_program(files, metas, c, r)
            keep = bool(res["viol"] or res["inconc"]) or idx < 4
            sample = None
            if idx < 4 and res["ok"]:
                m = res["ok"][0]
                sample = {"block": f"{m['shape']} / {m['placement']} / {m['mode']}", "features": m["feats"], "source": m.get("src"),
                          "observed_comptime": [e for e in (r.out.splitlines() if r else []) if e.split(" ")[1:2] and e.split(" ")[1].isdigit()
                                                and m["k"] * 1000 + 500 <= int(e.split(" ")[1]) < m["k"] * 1000 + 1000][:6],
                          "expected": [x[:3] for x in m["exp"][:6]]}
            shutil.rmtree(d, ignore_errors=True)
            return {"kind": kind, "idx": idx, "viol": res["viol"], "inconc": res["inconc"], "cnt": res["cnt"],
                    "ok": [(m["shape"], m["placement"], m["mode"], tuple(m["feats"]), m["kind"]) for m in res["ok"]], "sample": sample, "files": files if keep else None}
        if kind == "mem":
            padfree = idx % 2 == 0
            files, metas = make_program(seed, 1000000 + idx, nblocks=6, padfree=padfree)
            d = os.path.join(work, f"m{idx}")
            p = run_memcheck(d, files)
            viol, inconc, cnt = judge_memcheck(files, padfree, p)
            shutil.rmtree(d, ignore_errors=True)
            return {"kind": kind, "idx": idx, "viol": viol, "inconc": inconc, "cnt": cnt, "ok": [], "sample": None, "files": None}
        if kind in ("neg", "probe"):
            name, text = job[4]
            files = {"main.capy": NEG_HEAD + text + "\n"}
            d = os.path.join(work, f"{kind}_{name}")
            c = compile_retry(d, files)
            viol, inconc, cnt = judge_negative(kind, name, files, c)
            shutil.rmtree(d, ignore_errors=True)
            return {"kind": kind, "idx": idx, "viol": viol, "inconc": inconc, "cnt": cnt, "ok": [], "sample": None, "files": None}
    except C.Inconclusive as e:
        return {"kind": kind, "idx": idx, "viol": [], "inconc": [f"{kind} {idx}: {e}"], "cnt": {}, "ok": [], "sample": None, "files": None}
    raise ValueError(kind)


def judge_negative(kind, name, files, c):
    wit = {"files": files, "kind": kind, "name": name}
    if c.timed_out or c.cpu_exceeded or c.sig in EXTERNAL_SIGNALS:
        return [], [f"{kind} {name}: watchdog"], {}
    if c.internal_error:
        return [{"key": "internal_error", "sig": "internal_error|" + c.panic_sig(),
                 "what": f"{kind} program `{name}` ends in an internal compiler error: {c.brief()[:300]}", "witness": wit}], [], {f"{kind}_internal_error": 1}
    if kind == "probe":
        return [], [], {"probe_no_longer_crashes_" + ("accepted" if c.accepted else "rejected"): 1}
    if c.rejected and any(POINTER_DIAG in dk for dk in c.diag_kinds()):
        return [], [], {"negative_rejected_with_pointer_diagnostic": 1}
    if c.accepted:
        # the statement quantifies over accepted blocks only; an accepted pointer result is recorded, not judged
        return [], [], {"negative_accepted_" + name: 1}
    return [], [f"negative {name}: rejected for another reason: {c.diag_kinds()[:2]}"], {}


# --------------------------------------------------------------------------- driver

def run(tier, seed):
    t0 = time.time()
    C.build_cli()
    C.build_rt()
    work = C.fresh_dir("C04")
    nprog = 160 if tier == "quick" else 1600
    nmem = 6 if tier == "quick" else 32
    jobs = [("mem", work, seed, i) for i in range(nmem)]
    jobs += [("neg", work, seed, i, nt) for i, nt in enumerate(NEGATIVES)] + [("probe", work, seed, i, nt) for i, nt in enumerate(PROBES)]
    nspecial = 12 if tier == "quick" else 120
    jobs += [("tprog", work, seed, i) for i in range(nspecial)] + [("sprog", work, seed, i) for i in range(nspecial)]
    jobs += [("prog", work, seed, i) for i in range(nprog)]
    results = C.pmap(run_job, jobs)
    viol, inconc, samples, cnt, distinct = [], [], [], {}, set()
    evals = 0
    kinds_seen, place_seen = {}, {}
    for res in results:
        for k, v in res["cnt"].items():
            cnt[k] = cnt.get(k, 0) + v
        viol += res["viol"]
        inconc += [f"{res['kind']} {res['idx']}: {s}" for s in res["inconc"]]
        if res["kind"] in ("prog", "tprog", "sprog"):
            pk = {"prog": "programs", "tprog": "table_programs", "sprog": "str_reread_programs"}[res["kind"]]
            cnt[pk] = cnt.get(pk, 0) + 1
            evals += res["cnt"].get("blocks_judged", 0) + res["cnt"].get("side_effect_blocks_judged", 0)
            for shp, pl, mode, feats, kind in res["ok"]:
                distinct.add((shp, pl, mode, feats))
                kinds_seen[kind] = kinds_seen.get(kind, 0) + 1
                place_seen[pl] = place_seen.get(pl, 0) + 1
            if any(v["key"] == "internal_error" for v in res["viol"]):
                evals += 1
            if res["sample"] and sum(1 for x in samples if x["family"] == res["kind"]) < (2 if res["kind"] == "prog" else 1):
                samples.append(dict(res["sample"], family=res["kind"]))
        else:
            evals += 1 if (res["viol"] or not res["inconc"]) else 0
    cnt.update({f"result_kind_{k}": v for k, v in sorted(kinds_seen.items())})
    cnt.update({f"placement_{k}": v for k, v in sorted(place_seen.items())})
    pinned, notes = R.pinned_internal_errors("C04", work)
    viol += pinned
    seen, uniq = {}, []
    # report, per signature, the violation with the smallest program
    viol.sort(key=lambda v: sum(len(t) for t in ((v.get("witness") or {}).get("files") or {}).values()))
    for v in viol:
        s = v["key"] + "|" + v["sig"]
        if s not in seen:
            seen[s] = 0
            uniq.append(v)
        seen[s] += 1
    for v in uniq:
        n = seen[v["key"] + "|" + v["sig"]]
        if n > 1:
            v["what"] += f"  [{n} violations with this signature in this run]"
    if len(viol) > len(uniq):
        notes.append(f"{len(viol) - len(uniq)} further violations share a signature with a reported one: " +
                     ", ".join(f"{k} x{n}" for k, n in sorted(seen.items()) if n > 1)[:600])
    if cnt.get("memcheck_uninitialised_write_with_padded_results"):
        notes.append("memcheck: undefined padding bytes of struct results still reach write(2) of the object file (copied from a JIT stack slot into the zeroed "
                     "result buffer); padding is not constrained by C04, only counted")
    rep = {"evaluations": evals, "distinct_nontrivial": len(distinct), "violations": uniq, "samples": samples, "counters": cnt, "notes": notes,
           "exhaustive": False, "dropped_violations": len(viol) - len(uniq)}
    return C.finish("C04", tier, seed, t0, "exploration", rep, ASSUME, RULE, min_evals=500 if tier == "quick" else 5000, inconclusive=inconc)


def replay(path):
    w = json.load(open(os.path.join(path, "witness.json")))
    wit = w.get("witness") or {}
    files = wit.get("files")
    if not files:
        print(json.dumps(w, indent=1)[:3000])
        return run("quick", 0)
    C.build_cli()
    C.build_rt()
    work = C.fresh_dir("C04", "replay")
    d = os.path.join(work, "case")
    kind = wit.get("kind", "program")
    print(f"recorded: {w.get('key')} / {w.get('sig')}\n  {str(w.get('what'))[:600]}")
    viol, inconc = [], []
    if kind == "memcheck":
        p = run_memcheck(d, files)
        viol, inconc, _ = judge_memcheck(files, wit.get("padfree", False), p)
    elif kind in ("neg", "probe"):
        c = R.compile_capy(d, files)
        print(c.brief()[:1200])
        viol, inconc, _ = judge_negative(kind, wit.get("name"), files, c)
    elif wit.get("metas"):
        c = R.compile_capy(d, files)
        r = R.link_and_run(d, c.obj, cpu_s=10) if c.accepted else None
        res = judge_program(files, wit["metas"], c, r)
        viol, inconc = res["viol"], res["inconc"]
        if wit.get("block") is not None:
            k = wit["block"]
            print(f"--- compiler output (tail)\n{c.brief()[-600:]}")
            if r is not None:
                print(f"--- program rc={r.rc} sig={r.sig}; events of block {k}:")
                for ln in r.out.splitlines():
                    p = ln.split(" ")
                    if len(p) > 1 and p[1].lstrip("-").isdigit() and k * 1000 <= int(p[1]) < (k + 1) * 1000:
                        print("   ", ln[:200])
    else:
        c = R.compile_capy(d, files)
        print(c.brief()[:1200])
        if c.internal_error:
            viol = [{"key": "internal_error", "sig": "internal_error|" + c.panic_sig(), "what": c.brief()[:300]}]
    shutil.rmtree(work, ignore_errors=True)
    same = [v for v in viol if v["key"] == w.get("key")] or viol
    if same:
        print(f"VIOLATION property=C04 replay={path}")
        print(f"  {same[0]['key']}: {same[0]['what'][:400]}")
        return 1
    if inconc:
        print(f"INCONCLUSIVE property=C04: {inconc[0]}")
        return 2
    print("the recorded violation does not reproduce on the current tree")
    return 0
