"""C19 — calls across the C boundary pass values intact (x86-64 System V, the host).

Workload: signatures with 0-8 parameters drawn from scalars (all integer widths up to 64 bit, isize/usize, f32, f64,
bool, char, `^i32`, `?^i32`) and flat structs of 1-5 scalar/array fields (1-64 bytes, mixed INTEGER/SSE eightbytes),
plus a return type from the same pool or void.  A fixed core set (every eightbyte shape, register exhaustion, sret)
is always run; the rest is random.  Every signature is exercised in both directions:

  A: capy calls an `extern` C function; the C function prints every parameter leaf it received (raw bytes), scribbles
     over its by-value struct copies and returns a constant; capy prints the bytes of what it got back and then the
     bytes of its own argument variables again (a by-value callee must not be able to change them).
  B: capy hands a capy function (named function or lambda) to an extern C function as a function pointer; C calls it
     with constants; the capy function prints every parameter leaf and returns a constant; C prints what it got back.

Monitor: stdout of the program (capy object from the real CLI linked with the generated C compiled by gcc -O0 and,
separately, -O2).  Oracle: the constants chosen by the generator, as bit patterns (written from the statement; the
python side never looks at capy's classification).  Every printed leaf carries a unique id so that a mismatch is
attributed to one signature, one parameter, one field.  Failing cases are re-run alone before they are reported.
"""
import json
import os
import struct
import time
from decimal import Decimal

from .. import common as C
from .. import capyrun as R

RULE = ("fixed core set (all one/two-eightbyte INTEGER/SSE shapes, sub-word structs, >16-byte structs, sret, 7+ integer and 9+ float "
        "register demands, structs passed after register exhaustion) plus random signatures with 0-8 parameters; every signature in both "
        "call directions, C side at gcc -O0 and -O2; one evaluation = one (signature, direction, opt level) whose every leaf was compared; "
        "non-trivial = at least one struct parameter/return or >6 INTEGER-class or >8 SSE-class register demands; "
        "distinct = distinct (direction, return class, parameter class tuple) with classes = scalar class+size / struct eightbyte classes+size")
ASSUME = ["host ABI is x86-64 System V and gcc implements it (gcc is the reference on both optimisation levels)",
          "flat structs only: capy lays out nested structs differently from C on purpose; 128-bit integers, varargs, enums and optionals of "
          "non-pointers have no C counterpart and are not generated",
          "capy bool is compared with uint8_t (0/1) and char with unsigned char (printable ASCII) on the C side; isize/usize with intptr_t/size_t",
          "the most negative value of a signed type cannot be written as a capy literal (`-128` is rejected for i8), so signed constants range over [min+1, max]",
          "float constants are dyadic rationals (exact decimal literals), incl. -0.0; NaN payloads cannot be written as literals and are not generated",
          "pointer values are observed as the index into a C array they point into (identity of the address), nil as -1",
          "a function-pointer type is always introduced through an alias (`Cb :: (..) -> R;`) and used as the first extern parameter "
          "(inline fn-pointer types in other positions are the subject of C06)"]

OPTS = ("-O0", "-O2")
SINGLES = 3        # mismatching cases per batch that are re-run alone to get a minimal witness (crashes / compile failures always are)
NCELLS = 16

# name -> (C type, size, class, struct fmt or None)
SC = {
    "i8": ("int8_t", 1, "I", "b"), "i16": ("int16_t", 2, "I", "h"), "i32": ("int32_t", 4, "I", "i"), "i64": ("int64_t", 8, "I", "q"),
    "isize": ("intptr_t", 8, "I", "q"),
    "u8": ("uint8_t", 1, "I", "B"), "u16": ("uint16_t", 2, "I", "H"), "u32": ("uint32_t", 4, "I", "I"), "u64": ("uint64_t", 8, "I", "Q"),
    "usize": ("size_t", 8, "I", "Q"),
    "f32": ("float", 4, "S", "f"), "f64": ("double", 8, "S", "d"),
    "bool": ("uint8_t", 1, "I", "B"), "char": ("unsigned char", 1, "I", "B"),
    "^i32": ("int32_t *", 8, "I", None), "?^i32": ("int32_t *", 8, "I", None),
}
SCALAR_NAMES = list(SC)
ARRAY_ELEMS = ["i8", "i16", "i32", "i64", "u8", "u16", "u32", "u64", "f32", "f64", "bool", "char", "isize", "usize"]
CHARS = [c for c in range(33, 127) if chr(c) not in "'\\\""]


# --------------------------------------------------------------------------- types
# scalar type: ("sc", name) ; struct type: ("st", (field, ...)) with field = ("sc", name) | ("arr", name, n)

def sc(n):
    return ("sc", n)


def st(*fields):
    out = []
    for f in fields:
        if isinstance(f, str):
            out.append(("sc", f))
        else:
            out.append(("arr", f[0], f[1]))
    return ("st", tuple(out))


def field_size_align(f):
    if f[0] == "sc":
        s = SC[f[1]][1]
        return s, s
    s = SC[f[1]][1]
    return s * f[2], s


def c_layout(t):
    """C layout of a flat struct: (offsets, size, align) by the natural-alignment rule of the psABI"""
    off, offs, al = 0, [], 1
    for f in t[1]:
        s, a = field_size_align(f)
        off = (off + a - 1) // a * a
        offs.append(off)
        off += s
        al = max(al, a)
    size = (off + al - 1) // al * al
    return offs, size, al


def classify(t):
    """psABI 3.2.3 classification of a flat struct: 'M' (memory) or one class letter per eightbyte"""
    offs, size, _ = c_layout(t)
    if size > 16:
        return "M"
    cls = [None] * ((size + 7) // 8)
    for f, o in zip(t[1], offs):
        n = f[2] if f[0] == "arr" else 1
        es, ec = SC[f[1]][1], SC[f[1]][2]
        for k in range(n):
            e = (o + k * es) // 8
            cls[e] = "I" if (cls[e] == "I" or ec == "I") else "S"
    return "".join(c or "N" for c in cls)


def ty_desc(t):
    """class descriptor used for the distinct count"""
    if t is None:
        return "v"
    if t[0] == "sc":
        return SC[t[1]][2].lower() + str(SC[t[1]][1])
    return "{" + classify(t) + str(c_layout(t)[1]) + "}"


def ty_str(t):
    if t is None:
        return "void"
    if t[0] == "sc":
        return t[1]
    return "{" + ",".join(f[1] if f[0] == "sc" else f"[{f[2]}]{f[1]}" for f in t[1]) + "}"


def sig_str(params, ret):
    return "(" + ", ".join(ty_str(p) for p in params) + ") -> " + ty_str(ret)


def reg_profile(params, ret):
    """simulate the psABI register assignment only to describe the case (counters / non-trivial rule), never as an oracle"""
    ints, sses = 6, 8
    want_i = want_s = 0
    info = {"sret": False, "stack_scalar": False, "struct_spilled": False, "struct_mem": False, "struct_regs": False, "struct_ret_regs": False, "has_struct": False}
    if ret is not None and ret[0] == "st":
        info["has_struct"] = True
        if classify(ret) == "M":
            info["sret"] = True
            ints -= 1
            want_i += 1
        else:
            info["struct_ret_regs"] = True
    for p in params:
        if p[0] == "sc":
            if SC[p[1]][2] == "I":
                want_i += 1
                if ints:
                    ints -= 1
                else:
                    info["stack_scalar"] = True
            else:
                want_s += 1
                if sses:
                    sses -= 1
                else:
                    info["stack_scalar"] = True
        else:
            info["has_struct"] = True
            c = classify(p)
            if c == "M":
                info["struct_mem"] = True
                continue
            ni, ns = c.count("I"), c.count("S")
            want_i += ni
            want_s += ns
            if ni <= ints and ns <= sses:
                ints -= ni
                sses -= ns
                info["struct_regs"] = True
            else:
                info["struct_spilled"] = True
    info["nontrivial"] = info["has_struct"] or want_i > 6 or want_s > 8
    return info


# --------------------------------------------------------------------------- values

def gen_scalar_value(rng, n):
    cty, size, cls, fmt = SC[n]
    if n == "bool":
        return rng.below(2)
    if n == "char":
        return rng.pick(CHARS)
    if n == "^i32":
        return rng.below(NCELLS)
    if n == "?^i32":
        return None if rng.chance(1, 3) else rng.below(NCELLS)
    if n in ("f32", "f64"):
        if rng.chance(1, 12):
            return rng.pick([0.0, -0.0, 1.0, -1.0])
        mant = 22 if n == "f32" else 50
        m = rng.range(1, (1 << mant) - 1) | 1
        e = rng.range(-12, 30) if n == "f32" else rng.range(-16, 40)
        v = float(m) * (2.0 ** e) / float(1 << (mant // 2))
        return -v if rng.chance(1, 2) else v
    bits = size * 8
    if n[0] == "u":
        lo, hi = 0, (1 << bits) - 1
    else:
        lo, hi = -(1 << (bits - 1)) + 1, (1 << (bits - 1)) - 1
    if rng.chance(1, 6):
        return rng.pick([lo, hi, 0, 1, hi - 1, lo + 1] + ([-1] if lo < 0 else []))
    return lo + rng.below(hi - lo + 1)


def gen_value(rng, t):
    if t[0] == "sc":
        return gen_scalar_value(rng, t[1])
    vals = []
    for f in t[1]:
        if f[0] == "sc":
            vals.append(gen_scalar_value(rng, f[1]))
        else:
            vals.append([gen_scalar_value(rng, f[1]) for _ in range(f[2])])
    return vals


def dec_lit(v):
    """exact decimal expansion of a dyadic float"""
    if v == 0.0:
        return "-0.0" if str(v).startswith("-") else "0.0"
    s = format(Decimal(v), "f")
    return s if "." in s else s + ".0"


def capy_scalar_lit(n, v):
    if n == "bool":
        return "true" if v else "false"
    if n == "char":
        return "'" + chr(v) + "'"
    if n in ("^i32", "?^i32"):
        return "nil" if v is None else f"c19_cell({v})"
    if n in ("f32", "f64"):
        return dec_lit(v)
    return str(v)


def c_scalar_lit(n, v):
    cty = SC[n][0]
    if n in ("^i32", "?^i32"):
        return "0" if v is None else f"&c19_cells[{v}]"
    if n == "f32":
        return float(v).hex() + "f"
    if n == "f64":
        return float(v).hex()
    if n in ("bool", "char"):
        return str(v)
    suffix = "ULL" if v >= 0 else "LL"
    return f"({cty})({v}{suffix})"


def capy_lit(t, v, names):
    if t[0] == "sc":
        return capy_scalar_lit(t[1], v)
    parts = []
    for i, (f, fv) in enumerate(zip(t[1], v)):
        if f[0] == "sc":
            parts.append(f"f{i} = {capy_scalar_lit(f[1], fv)}")
        else:
            parts.append(f"f{i} = {f[1]}.[" + ", ".join(capy_scalar_lit(f[1], x) for x in fv) + "]")
    return f"{names[t]}.{{ " + ", ".join(parts) + " }"


def c_lit(t, v):
    if t[0] == "sc":
        return c_scalar_lit(t[1], v)
    parts = []
    for f, fv in zip(t[1], v):
        if f[0] == "sc":
            parts.append(c_scalar_lit(f[1], fv))
        else:
            parts.append("{ " + ", ".join(c_scalar_lit(f[1], x) for x in fv) + " }")
    return "{ " + ", ".join(parts) + " }"


def scalar_hex(n, v):
    return struct.pack("<" + SC[n][3], v).hex()


def leaves(t, v, path):
    """[(kind, path, capy type name, nbytes, expected string)] kind X = raw bytes, P = pointer (index / -1), O = optional pointer"""
    def one(n, val, p):
        if n == "^i32":
            return ("P", p, n, 8, str(val))
        if n == "?^i32":
            return ("O", p, n, 8, "-1" if val is None else str(val))
        return ("X", p, n, SC[n][1], scalar_hex(n, val))
    if t[0] == "sc":
        return [one(t[1], v, path)]
    out = []
    for i, (f, fv) in enumerate(zip(t[1], v)):
        if f[0] == "sc":
            out.append(one(f[1], fv, f"{path}.f{i}"))
        else:
            out.append(("X", f"{path}.f{i}", f"[{f[2]}]{f[1]}", SC[f[1]][1] * f[2], "".join(scalar_hex(f[1], x) for x in fv)))
    return out


# --------------------------------------------------------------------------- signature generation

def gen_struct(rng):
    small = rng.chance(3, 5)
    for _ in range(200):
        nf = rng.range(1, 5)
        fields = []
        for _ in range(nf):
            if rng.chance(1, 4):
                e = rng.pick(ARRAY_ELEMS)
                fields.append(("arr", e, rng.range(1, 8)))
            else:
                fields.append(("sc", rng.weighted([(n, 3 if n in ("f32", "f64") else 1) for n in SCALAR_NAMES])))
        t = ("st", tuple(fields))
        size = c_layout(t)[1]
        if size > 64:
            continue
        if small and size > 16:
            continue
        return t
    return st("i32")


def gen_type(rng, struct_num=2, struct_den=5):
    if rng.chance(struct_num, struct_den):
        return gen_struct(rng)
    return sc(rng.pick(SCALAR_NAMES))


def gen_sig(rng):
    mode = rng.below(10)
    if mode < 6:
        n = rng.range(0, 8)
        params = [gen_type(rng) for _ in range(n)]
    elif mode < 8:      # integer register pressure
        n = rng.range(6, 8)
        ints = [x for x in SCALAR_NAMES if SC[x][2] == "I"]
        params = [gen_struct(rng) if rng.chance(1, 3) else sc(rng.pick(ints)) for _ in range(n)]
    else:               # sse register pressure
        n = rng.range(6, 8)
        fl = [st("f64", "f64"), st("f32", "f32"), st("f64", "f32"), st(("f32", 4)), st(("f64", 2)), st("f32", "f32", "f32"), st("f64", "i32"), st("i64", "f64")]
        params = [rng.pick(fl) if rng.chance(3, 5) else sc(rng.pick(["f32", "f64", "f64"])) for _ in range(n)]
        if rng.chance(1, 2):
            params[rng.below(n)] = gen_type(rng)
    r = rng.below(20)
    ret = None if r < 3 else gen_type(rng, 1, 2)
    if mode in (6, 7) and rng.chance(1, 2):
        # hidden struct-return pointer on top of the integer register pressure
        ret = rng.pick([st("i64", "i64", "i64"), st("f64", "f64", "f64"), st(("i32", 5)), st("i64", "f64", "i8"), st(("u8", 17)), st(("f32", 6))])
        k = rng.range(3, 5)
        params = [sc("i64") if i < k else p for i, p in enumerate(params)]
        params[k] = rng.pick([st("i64", "i64"), st("i64", "f64"), st("^i32", "i32"), st("i32", "i32", "i64")])
    return params, ret


I6 = ["i64", "i32", "u16", "i8", "usize", "^i32"]
CORE = [
    # single structs of every eightbyte shape, also returned
    ([st("f32", "f32")], st("f32", "f32")),
    ([st("f64", "i32")], st("f64", "i32")),
    ([st("i32", "f64")], st("i32", "f64")),
    ([st("u8", ("u8", 3))], st("u8", ("u8", 3))),
    ([st("i64", "i64", "i64")], st("i64", "i64", "i64")),
    ([st("f32")], st("f32")),
    ([st("f64")], st("f64")),
    ([st("i8")], st("i8")),
    ([st("i16", "i8")], st("i16", "i8")),
    ([st(("u8", 5))], st(("u8", 5))),
    ([st(("u16", 3))], st(("u16", 3))),
    ([st(("u8", 7))], st(("u8", 7))),
    ([st("i32", ("u8", 3))], st("i32", ("u8", 3))),
    ([st("f32", "f32", "f32")], st("f32", "f32", "f32")),
    ([st("f32", "i32", "f32")], st("f32", "i32", "f32")),
    ([st("f32", "f32", "i32")], st("f32", "f32", "i32")),
    ([st("f32", "f32", "f32", "f32")], st("f32", "f32", "f32", "f32")),
    ([st("i64", "f64")], st("i64", "f64")),
    ([st("f64", "i64")], st("f64", "i64")),
    ([st("i64", "i64")], st("i64", "i64")),
    ([st("f64", "f64")], st("f64", "f64")),
    ([st("f64", "f32")], st("f64", "f32")),
    ([st("i64", "i8")], st("i64", "i8")),
    ([st("i64", "i32", "i8")], st("i64", "i32", "i8")),
    ([st("f32", "u8")], st("u8", "f32")),
    ([st("^i32", "f32")], st("?^i32", "u8")),
    ([st("f64", "f64", "f64")], st("f64", "f64", "f64")),
    ([st(("f64", 4))], st(("f32", 16))),
    ([st(("i64", 8))], st(("u8", 64))),
    ([st("i64", "i64", "i8")], st("f64", "i64", "f32")),
    ([st("bool", "char", "i16", "f32")], st("char", "bool")),
    # scalars of every kind
    ([sc("i8"), sc("f32"), sc("bool"), sc("char"), sc("^i32"), sc("?^i32"), sc("?^i32"), sc("u16")], sc("f64")),
    ([sc("u8"), sc("i16"), sc("u32"), sc("isize"), sc("usize"), sc("f64"), sc("u64"), sc("i32")], sc("i8")),
    ([], None), ([], sc("bool")), ([], sc("^i32")), ([sc("?^i32")], sc("?^i32")), ([sc("char")], sc("char")), ([sc("f32")], sc("f32")),
    ([sc("u16")], sc("u16")), ([sc("i64")], sc("u32")),
    # integer register exhaustion
    ([sc("i64")] * 8, sc("i64")),
    ([sc(x) for x in I6] + [sc("i8"), sc("u16")], sc("i16")),
    ([sc("i64")] * 5 + [st("i64", "i64"), sc("i64"), sc("i64")], sc("i64")),
    ([sc("i64")] * 6 + [st("i32", "i32"), st("f32", "f32")], st("i64", "i64")),
    ([sc("i64")] * 6 + [st("i64", "f64"), sc("f64")], st("f64", "i64")),
    ([sc("i32")] * 6 + [st("u8", ("u8", 3)), sc("i8")], None),
    ([st("i64", "i64")] * 3 + [st("i64", "i64"), sc("i32")], st("i64", "i64")),
    ([st("i64", "i64"), st("i64", "i64"), sc("i64"), st("i64", "i64"), sc("i64"), sc("i64")], sc("i64")),
    # sret takes an integer register
    ([sc("i64")] * 6, st("i64", "i64", "i64")),
    ([sc("i64")] * 4 + [st("i64", "i64")], st("i64", "i64", "i64")),
    ([sc("i64")] * 5 + [st("i32", "f32")], st(("i32", 5))),
    ([st("i64", "i64", "i64"), sc("i32"), st("f32", "f32")], st("f64", "f64", "i8")),
    # sse register exhaustion
    ([st("f64", "f64")] * 4 + [sc("f64"), st("f32", "f32"), sc("f32")], sc("f64")),
    ([sc("f64")] * 7 + [st("f64", "f64")], st("f64", "f64")),
    ([sc("f32")] * 8, sc("f32")),
    ([st("f64", "f64")] * 3 + [sc("f64"), st("f64", "f64"), sc("f64"), sc("f64")], st("f32", "f32")),
    ([sc("f64")] * 8, st("f64", "i32")),
    ([st("f64", "i64")] * 6 + [st("f64", "i64"), st("f64", "f64")], sc("f64")),
    ([sc("f64")] * 8 + [], st("i64", "f64")),
    # interleavings of memory-class structs and registers
    ([st("i64", "i64", "i64"), sc("i8"), st(("u8", 17)), sc("f32"), st("f64", "f64", "f64"), sc("u16")], sc("i32")),
    ([sc("i8"), st("f32", "f32"), sc("f64"), st("i32", "f64"), sc("u16"), st("f64", "i32"), sc("f32"), st(("u8", 3))], st("f32", "i32", "f32")),
    ([st("i16", "i8"), st(("u8", 5)), st(("u16", 3)), st(("u8", 7)), st("i8"), st("u8", "u8"), st("i32", "u8"), st(("u8", 3))], st(("u8", 3))),
]


# --------------------------------------------------------------------------- case (one signature in one direction)

class Case:
    __slots__ = ("idx", "dirn", "params", "ret", "pvals", "rval", "lam", "origin")

    def to_json(self):
        return {"idx": self.idx, "dir": self.dirn, "sig": sig_str(self.params, self.ret), "origin": self.origin,
                "params": self.params, "ret": self.ret, "pvals": self.pvals, "rval": self.rval, "lambda": self.lam}


def make_case(idx, dirn, params, ret, rng, origin):
    c = Case()
    c.idx, c.dirn, c.params, c.ret, c.origin = idx, dirn, list(params), ret, origin
    c.pvals = [gen_value(rng, p) for p in params]
    c.rval = gen_value(rng, ret) if ret is not None else None
    c.lam = dirn == "B" and rng.chance(1, 2)
    return c


def class_key(c):
    return (c.dirn, ty_desc(c.ret), tuple(ty_desc(p) for p in c.params))


def build_program(cases):
    """-> (capy text, C text, expected {case slot: [(id, tagged value, label)]})"""
    cap_decl, cap_fns, cap_main = [], [], []
    c_decl, c_fns = [], []
    expected = {}
    for k, cs in enumerate(cases):
        base = (k + 1) * 1000
        names = {}
        for t in cs.params + ([cs.ret] if cs.ret is not None else []):
            if t[0] == "st" and t not in names:
                nm = f"S{k}_{len(names)}"
                names[t] = nm
                cap_decl.append(f"{nm} :: struct {{ " + ", ".join(
                    (f"f{i}: {f[1]}" if f[0] == "sc" else f"f{i}: [{f[2]}]{f[1]}") for i, f in enumerate(t[1])) + " };")
                c_decl.append(f"struct {nm} {{ " + " ".join(
                    (f"{SC[f[1]][0]} f{i};" if f[0] == "sc" else f"{SC[f[1]][0]} f{i}[{f[2]}];") for i, f in enumerate(t[1])) + " };")

        def capy_ty(t):
            return "void" if t is None else (t[1] if t[0] == "sc" else names[t])

        def c_ty(t):
            return "void" if t is None else (SC[t[1]][0] if t[0] == "sc" else f"struct {names[t]}")

        exp = [(base + 999, "E", "callee entered")]
        pleaves = []
        n = 0
        for i, (p, v) in enumerate(zip(cs.params, cs.pvals)):
            for lf in leaves(p, v, f"a{i}"):
                pleaves.append((base + n, lf))
                n += 1
        rleaves = []
        n = 0
        if cs.ret is not None:
            for lf in leaves(cs.ret, cs.rval, "r"):
                rleaves.append((base + 500 + n, lf))
                n += 1
        for i_d, lf in pleaves:
            exp.append((i_d, ("X " if lf[0] == "X" else "P ") + lf[4], f"parameter {lf[1]} ({lf[2]}) as received by the callee"))
        for i_d, lf in rleaves:
            exp.append((i_d, ("X " if lf[0] == "X" else "P ") + lf[4], f"return value {lf[1]} ({lf[2]}) as received by the caller"))

        def capy_print(i_d, lf):
            if lf[0] == "X":
                return f"vr_bytes({i_d}, rawptr.(^{lf[1]}), {lf[3]});"
            return f"c19_pp({i_d}, {lf[1]});" if lf[0] == "P" else f"c19_po({i_d}, {lf[1]});"

        def c_print(i_d, lf):
            if lf[0] == "X":
                return f"c19_pb({i_d}, &{lf[1]}, sizeof {lf[1]});"
            return f"c19_pp({i_d}, {lf[1]});"

        plist_capy = ", ".join(f"a{i}: {capy_ty(p)}" for i, p in enumerate(cs.params))
        plist_c = ", ".join(f"{c_ty(p)} a{i}" for i, p in enumerate(cs.params)) or "void"
        args = ", ".join(f"a{i}" for i in range(len(cs.params)))
        if cs.dirn == "A":
            cap_decl.append(f"fa{k} :: ({plist_capy}) -> {capy_ty(cs.ret)} extern;")
            body = [f"    a{i} : {capy_ty(p)} = {capy_lit(p, v, names)};" for i, (p, v) in enumerate(zip(cs.params, cs.pvals))]
            if cs.ret is None:
                body.append(f"    fa{k}({args});")
            else:
                body.append(f"    r := fa{k}({args});")
                body += ["    " + capy_print(i_d, lf) for i_d, lf in rleaves]
            # the caller's own argument variables after the call (the callee scribbled over its copies)
            for i_d, lf in pleaves:
                body.append("    " + capy_print(i_d + 700 - 0, lf))
                exp.append((i_d + 700, ("X " if lf[0] == "X" else "P ") + lf[4], f"caller's variable {lf[1]} ({lf[2]}) after the by-value call"))
            cap_fns.append(f"case{k} :: () {{\n" + "\n".join(body) + "\n    vr_flush();\n}")
            cb = [f"{c_ty(cs.ret)} fa{k}({plist_c}) {{", f"    c19_pe({base + 999});"]
            cb += ["    " + c_print(i_d, lf) for i_d, lf in pleaves]
            cb += [f"    c19_scribble(&a{i}, sizeof a{i});" for i, p in enumerate(cs.params) if p[0] == "st"]
            if cs.ret is not None:
                cb.append(f"    {c_ty(cs.ret)} r = {c_lit(cs.ret, cs.rval)};")
                cb.append("    return r;")
            cb.append("}")
            c_fns.append("\n".join(cb))
        else:
            cap_decl.append(f"Cb{k} :: ({plist_capy}) -> {capy_ty(cs.ret)};")
            cap_decl.append(f"call{k} :: (cb: Cb{k}) extern;")
            body = [f"    vr_ev({base + 999});"] + ["    " + capy_print(i_d, lf) for i_d, lf in pleaves]
            if cs.ret is not None:
                body.append(f"    r : {capy_ty(cs.ret)} = {capy_lit(cs.ret, cs.rval, names)};")
                body.append("    r")
            fn_text = f"({plist_capy}) -> {capy_ty(cs.ret)} {{\n" + "\n".join(body) + "\n}"
            if cs.lam:
                ind = fn_text.replace("\n", "\n    ")
                cap_fns.append(f"case{k} :: () {{\n    call{k}({ind});\n    vr_flush();\n}}")
            else:
                cap_fns.append(f"cb{k} :: {fn_text}")
                cap_fns.append(f"case{k} :: () {{\n    call{k}(cb{k});\n    vr_flush();\n}}")
            ptys = ", ".join(c_ty(p) for p in cs.params) or "void"
            cb = [f"typedef {c_ty(cs.ret)} (*Cb{k})({ptys});", f"void call{k}(Cb{k} cb) {{"]
            cb += [f"    {c_ty(p)} a{i} = {c_lit(p, v)};" for i, (p, v) in enumerate(zip(cs.params, cs.pvals))]
            if cs.ret is None:
                cb.append(f"    cb({args});")
            else:
                cb.append(f"    {c_ty(cs.ret)} r = cb({args});")
                cb += ["    " + c_print(i_d, lf) for i_d, lf in rleaves]
            cb.append("}")
            c_fns.append("\n".join(cb))
        cap_main.append(f"    case{k}();")
        expected[k] = exp
    capy = (R.PRELUDE + "c19_pp :: (id: i64, p: ^i32) extern;\nc19_po :: (id: i64, p: ?^i32) extern;\nc19_cell :: (k: i64) -> ^i32 extern;\n\n"
            + "\n".join(cap_decl) + "\n\n" + "\n\n".join(cap_fns) + "\n\nmain :: () -> i32 {\n" + "\n".join(cap_main) + "\n    0\n}\n")
    ctext = C_PRELUDE + "\n".join(c_decl) + "\n\n" + "\n\n".join(c_fns) + "\n"
    return capy, ctext, expected


C_PRELUDE = """#include <stdint.h>
#include <stddef.h>
#include <stdio.h>
#include <string.h>
int32_t c19_cells[%d];
int32_t *c19_cell(int64_t k) { return &c19_cells[k]; }
static void c19_pb(long id, const void *p, size_t n) {
    printf("X %%ld ", id);
    for (size_t i = 0; i < n; i++) printf("%%02x", ((const unsigned char *)p)[i]);
    printf("\\n");
}
static void c19_pe(long id) { printf("E %%ld\\n", id); }
void c19_pp(int64_t id, int32_t *p) { printf("P %%ld %%ld\\n", (long)id, p ? (long)(p - c19_cells) : -1L); }
void c19_po(int64_t id, int32_t *p) { printf("P %%ld %%ld\\n", (long)id, p ? (long)(p - c19_cells) : -1L); }
/* the callee owns its by-value copies: overwrite them (not removable by the optimiser) */
__attribute__((noinline)) static void c19_scribble(void *p, size_t n) { memset(p, 0xEE, n); __asm__ volatile("" : : "r"(p) : "memory"); }

""" % NCELLS


def parse_out(out):
    obs = {}
    for line in out.splitlines():
        parts = line.split(" ", 2)
        if len(parts) >= 2 and parts[0] in ("X", "P", "E") and parts[1].lstrip("-").isdigit():
            val = parts[0] if parts[0] == "E" else parts[0] + " " + (parts[2] if len(parts) > 2 else "")
            obs.setdefault(int(parts[1]), []).append(val)
    return obs


def judge(exp, obs):
    """-> None (all leaves as expected) or (label, id, expected, observed)"""
    for i_d, val, label in exp:
        got = obs.get(i_d)
        if got is None:
            return (label, i_d, val, "<nothing printed>")
        if len(got) != 1:
            return (label, i_d, val, f"printed {len(got)} times: {got[:3]}")
        if got[0] != val:
            return (label, i_d, val, got[0])
    return None


def run_program(d, cases):
    """compile + link + run one program holding `cases`; -> dict with per-case verdicts per opt level"""
    os.makedirs(d, exist_ok=True)
    capy, ctext, expected = build_program(cases)
    res = {"files": {"main.capy": capy, "c19.c": ctext}, "compile": None, "verdicts": {}, "infra": []}
    c = R.compile_capy(d, {"main.capy": capy})
    res["compile"] = c
    if c.timed_out:
        res["infra"].append("capy watchdog")
        return res
    if not c.accepted:
        return res
    with open(os.path.join(d, "c19.c"), "w") as fh:
        fh.write(ctext)
    for opt in OPTS:
        cobj = os.path.join(d, f"c19{opt}.o")
        g = C.run_proc(["gcc", opt, "-std=gnu11", "-w", "-c", "c19.c", "-o", cobj], cwd=d, cpu_s=60, mem_gb=8)
        if g.rc != 0:
            res["infra"].append(f"gcc {opt} failed: {g.err[-400:]}")
            continue
        r = R.link_and_run(d, c.obj, extra_objs=[cobj], exe_name="prog" + opt)
        if r.link_failed:
            res["infra"].append(f"link failed ({opt}): {r.link_err[-400:]}")
            continue
        if r.timed_out:
            res["infra"].append(f"program watchdog ({opt})")
            continue
        obs = parse_out(r.out)
        died = bool(r.sig) or r.rc != 0
        for k in range(len(cases)):
            bad = judge(expected[k], obs)
            if bad is None:
                v = ("ok",)
            elif died and bad[3] == "<nothing printed>":
                v = ("crash", f"program ended with rc={r.rc} signal={r.sig} before printing {bad[0]} (id {bad[1]})", r.out[-600:])
            else:
                v = ("mismatch", bad, r.out)
            res["verdicts"].setdefault(k, {})[opt] = v
    return res


def relevant_lines(out, k):
    lo, hi = (k + 1) * 1000, (k + 2) * 1000
    keep = []
    for line in out.splitlines():
        p = line.split(" ", 2)
        if len(p) >= 2 and p[1].lstrip("-").isdigit() and lo <= int(p[1]) < hi:
            keep.append(line)
    return keep[:80]


def run_job(job):
    """job = (dir, [Case]); -> list of per-case outcomes {case, evals, violation?, inconclusive?}"""
    d, cases = job
    try:
        return _run_job(d, cases)
    except C.Inconclusive as e:
        return [{"case": cs, "evals": 0, "inconclusive": f"harness: {e}"} for cs in cases]


def _run_job(d, cases):
    first = run_program(os.path.join(d, "batch"), cases)
    out = []
    budget = SINGLES
    first_bad = {}
    for k in sorted(first["verdicts"]):
        for opt, v in first["verdicts"][k].items():
            if v[0] != "ok":
                first_bad.setdefault(opt, k)
    for k, cs in enumerate(cases):
        o = {"case": cs, "evals": 0}
        comp = first["compile"]
        vs = first["verdicts"].get(k, {})
        if comp is not None and comp.accepted and vs and all(v[0] == "ok" for v in vs.values()):
            o["evals"] = len(vs)
            if len(vs) < len(OPTS):
                o["inconclusive"] = "; ".join(first["infra"])[:300]
            out.append(o)
            continue
        if comp is not None and comp.accepted and not vs:
            o["inconclusive"] = "; ".join(first["infra"])[:300] or "no verdict"
            out.append(o)
            continue
        name = f"direction {cs.dirn} {sig_str(cs.params, cs.ret)}"
        if comp is not None and comp.accepted and all(v[0] != "crash" for v in vs.values()):
            if budget <= 0:
                # ids attribute the mismatch to this case; report it from the batch without the minimising re-run
                opt, v = [(a, b) for a, b in sorted(vs.items()) if b[0] != "ok"][0]
                label, i_d, want, got = v[1]
                o["violation"] = {"key": "value_mismatch", "sig": f"value_mismatch|{cs.dirn}|{sig_str(cs.params, cs.ret)}|{label.split(' (')[0]}",
                                  "what": f"{name} (C side gcc {opt}, slot {k} of a batch): {label}: expected `{want}`, observed `{got}` (id {i_d})",
                                  "witness": {"files": first["files"], "case": cs.to_json(), "slot": k, "observed": relevant_lines(v[2], k)}}
                o["evals"] = len(vs)
                out.append(o)
                continue
            budget -= 1
        # something is off for this case (or the batch did not compile): run it alone
        single = run_program(os.path.join(d, f"single{k}"), [cs])
        sc_ = single["compile"]
        wit = {"files": single["files"], "case": cs.to_json()}
        if sc_.timed_out:
            o["inconclusive"] = f"capy watchdog on {name}"
        elif sc_.internal_error:
            o["violation"] = {"key": "internal_error", "sig": "internal_error|" + sc_.panic_sig(),
                              "what": f"capy ends in an internal compiler error on {name}: {sc_.brief()[-300:]}", "witness": wit}
        elif not sc_.accepted:
            o["inconclusive"] = f"capy rejected the generated program for {name} (generator outside the accepted language?): {sc_.brief()[-300:]}"
        else:
            sv = single["verdicts"].get(0, {})
            bad = [(opt, v) for opt, v in sorted(sv.items()) if v[0] != "ok"]
            if bad:
                opt, v = bad[0]
                wit["opt_levels_failing"] = [b[0] for b in bad]
                if v[0] == "crash":
                    o["violation"] = {"key": "crash", "sig": f"crash|{cs.dirn}|{sig_str(cs.params, cs.ret)}",
                                      "what": f"{name} (C side gcc {opt}): {v[1]}", "witness": dict(wit, output_tail=v[2])}
                else:
                    label, i_d, want, got = v[1]
                    o["violation"] = {"key": "value_mismatch", "sig": f"value_mismatch|{cs.dirn}|{sig_str(cs.params, cs.ret)}|{label.split(' (')[0]}",
                                      "what": f"{name} (C side gcc {opt}): {label}: expected `{want}`, observed `{got}` (id {i_d})",
                                      "witness": dict(wit, expected=[list(e) for e in build_program([cs])[2][0]], observed=relevant_lines(v[2], 0))}
                o["evals"] = len(sv)
            elif sv:
                # alone it is fine: the failure needs the neighbours of the batch; report the batch as it is
                # (a case that printed nothing because an EARLIER case of the batch killed the process is not to blame)
                bvs = [(opt, v) for opt, v in sorted(vs.items()) if v[0] == "mismatch" or (v[0] == "crash" and first_bad.get(opt) == k)]
                if bvs and comp is not None and comp.accepted:
                    opt, v = bvs[0]
                    detail = v[1] if v[0] == "crash" else f"{v[1][0]}: expected `{v[1][2]}`, observed `{v[1][3]}`"
                    o["violation"] = {"key": "value_mismatch" if v[0] == "mismatch" else "crash",
                                      "sig": f"{'value_mismatch' if v[0] == 'mismatch' else 'crash'}|batch_only|{cs.dirn}|{sig_str(cs.params, cs.ret)}",
                                      "what": f"{name} fails only when it runs after other calls in the same program (C side gcc {opt}, slot {k}): {detail}",
                                      "witness": {"files": first["files"], "case": cs.to_json(), "slot": k}}
                    o["evals"] = len(sv)
                elif comp is not None and comp.internal_error:
                    o["violation"] = {"key": "internal_error", "sig": "internal_error|" + comp.panic_sig(),
                                      "what": f"capy ends in an internal compiler error on a batch although every case compiles alone: {comp.brief()[-300:]}",
                                      "witness": {"files": first["files"]}}
                else:
                    o["evals"] = len(sv)
                    if len(sv) < len(OPTS):
                        o["inconclusive"] = "; ".join(single["infra"])[:300]
            else:
                o["inconclusive"] = "; ".join(single["infra"])[:300] or "no verdict"
        out.append(o)
    return out


# --------------------------------------------------------------------------- driver

def plan(tier, seed):
    rng = C.Rng(seed, 19)
    total = 150 if tier == "quick" else 6000
    sigs = [(p, r, "core") for p, r in CORE]
    while len(sigs) < total:
        p, r = gen_sig(rng)
        sigs.append((p, r, "random"))
    cases = []
    for i, (p, r, origin) in enumerate(sigs):
        for dirn in ("A", "B"):
            cases.append(make_case(len(cases), dirn, p, r, C.Rng(seed, 1900000 + len(cases)), origin))
    return len(sigs), cases


def run(tier, seed):
    t0 = time.time()
    C.build_cli()
    C.build_rt()
    work = C.fresh_dir("C19")
    nsigs, cases = plan(tier, seed)
    batch = max(8, min(20, -(-len(cases) // C.NCPU)))   # one round of programs per core in the quick tier
    jobs = [(os.path.join(work, f"b{i // batch}"), cases[i:i + batch]) for i in range(0, len(cases), batch)]
    results = C.pmap(run_job, jobs)
    viol, inconc, samples = [], [], []
    keys, keys_all = set(), set()
    counters = {"signatures": nsigs, "cases_direction_A": 0, "cases_direction_B": 0, "programs": len(jobs), "lambda_callbacks": 0,
                "cases_with_struct": 0, "cases_sret_return": 0, "cases_struct_returned_in_registers": 0, "cases_struct_in_registers": 0,
                "cases_struct_in_memory_by_size": 0, "cases_struct_in_memory_by_register_exhaustion": 0, "cases_scalar_on_stack": 0,
                "cases_failing": 0, "leaves_compared": 0}
    evals = 0
    seen_sigs = set()
    for outs in results:
        for o in outs:
            cs = o["case"]
            if "inconclusive" in o and not o.get("evals"):
                inconc.append(f"{cs.dirn} {sig_str(cs.params, cs.ret)}: {o['inconclusive']}")
                continue
            if "inconclusive" in o:
                inconc.append(f"{cs.dirn} {sig_str(cs.params, cs.ret)}: {o['inconclusive']}")
            if "violation" in o:
                counters["cases_failing"] += 1
                v = o["violation"]
                if v["sig"] not in seen_sigs and len(viol) < 40:
                    seen_sigs.add(v["sig"])
                    viol.append(v)
                if v["key"] == "internal_error":
                    continue
            evals += o["evals"]
            prof = reg_profile(cs.params, cs.ret)
            counters["cases_direction_" + cs.dirn] += 1
            counters["lambda_callbacks"] += 1 if cs.lam else 0
            counters["cases_with_struct"] += prof["has_struct"]
            counters["cases_sret_return"] += prof["sret"]
            counters["cases_struct_returned_in_registers"] += prof["struct_ret_regs"]
            counters["cases_struct_in_registers"] += prof["struct_regs"]
            counters["cases_struct_in_memory_by_size"] += prof["struct_mem"]
            counters["cases_struct_in_memory_by_register_exhaustion"] += prof["struct_spilled"]
            counters["cases_scalar_on_stack"] += prof["stack_scalar"]
            nleaves = sum(len(leaves(p, v, "a")) for p, v in zip(cs.params, cs.pvals)) + (len(leaves(cs.ret, cs.rval, "r")) if cs.ret is not None else 0)
            counters["leaves_compared"] += o["evals"] * (nleaves * (2 if cs.dirn == "A" else 1) + 1)
            keys_all.add(class_key(cs))
            if prof["nontrivial"]:
                keys.add(class_key(cs))
            if len(samples) < 6 and prof["nontrivial"] and cs.origin == "random" and "violation" not in o:
                samples.append({"direction": cs.dirn, "signature": sig_str(cs.params, cs.ret), "classes": list(class_key(cs)[1:]),
                                "values_sent": json.loads(json.dumps(cs.pvals)), "value_returned": cs.rval, "verdict": "all leaves identical at -O0 and -O2"})
    counters["distinct_class_tuples_incl_trivial"] = len(keys_all)
    report = {"evaluations": evals, "distinct_nontrivial": len(keys), "violations": viol, "samples": samples, "counters": counters,
              "notes": ["one evaluation = (signature, direction, gcc opt level); leaves are scalar fields / whole array fields",
                        "direction A additionally re-reads the caller's argument variables after the C callee overwrote its by-value copies"],
              "exhaustive": False}
    return C.finish("C19", tier, seed, t0, "exploration", report, ASSUME, RULE,
                    min_evals=400 if tier == "quick" else 15000, inconclusive=inconc)


def _case_from_json(j):
    def tup(t):
        if t is None:
            return None
        if t[0] == "sc":
            return ("sc", t[1])
        return ("st", tuple(tuple(f) for f in t[1]))
    c = Case()
    c.idx, c.dirn, c.origin = j["idx"], j["dir"], j.get("origin", "replay")
    c.params = [tup(p) for p in j["params"]]
    c.ret = tup(j["ret"])
    c.pvals, c.rval, c.lam = j["pvals"], j["rval"], j.get("lambda", False)
    return c


def replay(path):
    w = json.load(open(os.path.join(path, "witness.json")))
    wit = w.get("witness") or {}
    C.build_cli()
    C.build_rt()
    work = C.fresh_dir("C19", "replay")
    print(f"replaying: {w.get('what')}")
    if wit.get("case") and "slot" not in wit:
        cs = _case_from_json(wit["case"])
        outs = _run_job(work, [cs])
        C.clean_work("C19")
        o = outs[0]
        if "violation" in o:
            print(f"  still fails: {o['violation']['what']}")
            print(f"VIOLATION property=C19 replay={path}")
            return 1
        if o.get("inconclusive"):
            print(f"INCONCLUSIVE property=C19: {o['inconclusive']}")
            return 2
        print("  the witness no longer fails")
        return 0
    files = wit.get("files")
    if not files:
        print(json.dumps(w, indent=1)[:3000])
        return run("quick", 0)
    c = R.compile_capy(work, {"main.capy": files["main.capy"]})
    print(f"  capy: accepted={c.accepted} internal_error={c.internal_error}\n{c.brief()[-600:]}")
    if c.internal_error:
        C.clean_work("C19")
        print(f"VIOLATION property=C19 replay={path}")
        return 1
    failing = False
    verdicts = 0
    if c.accepted and "c19.c" in files:
        exp = None
        if wit.get("case") and "slot" in wit:
            k = int(wit["slot"])
            exp = [(i_d + k * 1000, val, label) for i_d, val, label in build_program([_case_from_json(wit["case"])])[2][0]]
        open(os.path.join(work, "c19.c"), "w").write(files["c19.c"])
        for opt in OPTS:
            g = C.run_proc(["gcc", opt, "-std=gnu11", "-w", "-c", "c19.c", "-o", f"c19{opt}.o"], cwd=work, cpu_s=60, mem_gb=8)
            if g.rc != 0:
                continue
            r = R.link_and_run(work, c.obj, extra_objs=[os.path.join(work, f"c19{opt}.o")], exe_name="prog" + opt)
            if r.link_failed or r.timed_out:
                continue
            verdicts += 1
            bad = judge(exp, parse_out(r.out)) if exp is not None else None
            print(f"--- {opt}: rc={r.rc} sig={r.sig} " + (f"{bad[0]}: expected `{bad[2]}`, observed `{bad[3]}`" if bad else "no mismatch for the recorded case"))
            failing = failing or bad is not None or bool(r.sig)
    C.clean_work("C19")
    if failing:
        print(f"VIOLATION property=C19 replay={path}")
        return 1
    if not verdicts:
        print("INCONCLUSIVE property=C19: the witness could not be built")
        return 2
    print("  the witness no longer fails")
    return 0
