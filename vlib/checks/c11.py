"""C11 — switches are exhaustive, non-redundant and dispatch on the runtime variant.

Pass 1: every generated switch sits on one source line inside its own function; the CLI's diagnostics (with line
numbers) tell which switches are rejected. Pass 2: the accepted switches are built and each is executed once per
runtime variant of its scrutinee type (selected through VR_SEL/VR_ARG); every arm prints its id and the payload
it was bound to; the default arm re-identifies the whole value with #is_variant.
"""
import json
import os
import re
import time

from .. import common as C
from .. import capyrun as R

RULE = ("sum types: enums with 1..6 variants (payloads none/i64/u8/bool/struct/array, custom discriminants), optionals (?i64, ?u8, ?struct, ?^i64), error unions, "
        "each also behind a `distinct` wrapper; arm sets: arbitrary subsets, duplicates, shorthand and fully-qualified arms, foreign/unknown variants, with and "
        "without a default arm; acceptance judged per switch, accepted switches executed once per runtime variant; "
        "non-trivial = switch with >= 2 arms; distinct = distinct (type kind, wrapper, arm-set class, default) tuples; executions counted separately")
ASSUME = ["a default arm together with full coverage is accepted (the statement allows 'names all of them or has a default arm')",
          "the value bound in the default arm is identified with #is_variant against every variant"]

PAYLOADS = [None, "i64", "u8", "bool", "P", "[2]i32"]


class SumTy:
    def __init__(self, name, kind, variants, decl, wrapper=None):
        self.name, self.kind, self.variants, self.decl, self.wrapper = name, kind, variants, decl, wrapper
        # variants: list of dicts {name (arm spelling FQ), short (shorthand or None), payload, value, mk (expression building it)}


def payload_print(pid, payload, var):
    if payload is None or payload == "nil":
        return f"vr_ev({pid})"
    if payload in ("i64",):
        return f"vr_i64({pid}, i64.({var}))"
    if payload in ("u8", "bool"):
        return f"vr_i64({pid}, i64.({var}))"
    if payload == "P":
        return f"vr_i64({pid}, {var}.x)"
    if payload == "[2]i32":
        return f"vr_i64({pid}, i64.({var}[1]))"
    if payload == "^i64":
        return f"vr_i64({pid}, {var}^)"
    if payload == "Err":
        return f"vr_i64({pid}, {var}.code)"
    raise AssertionError(payload)


def payload_lit(payload, val):
    if payload == "i64":
        return str(val)
    if payload == "u8":
        return str(val % 200)
    if payload == "bool":
        return "true"
    if payload == "P":
        return f"P.{{ x = {val}, y = 1 }}"
    if payload == "[2]i32":
        return f"i32.[0, {val}]"
    raise AssertionError(payload)


def payload_expected(payload, val):
    if payload in (None, "nil"):
        return None
    if payload == "u8":
        return val % 200
    if payload == "bool":
        return 1
    return val


def gen_types(rng, n_enums):
    tys = []
    decls = ["P :: struct { x: i64, y: u8 };", "Err :: struct { code: i64 };", "TGT : i64 : 4242;"]
    for k in range(n_enums):
        nv = rng.range(1, 6)
        vs = []
        parts = []
        # discriminant styles: none, spread out explicit values, or explicit values packed into the range the automatic
        # ones would use (0..nv+1, in any order, before or after automatic variants), so that automatic numbering has
        # to step over one or several claimed values
        style = rng.pick(["auto", "spread", "packed", "packed", "packed_all"])
        packed = rng.sample(list(range(0, nv + 2)), nv)
        for i in range(nv):
            pl = rng.pick(PAYLOADS)
            vname = "V%d" % i
            disc = ""
            if style == "spread" and rng.chance(1, 3):
                disc = f" | {10 + i * 7}"
            elif style == "packed" and rng.chance(1, 2):
                disc = f" | {packed[i]}"
            elif style == "packed_all" and i > 0:
                disc = f" | {packed[i]}"
            parts.append(vname + (f": {pl}" if pl else "") + disc)
            val = 1000 * (k + 1) + i
            ename = f"E{k}"
            if pl is None:
                mk = f"{ename}.{vname}"
            elif pl == "P":
                mk = f"{ename}.{vname}.{{ x = {val}, y = 1 }}"
            else:
                mk = f"{ename}.{vname}.({payload_lit(pl, val)})"
            vs.append({"name": f"{ename}.{vname}", "short": "." + vname, "payload": pl, "value": val, "mk": mk})
        decls.append(f"E{k} :: enum {{ {', '.join(parts)} }};")
        tys.append(SumTy(f"E{k}", "enum", vs, None))
        if k % 2 == 0:
            decls.append(f"DE{k} :: distinct E{k};")
            tys.append(SumTy(f"DE{k}", "enum", vs, None, wrapper=f"E{k}"))
    # optionals
    for j, (sub, mkv, val) in enumerate([("i64", "77", 77), ("u8", "66", 66), ("P", "P.{ x = 55, y = 2 }", 55), ("^i64", "^TGT", 4242)]):
        vs = [{"name": sub, "short": None, "payload": sub, "value": val, "mk": mkv}, {"name": "nil", "short": None, "payload": "nil", "value": None, "mk": "nil"}]
        decls.append(f"O{j} :: ?{sub};")
        tys.append(SumTy(f"O{j}", "optional", vs, None))
        decls.append(f"DO{j} :: distinct ?{sub};")
        tys.append(SumTy(f"DO{j}", "optional", vs, None, wrapper=f"O{j}"))
    # error unions
    for j, (err, pay, mke, ev, mkp, pv) in enumerate([("Err", "i64", "Err.{ code = 31 }", 31, "32", 32), ("bool", "P", "true", 1, "P.{ x = 33, y = 3 }", 33)]):
        vs = [{"name": err, "short": None, "payload": err if err == "Err" else err, "value": ev, "mk": mke},
              {"name": pay, "short": None, "payload": pay, "value": pv, "mk": mkp}]
        decls.append(f"U{j} :: {err}!{pay};")
        tys.append(SumTy(f"U{j}", "errunion", vs, None))
        decls.append(f"DU{j} :: distinct {err}!{pay};")
        tys.append(SumTy(f"DU{j}", "errunion", vs, None, wrapper=f"U{j}"))
    decls.append("FX :: enum { Q, V0: i64 };")
    return decls, tys


def gen_switches(rng, tys, n):
    """returns list of dict(sid, ty, arms=[(variant index or 'foreign'/'unknown', spelling)], default, expect_accept, cls)"""
    out = []
    for sid in range(1, n + 1):
        t = rng.pick(tys)
        nv = len(t.variants)
        cls = rng.pick(["all", "all", "subset", "subset", "dup", "foreign", "unknown_short", "all_default", "empty_default", "empty"])
        idxs = list(range(nv))
        rng.shuffle(idxs)
        arms = []
        default = False
        if cls == "all":
            chosen = idxs
        elif cls == "all_default":
            chosen, default = idxs, True
        elif cls == "empty_default":
            chosen, default = [], True
        elif cls == "empty":
            chosen, default = [], False
        elif cls == "subset":
            chosen = idxs[: rng.range(0, max(0, nv - 1))]
            default = rng.chance(1, 2)
        elif cls == "dup":
            chosen = idxs[: rng.range(1, nv)]
            chosen = chosen + [chosen[0]]
            default = rng.chance(1, 2)
        else:
            chosen = idxs[: rng.range(0, nv)]
            default = rng.chance(1, 2)
        for i in chosen:
            v = t.variants[i]
            sp = v["short"] if (v["short"] and rng.chance(1, 2)) else v["name"]
            arms.append((i, sp))
        bad = False
        if cls == "foreign":
            arms.insert(rng.below(len(arms) + 1), ("foreign", "FX.Q" if t.kind == "enum" else "f64"))
            bad = True
        if cls == "unknown_short":
            if t.kind == "enum":
                arms.insert(rng.below(len(arms) + 1), ("unknown", ".Zzz"))
                bad = True
            else:
                cls = "subset"
        if t.variants[0]["payload"] == "^i64":
            # known finding C11-nullable-pointer-default: a default arm on an optional pointer panics codegen
            # (kept visible by the pinned repro); the generator stays away from it
            default = False
        named = [a for a, _ in arms if isinstance(a, int)]
        dup = len(named) != len(set(named))
        covered = set(named) == set(range(nv))
        accept = (not bad) and (not dup) and (covered or default)
        if not arms and not default:
            accept = False   # (an enum always has >= 1 variant)
        out.append({"sid": sid, "ty": t, "arms": arms, "default": default, "accept": accept,
                    "cls": (t.kind, bool(t.wrapper), cls if not dup else "dup", default, "accept" if accept else "reject")})
    return out


def switch_line(sw):
    t = sw["ty"]
    parts = []
    for k, (a, sp) in enumerate(sw["arms"]):
        pid = sw["sid"] * 100 + k + 1
        if isinstance(a, int):
            body = payload_print(pid, t.variants[a]["payload"], "v")
        else:
            body = f"vr_ev({pid})"
        parts.append(f"{sp} => {{ {body}; }}")
    if sw["default"]:
        did = sw["sid"] * 100 + 90
        probes = " ".join(f"if #is_variant(v, {v['name']}) {{ vr_ev({sw['sid'] * 100 + 50 + i}); }}" for i, v in enumerate(t.variants))
        parts.append(f"_ => {{ vr_ev({did}); {probes} }}")
    if not parts:
        return f"sw{sw['sid']} :: (e: {t.name}) {{ switch v in e {{}} }}"
    return f"sw{sw['sid']} :: (e: {t.name}) {{ switch v in e {{ {', '.join(parts)}, }} }}"


def mk_value(t, i, var):
    v = t.variants[i]
    base = t.wrapper or t.name
    s = f"{var}b : {base} = {v['mk']};"
    if t.wrapper:
        return s + f" {var} : {t.name} = {t.name}.({var}b);"
    return s + f" {var} := {var}b;"


def render(decls, switches):
    lines = R.PRELUDE.rstrip("\n").split("\n") + decls
    line_of = {}
    for sw in switches:
        lines.append(switch_line(sw))
        line_of[len(lines)] = sw
    lines.append("main :: () -> i32 {")
    lines.append("    sel := vr_sel(); arg := vr_arg();")
    for sw in switches:
        t = sw["ty"]
        for i in range(len(t.variants)):
            lines.append(f"    if sel == {sw['sid']} && arg == {i} {{ {mk_value(t, i, 'x')} sw{sw['sid']}(x); }}")
    lines.append("    0")
    lines.append("}")
    return "\n".join(lines) + "\n", line_of


ERR_AT = re.compile(r"--> at main\.capy:(\d+):(\d+)")


def run_group(job):
    name, decls, switches, work = job
    text, line_of = render(decls, switches)
    d = os.path.join(work, name)
    c1 = R.compile_capy(os.path.join(d, "p1"), {"main.capy": text}, cpu_s=60)
    if c1.timed_out:
        return name, "inconclusive", "watchdog", None
    if c1.internal_error:
        return name, "internal_error", (c1, text), None
    rejected = {}
    if not c1.accepted:
        blocks = c1.out.split("\nerror")
        for b in blocks:
            m = ERR_AT.search(b)
            if not m:
                continue
            ln = int(m.group(1))
            sw = line_of.get(ln)
            if sw is None:
                return name, "inconclusive", f"diagnostic on line {ln} which holds no switch: {b[:300]}", None
            rejected.setdefault(sw["sid"], []).append(b.strip().splitlines()[0][:120])
        if not rejected:
            return name, "inconclusive", "rejected without attributable diagnostics: " + c1.brief()[:300], None
    accepted = [s for s in switches if s["sid"] not in rejected]
    runs = {}
    text2 = None
    if accepted:
        text2, _ = render(decls, accepted)
        c2 = R.compile_capy(os.path.join(d, "p2"), {"main.capy": text2}, cpu_s=60)
        if c2.internal_error:
            return name, "internal_error", (c2, text2), None
        if not c2.accepted:
            return name, "inconclusive", "second pass rejected: " + c2.brief()[:300], None
        exe, err = R.link(os.path.join(d, "p2"), c2.obj)
        if exe is None:
            return name, "inconclusive", "link failed", None
        for sw in accepted:
            for i in range(len(sw["ty"].variants)):
                r = R.run_exe(exe, {"VR_SEL": sw["sid"], "VR_ARG": i})
                runs[(sw["sid"], i)] = r
    return name, "ok", (rejected, runs, text, text2), None


def run(tier, seed):
    t0 = time.time()
    C.build_cli()
    C.build_rt()
    work = C.fresh_dir("C11")
    rng = C.Rng(seed, 11)
    n_groups = 8 if tier == "quick" else 150
    per = 50 if tier == "quick" else 80
    jobs = []
    for g in range(n_groups):
        grng = C.Rng(seed, 1100 + g)
        decls, tys = gen_types(grng, 6)
        switches = gen_switches(grng, tys, per)
        jobs.append((f"g{g}", decls, switches, work))
    results = C.pmap(run_group, jobs)
    by_name = {j[0]: j for j in jobs}
    viol, inconc, samples, sigs = [], [], [], set()
    evals = execs = 0
    cnt = {}

    def add_v(key, sig, what, wit):
        cnt[key] = cnt.get(key, 0) + 1
        if cnt[key] <= 3:
            viol.append({"key": key, "sig": sig, "what": what, "witness": wit})

    for name, status, info, _ in results:
        if status == "inconclusive":
            inconc.append(f"{name}: {info}")
            continue
        if status == "internal_error":
            c, text = info
            add_v("internal_error", "internal_error|" + c.panic_sig(), f"switch group {name}: internal compiler error: {c.brief()[:300]}", {"files": {"main.capy": text}})
            continue
        rejected, runs, text, text2 = info
        for sw in by_name[name][2]:
            evals += 1
            t = sw["ty"]
            line = switch_line(sw)
            was_rej = sw["sid"] in rejected
            if len(sw["arms"]) + (1 if sw["default"] else 0) >= 2:
                sigs.add(sw["cls"])
            if sw["accept"] and was_rej:
                add_v("rejected_valid", f"rejected_valid|{sw['cls'][0]}|{sw['cls'][2]}|{rejected[sw['sid']][0][:60]}",
                      f"a valid switch over {t.kind}{' (distinct)' if t.wrapper else ''} is rejected: {rejected[sw['sid']][0]}", {"switch": line, "files": {"main.capy": text}})
                continue
            if not sw["accept"] and not was_rej:
                add_v("accepted_invalid", f"accepted_invalid|{sw['cls'][0]}|{sw['cls'][2]}|default={sw['default']}",
                      f"an invalid switch ({sw['cls'][2]}, default={sw['default']}) over {t.kind} is accepted", {"switch": line, "files": {"main.capy": text}})
                continue
            if was_rej:
                continue
            # dispatch: exactly the arm of the runtime variant runs, with the payload bound
            for i, v in enumerate(t.variants):
                r = runs.get((sw["sid"], i))
                if r is None:
                    continue
                execs += 1
                if r.timed_out:
                    inconc.append("run watchdog")
                    continue
                log = [(tag, ident, val) for tag, ident, val in R.parse_log(r.out) if tag in ("E", "I")]
                arm_k = next((k for k, (a, _) in enumerate(sw["arms"]) if a == i), None)
                if arm_k is not None:
                    pid = sw["sid"] * 100 + arm_k + 1
                    pv = payload_expected(v["payload"], v["value"])
                    want = [("E", pid, "")] if pv is None else [("I", pid, str(pv))]
                else:
                    want = [("E", sw["sid"] * 100 + 90, ""), ("E", sw["sid"] * 100 + 50 + i, "")]
                got = [(a, b, c.strip()) for a, b, c in log]
                if r.rc != 0 or got != want:
                    add_v("dispatch", f"dispatch|{t.kind}|{'distinct' if t.wrapper else 'plain'}|{'default' if arm_k is None else 'arm'}",
                          f"switch over {t.kind}{' (distinct)' if t.wrapper else ''} with runtime variant {v['name']}: expected events {want}, observed {got} (exit {r.rc}, signal {r.sig})",
                          {"switch": line, "variant": v["name"], "files": {"main.capy": text2}, "VR_SEL": sw["sid"], "VR_ARG": i})
                elif len(samples) < 5 and arm_k is None:
                    samples.append({"switch": line, "runtime_variant": v["name"], "observed": got})
    pinned, notes = R.pinned_internal_errors("C11", work)
    viol.extend(pinned)
    rep = {"evaluations": evals + execs, "distinct_nontrivial": len(sigs), "violations": viol, "samples": samples,
           "counters": {"switches_judged": evals, "executions": execs, **{f"violations_{k}": v for k, v in cnt.items()}}, "notes": notes, "exhaustive": False}
    return C.finish("C11", tier, seed, t0, "exploration", rep, ASSUME, RULE, min_evals=300, inconclusive=inconc)


def replay(path):
    w = json.load(open(os.path.join(path, "witness.json")))
    print(json.dumps({k: v for k, v in w.items() if k != "witness"}, indent=1))
    print((w.get("witness") or {}).get("switch"))
    return run("quick", 0)
