"""C22 — lexing is total and lossless (probe c22)."""
from ._probe_check import run_probe_check, replay_text

RULE = ("inputs: every string of length <= N over the 24-symbol alphabet (exhaustive; N=4 quick, 5 thorough), random "
        "unicode/token soups, corpus files and their byte mutations; non-trivial = lexes to >= 2 tokens, "
        "distinct = distinct sequences of the first 6 token kinds")
ASSUME = ["per-kind predicates are written from tokenizer.txt and the statement; which non-ASCII digits count as digits is left open",
          "maximal munch is not demanded; an empty comment body token is allowed"]


# the same check interpreted by Miri: the token-kind transmute in the lexer would be UB for an invalid discriminant
MIRI = {"quick": ["--maxlen", "1", "--random", "640", "--mutants", "16", "--corpusfiles", "1"],
        "thorough": ["--maxlen", "2", "--random", "8000", "--mutants", "320", "--corpusfiles", "2"], "shards": 16}


def run(tier, seed):
    return run_probe_check("C22", tier, seed, RULE, ASSUME, corpus=True, shards=8 if tier == "thorough" else 1, min_evals=100000, miri=MIRI)


def replay(path):
    return replay_text("C22", path)
