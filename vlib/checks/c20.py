"""C20 — results do not depend on the order of definitions or files.

Workload: generated accepted programs (vlib/c20_gen.py) of 3..12 interdependent globals + `main`: type aliases (to builtins, to each other, to
structs/enums), distinct types, comptime-computed types, structs (fields of the other types, arrays sized by consts), enums (payload types, discriminants
from u8 consts), consts (literals, references, comptime blocks that call functions), comptime-block globals (ints and struct values), functions (taking /
returning the types, calling each other, printing events), mutually recursive pairs, generics (comptime T / comptime n, instantiated from several places),
type-returning generics and their instantiations, function aliases. The canonical layout is one file in generation order. Variants: 6 permutations of
the definitions in one file and 4 partitions into 2..3 files `m0.capy`.. (references rewritten to `mK.name`, import lines added, cyclic imports whenever
dependencies go both ways, random entry file, permutations inside each file).
Monitor: for every layout the real CLI's verdict (accepted / rejected + diagnostics / internal error) and the linked executable's full output and exit
status. Oracle: every layout behaves like the canonical one, and the canonical one prints exactly what the python reference evaluation of the same
program computes.
"""
import json
import os
import re
import shutil
import time

from .. import common as C
from .. import capyrun as R
from .. import c20_gen as G
from .. import pipe as P

RULE = ("program = 3..12 globals of the kinds alias / distinct / comptime type / struct / enum / const / comptime global / fn / recursive pair / generic (comptime T, "
        "comptime n, identity) / type-returning generic + instantiation / fn alias, each referring to earlier ones with high probability, + main using every "
        "otherwise unused global; function bodies, main and struct fields also contain INLINE comptime blocks (array length with a store/read of the last "
        "element and `.len`, comptime argument of a generic, argument of a type-returning generic in a type annotation) that call plain, self- and mutually "
        "recursive functions and read consts; layouts per program: canonical, 6 permutations (reversed, main first, main last, every user before what it uses, 2 random; "
        "the extern prelude at the top or at the bottom), 4 partitions (random into 2, random into 3, by layer types/consts/functions, maximising cross-file "
        "edges; random entry file; in-file order random or canonical; imports of only the needed files or of all files). evaluations = layouts whose "
        "behaviour was compared (the canonical one against the python reference). non-trivial = layout in which at least one use textually precedes its "
        "definition or crosses a file; distinct = distinct (global-kind multiset, dependency-edge multiset by kind, layout kind) tuples among the non-trivial ones")
ASSUME = ["the README does not restrict the order of global definitions, nor which globals of an imported file may be used (no privacy), nor import cycles: every "
          "layout of an accepted program must be accepted",
          "the python reference assumes left-to-right evaluation of call arguments and operands (only observable through the event order of printing functions), "
          "64-bit wrapping-free arithmetic (all values < 2^60, `%` only on non-negative values), value-preserving casts (all cast values < 251 or < 1009 in "
          ">= 16-bit types); enums whose payloads are all integers (or absent) are also printed up to their tag byte (README: a u8 that comes after the payload; offset = largest payload size): only that "
          "last byte is compared, with the reference only when the discriminant is explicit",
          "every file that prints declares the extern printers itself (the same extern may be declared in several files)"]

EXTERNAL_SIGNALS = (2, 9, 15)
NPERM, NSPLIT = 6, 4


# --------------------------------------------------------------------------- layouts

def topo_users_first(p, rng):
    """an order in which, as far as the graph allows, every global comes before everything it refers to"""
    names = list(p.order)
    deps = {g: p.deps(g) & set(names) for g in names}
    users = {g: set() for g in names}
    for g in names:
        for d in deps[g]:
            if d != g:
                users[d].add(g)
    out, placed = [], set()
    while len(out) < len(names):
        ready = [g for g in names if g not in placed and users[g] <= placed]
        if not ready:      # a cycle (recursive pair): take any member
            ready = [g for g in names if g not in placed][:1]
        g = rng.pick(ready)
        out.append(g)
        placed.add(g)
    return out


def make_variants(p, rng):
    """-> list of {kind, files: {name: [global names in order]}, entry, prelude_bottom, import_all}"""
    names = list(p.order)
    others = [g for g in names if g != "main"]
    vs = []

    def one_file(kind, order, bottom):
        vs.append({"kind": kind, "files": {0: order}, "entry": 0, "prelude_bottom": bottom, "import_all": False})

    one_file("perm:reversed", names[::-1], True)
    one_file("perm:main_first", ["main"] + rng.shuffle(list(others)), rng.chance(1, 2))
    one_file("perm:main_last", rng.shuffle(list(others)) + ["main"], rng.chance(1, 2))
    one_file("perm:users_first", topo_users_first(p, rng), rng.chance(1, 2))
    for _ in range(NPERM - 4):
        one_file("perm:random", rng.shuffle(list(names)), rng.chance(1, 2))

    def split(kind, assign, shuffle_inside):
        # renumber so that file indices are dense, then rotate randomly: the entry file is wherever main lands
        used = sorted(set(assign.values()))
        rot = rng.below(3)
        remap = {u: (i + rot) % max(len(used), 1) for i, u in enumerate(used)}
        files = {}
        for g in names:
            files.setdefault(remap[assign[g]], []).append(g)
        for k in files:
            if shuffle_inside:
                rng.shuffle(files[k])
        vs.append({"kind": kind, "files": files, "entry": remap[assign["main"]], "prelude_bottom": rng.chance(1, 3), "import_all": rng.chance(1, 3)})

    def random_assign(nf):
        while True:
            a = {g: rng.below(nf) for g in names}
            if len(set(a.values())) == nf or len(names) < nf:
                return a

    split("split:random2", random_assign(2), True)
    split("split:random3", random_assign(min(3, len(names))), rng.chance(2, 3))
    layer = {"alias": 0, "distinct": 0, "cttype": 0, "struct": 0, "enum": 0, "tyinst": 0, "tygen": 0, "const": 1, "comptime": 1}
    a = {g: layer.get(p.kind[g], 2) for g in names}
    a["main"] = rng.below(3)
    if len(set(a.values())) < 2:
        a = random_assign(2)
    split("split:layers", a, rng.chance(1, 2))
    # maximise cross-file edges: every global goes to a file that holds as few of its neighbours as possible
    a = {}
    for g in rng.shuffle(list(names)):
        nb = [a[d] for d in p.deps(g) if d in a] + [a[u] for u in a if g in p.deps(u)]
        cost = [(sum(1 for x in nb if x == f), rng.below(100), f) for f in range(3)]
        a[g] = min(cost)[2]
    if len(set(a.values())) < 2:
        a = random_assign(2)
    split("split:maxcross", a, rng.chance(1, 2))
    return vs


def render(p, v):
    """-> ({file name: text}, entry file name, layout facts)"""
    where = {}
    for k, gs in v["files"].items():
        for g in gs:
            where[g] = k
    multi = len(v["files"]) > 1
    out = {}
    uses_before, cross = 0, 0
    imports_of = {}
    for k, gs in v["files"].items():
        need = sorted({where[d] for g in gs for d in p.deps(g)} - {k})
        if v["import_all"]:
            need = sorted(set(v["files"]) - {k})
        imports_of[k] = need
        pos = {g: i for i, g in enumerate(gs)}
        for g in gs:
            for d in p.deps(g):
                if where[d] != k:
                    cross += 1
                elif pos[d] > pos[g]:
                    uses_before += 1
        defs = [p.text[g] for g in gs]
        imps = [f'm{j} :: #import("m{j}.capy");' for j in need]
        # import lines are definitions too: they may stand anywhere in the file
        at = (v.get("imports_at") or {}).get(k) or [0] * len(imps)
        body = list(defs)
        for line, i in sorted(zip(imps, at), key=lambda x: -x[1]):
            body.insert(min(i, len(body)), line)
        text = G.render_file(body, k, where)
        if "vr_" in text:
            text = (text + R.PRELUDE) if v["prelude_bottom"] else (R.PRELUDE + text)
        out[f"m{k}.capy" if multi else "main.capy"] = text
    cyclic = any(k in imports_of.get(j, []) for k, js in imports_of.items() for j in js)
    entry = f"m{v['entry']}.capy" if multi else "main.capy"
    return out, entry, {"uses_before_def": uses_before, "cross_file_refs": cross, "cyclic_imports": cyclic, "files": len(out)}


def place_imports(p, v, rng):
    """random positions of the import lines inside each file (recorded in the variant so that it is reproducible)"""
    at = {}
    for k, gs in v["files"].items():
        at[k] = [rng.below(len(gs) + 1) if rng.chance(1, 2) else 0 for _ in range(3)]
    v["imports_at"] = at


# --------------------------------------------------------------------------- execution

def compile_retry(d, files, main):
    """the CLI binary is briefly absent while another check's build_cli() relinks it: wait instead of aborting the whole run"""
    for attempt in range(40):
        try:
            c = R.compile_capy(d, files, main=main)
        except C.Inconclusive:
            if attempt == 39:
                raise
            time.sleep(1.5)
            continue
        if c.sig in EXTERNAL_SIGNALS and not c.timed_out and attempt < 3:
            continue
        return c


class Obs:
    """what was observed for one layout"""

    def __init__(self, d, files, entry):
        self.files, self.entry = files, entry
        self.c = compile_retry(d, files, entry)
        self.r = None
        if self.c.accepted:
            self.r = R.link_and_run(d, self.c.obj)

    @property
    def infra(self):
        c, r = self.c, self.r
        if c.timed_out or c.cpu_exceeded or c.sig in EXTERNAL_SIGNALS:
            return f"compiler killed from outside / watchdog (signal {c.sig})"
        if c.accepted and (r is None or r.link_failed):
            return "accepted program did not link: " + (r.link_err[-200:] if r is not None else "")
        if r is not None and (r.timed_out or r.cpu_exceeded):
            return "executable hit the watchdog"
        if not (c.accepted or c.rejected or c.internal_error):
            return f"compiler gave no verdict (rc={c.rc})"
        return None

    def behaviour(self):
        return (norm(self.r.out), self.r.rc, self.r.sig)


def norm(out):
    """`X id bytes` lines print an enum value up to its tag byte: only the tag (last byte) is defined data, the rest may be padding"""
    return "\n".join((" ".join(l.split(" ")[:2] + [l.split(" ")[2][-2:]]) if l.startswith("X ") and l.count(" ") == 2 else l) for l in out.split("\n"))


def diag_shape(c):
    ds = c.diag_kinds()
    if not ds:
        return "no_diagnostic"
    s = re.sub(r"`[^`]*`", "`_`", ds[0])
    s = re.sub(r"\d+", "N", s)
    return s[:80]


def first_diff(a, b):
    la, lb = a.splitlines(), b.splitlines()
    for i, (x, y) in enumerate(zip(la, lb)):
        if x != y:
            return f"line {i + 1}: canonical `{x}` / variant `{y}`"
    if len(la) != len(lb):
        return f"canonical prints {len(la)} lines, variant {len(lb)}"
    return "same lines"


def compare_reference(p_log, p_rc, o):
    """canonical run against the python reference -> None or a description"""
    got = [(t, i, v.strip()) for t, i, v in R.parse_log(norm(o.r.out))]
    if len(got) != len(p_log):
        return f"{len(got)} events printed, the reference evaluation prints {len(p_log)}"
    for g, e in zip(got, p_log):
        if g[0] != e[0] or g[1] != e[1] or (e[2] is not None and g[2] != e[2]):
            return f"event {g[0]} {g[1]} = {g[2]}, the reference evaluation gives {e[0]} {e[1]} = {e[2]}"
    if o.r.sig or o.r.rc != p_rc:
        return f"exit status rc={o.r.rc} sig={o.r.sig}, the reference evaluation gives {p_rc}"
    return None


def wit(canon, var, vdesc, extra=None):
    files = {"canon/" + k: t for k, t in canon.files.items()}
    if var is not None:
        files.update({"var/" + k: t for k, t in var.files.items()})
    w = {"files": files, "canon_entry": canon.entry, "var_entry": var.entry if var is not None else None, "variant": vdesc}
    if extra:
        w.update(extra)
    return w


CT_LOCAL = re.compile(r"comptime \{ \w+ : ")
ANY_LOCAL = re.compile(r"[\s{]\s*\w+ :=? ")
UNRESOLVED = re.compile(r"has not yet been resolved|found !|found `!`")
VALUE_KINDS = ("const", "comptime", "cttype", "tyinst", "fnalias")


def triggers(p, v):
    """structural features of a layout that are known to trip capy (see known_findings.json); they become part of a violation's sig so that a
    registered finding cannot hide a failure of a layout that does not have the feature"""
    where = {g: k for k, gs in v["files"].items() for g in gs}
    out = []
    # an alias of another global (`T :: X;`, `T :: m1.X;`) referred to from a file other than its own
    for a in p.order:
        if p.kind[a] == "alias" and p.deps(a) and any(a in p.deps(u) and where[u] != where[a] for u in p.order):
            out.append("xfile_alias_of_global")
            break
    # code with a local (comptime block, function body) that reads, in another file, a comptime global whose block also has a local
    ct_local = {g for g in p.order if p.kind[g] in ("const", "comptime") and CT_LOCAL.search(p.text[g])}
    if any(d in ct_local and where[d] != where[g] for g in p.order if "{" in p.text[g] and ANY_LOCAL.search(p.text[g][p.text[g].index("{"):]) for d in p.deps(g)):
        out.append("xfile_comptime_locals")
    # a global that is not a function (comptime block, const, fn alias) and (transitively) refers to a recursive function
    rec = {g for g in p.order if p.kind[g] == "recfn"}
    if rec:
        reach = {g: set(p.deps(g)) for g in p.order}
        changed = True
        while changed:
            changed = False
            for g in p.order:
                new = set()
                for d in reach[g]:
                    new |= reach.get(d, set())
                if not new <= reach[g]:
                    reach[g] |= new
                    changed = True
        if any(p.kind[g] in VALUE_KINDS and reach[g] & rec for g in p.order):
            out.append("value_global_reaches_recursive_fn")
    return out


def with_triggers(sig, trig, symptom=""):
    """only the triggers that can explain the symptom are attached (in a fixed order)"""
    t = []
    if "xfile_alias_of_global" in trig:                 # the alias is evaluated in the wrong file: any symptom
        t.append("xfile_alias_of_global")
    if "xfile_comptime_locals" in trig and (sig.startswith("output_differs") or "Error defining function" in symptom):
        t.append("xfile_comptime_locals")
    if "value_global_reaches_recursive_fn" in trig and UNRESOLVED.search(symptom):
        t.append("value_global_reaches_recursive_fn")
    return sig + ("|trigger=" + ",".join(t) if t else "")


def judge_variant(canon, var, kind, facts, trig=()):
    """-> (verdict, violation | None, inconclusive text | None); canon is accepted and ran"""
    family = kind.split(":")[0]
    desc = f"{kind} {facts}" + (f" triggers={list(trig)}" if trig else "")
    if var.infra:
        return "inconc", None, f"{kind}: {var.infra}"
    c = var.c
    if c.internal_error:
        return "viol", {"key": "internal_error", "sig": with_triggers("internal_error|" + c.panic_sig(), trig, c.panic_sig()),
                        "what": f"the canonical layout is accepted, layout {desc} ends in an internal compiler error: {c.brief()[:300]}",
                        "witness": wit(canon, var, desc)}, None
    if c.rejected:
        return "viol", {"key": "variant_rejected", "sig": with_triggers(f"variant_rejected|{family}|{diag_shape(c)}", trig, " ".join(c.diag_kinds())),
                        "what": f"the canonical layout is accepted, layout {desc} is rejected: {c.diag_kinds()[:3]}", "witness": wit(canon, var, desc)}, None
    if var.behaviour() != canon.behaviour():
        return "viol", {"key": "output_differs", "sig": with_triggers(f"output_differs|{family}", trig),
                        "what": f"layout {desc} behaves differently from the canonical layout (exit {var.r.rc}/{var.r.sig} vs {canon.r.rc}/{canon.r.sig}; "
                                f"{first_diff(norm(canon.r.out), norm(var.r.out))})", "witness": wit(canon, var, desc)}, None
    return "ok", None, None


def schedule_shape(d, entry):
    """hook H2 (hir_ty::verif scheduling log, probe built with --cfg capy_verif): the sequence of scheduler events of one layout with every location replaced
    by a count (the log names globals by interner keys, which depend on the layout). Different shapes = certainly different inference schedules."""
    try:
        _, rep = P.run_pipeline(d, main=entry)
    except C.Inconclusive:
        return None
    if not rep or "sched" not in rep:
        return None
    shape = []
    for e in rep["sched"]:
        if e[0] == "round":
            shape.append(("round", bool(e[1]), len(e[2]), e[3]))
        elif e[0] == "deps":
            shape.append(("deps", len(e[2])))
        elif e[0] == "seed":
            shape.append(("seed", len(e[1])))
        else:
            shape.append((e[0],))
    return tuple(shape)


INLINE_CT = re.compile(r"[\[(,] ?comptime \{[^{}]*\}")


def inline_ct_users(p):
    """{global with an inline comptime block in its body or definition: the recursive functions that block calls}"""
    rec = [g for g in p.order if p.kind[g] == "recfn"]
    out = {}
    for g in p.order:
        if p.kind[g] in ("fn", "main", "struct"):
            blocks = INLINE_CT.findall(G.PH.sub(lambda m: "@" + m.group(1) + "@", p.text[g]))
            if blocks:
                out[g] = {r for r in rec if any(f"@{r}@" in b for b in blocks)}
    return out


def run_program(arg):
    work, seed, idx, probe = arg
    rng = C.Rng(seed, 20_000_000 + idx)
    p = G.generate(rng)
    variants = make_variants(p, rng)
    for v in variants:
        place_imports(p, v, rng)
    base = os.path.join(work, f"p{idx}")
    canon_v = {"kind": "canonical", "files": {0: list(p.order)}, "entry": 0, "prelude_bottom": False, "import_all": False}
    files, entry, _ = render(p, canon_v)
    canon = Obs(os.path.join(base, "canon"), files, entry)
    res = {"idx": idx, "shape": p.shape(), "nglobals": len(p.order) - 1, "viol": [], "inconc": [], "evals": 0, "nontrivial": [], "facts": [], "sample": None,
           "events": 0, "accepted_variants": 0, "inline_ct": 0, "inline_ct_rec": 0, "inline_ct_user_before_rec": 0}
    users = inline_ct_users(p)
    res["inline_ct"] = 1 if users else 0
    res["inline_ct_rec"] = 1 if any(users.values()) else 0
    obs = []
    # the canonical layout itself
    if canon.infra:
        res["inconc"].append(f"program {idx}: canonical: {canon.infra}")
        shutil.rmtree(base, ignore_errors=True)
        return res
    if canon.c.internal_error:
        res["evals"] += 1
        res["viol"].append({"key": "internal_error", "sig": "internal_error|" + canon.c.panic_sig(),
                            "what": f"internal compiler error on a generated program (canonical layout): {canon.c.brief()[:300]}", "witness": wit(canon, None, "canonical")})
        shutil.rmtree(base, ignore_errors=True)
        return res
    for i, v in enumerate(variants):
        f2, e2, facts = render(p, v)
        o = Obs(os.path.join(base, f"v{i}"), f2, e2)
        obs.append((v, o, facts))
    if canon.c.rejected:
        # a generator error unless some other layout of the same program is accepted (then acceptance depends on the layout)
        acc = [(v, o, facts) for v, o, facts in obs if o.c.accepted]
        if acc:
            v, o, facts = acc[0]
            res["evals"] += 1
            res["viol"].append({"key": "variant_rejected", "sig": f"variant_rejected|canonical|{diag_shape(canon.c)}",
                                "what": f"the canonical layout is rejected ({canon.c.diag_kinds()[:2]}) but layout {v['kind']} {facts} of the same program is accepted",
                                "witness": wit(canon, o, v["kind"])})
        else:
            ie = [(v, o) for v, o, _ in obs if o.c.internal_error]
            if ie:
                res["evals"] += 1
                res["viol"].append({"key": "internal_error", "sig": "internal_error|" + ie[0][1].c.panic_sig(),
                                    "what": f"internal compiler error on layout {ie[0][0]['kind']} (the canonical layout is rejected): {ie[0][1].c.brief()[:300]}",
                                    "witness": wit(canon, ie[0][1], ie[0][0]["kind"])})
            res["inconc"].append(f"program {idx}: generator error, every layout rejected: {canon.c.diag_kinds()[:2]}")
        shutil.rmtree(base, ignore_errors=True)
        return res
    # canonical accepted and ran: reference comparison
    res["evals"] += 1
    res["events"] = len(p.expected_log)
    why = compare_reference(p.expected_log, p.expected_rc, canon)
    if why:
        res["viol"].append({"key": "wrong_output", "sig": "expected_differs|canonical",
                            "what": f"the canonical layout does not behave like the reference evaluation of the program: {why}",
                            "witness": wit(canon, None, "canonical", {"expected_log": p.expected_log, "expected_rc": p.expected_rc})})
    for v, o, facts in obs:
        verdict, viol, inc = judge_variant(canon, o, v["kind"], facts, triggers(p, v))
        if verdict == "inconc":
            res["inconc"].append(f"program {idx}: {inc}")
            continue
        res["evals"] += 1
        res["facts"].append((v["kind"], facts))
        pos = {g: (k, i) for k, gs in v["files"].items() for i, g in enumerate(gs)}
        if any(pos[u][0] != pos[r][0] or pos[u][1] < pos[r][1] for u, rs in users.items() for r in rs):
            res["inline_ct_user_before_rec"] += 1
        if viol:
            res["viol"].append(viol)
            continue
        res["accepted_variants"] += 1
        if facts["uses_before_def"] or facts["cross_file_refs"]:
            res["nontrivial"].append(v["kind"] + ("+cyclic" if facts["cyclic_imports"] else ""))
    if probe:
        shapes = [schedule_shape(os.path.join(base, "canon"), canon.entry)] + [schedule_shape(os.path.join(base, f"v{i}"), o.entry) for i, (v, o, _) in enumerate(obs)]
        res["h2"] = (len([x for x in shapes if x is not None]), len({x for x in shapes if x is not None}))
    if idx < 3 and obs:
        v, o, facts = obs[-1 - idx]
        res["sample"] = {"program": idx, "globals": [f"{g}:{p.kind[g]}" for g in p.order], "layout": v["kind"], "facts": facts, "entry": o.entry,
                         "files": {k: (t.replace(R.PRELUDE, "<extern prelude>\n"))[:1500] for k, t in o.files.items()},
                         "output": (o.r.out[:300] if o.r else None), "exit": (o.r.rc if o.r else None),
                         "canonical_output_equal": bool(o.r and o.behaviour() == canon.behaviour())}
    shutil.rmtree(base, ignore_errors=True)
    return res


def read_tree(d):
    out = {}
    for f in sorted(os.listdir(d)):
        if f.endswith(".capy"):
            out[f] = open(os.path.join(d, f), encoding="utf-8").read()
    return out


def run_pinned(arg):
    """a minimal layout pair kept under kf/C20_*/ (canon/ and var/): the finding stays visible whatever the generator happens to produce"""
    work, name = arg
    d = os.path.join(C.VERIF, "kf", name)
    case = json.load(open(os.path.join(d, "case.json")))
    canon = Obs(os.path.join(work, "pinned_" + name, "canon"), read_tree(os.path.join(d, "canon")), case["canon_entry"])
    var = Obs(os.path.join(work, "pinned_" + name, "var"), read_tree(os.path.join(d, "var")), case["var_entry"])
    if canon.infra or not canon.c.accepted:
        return name, "inconc", None, f"pinned case {name}: the canonical layout is not accepted / did not run: {canon.infra or canon.c.brief()[:200]}"
    verdict, viol, inc = judge_variant(canon, var, case["kind"], {"pinned": name}, case.get("triggers", ()))
    return name, verdict, viol, inc


def run(tier, seed):
    t0 = time.time()
    C.build_cli()
    C.build_rt()
    work = C.fresh_dir("C20")
    nprog = 56 if tier == "quick" else 700
    nprobe = 6 if tier == "quick" else 60
    try:
        C.build_probe()
    except C.Inconclusive as e:      # the hook is only used for an evidence counter
        nprobe = 0
        C.log(f"[C20] probe not available, scheduling log not counted: {str(e)[:200]}")
    results = C.pmap(run_program, [(work, seed, i, i < nprobe) for i in range(nprog)])
    viol, inconc, samples, sigs = [], [], [], set()
    cnt = {"programs": nprog, "layouts_compiled": 0, "layouts_agreeing_with_canonical": 0, "canonical_matching_python_reference": 0, "events_per_run_total": 0,
           "uses_before_definition": 0, "cross_file_references": 0, "layouts_with_cyclic_imports": 0, "multi_file_layouts": 0}
    evals = 0
    kinds_seen = {}
    for res in results:
        evals += res["evals"]
        viol += res["viol"]
        inconc += res["inconc"]
        cnt["layouts_compiled"] += 1 + NPERM + NSPLIT
        cnt["layouts_agreeing_with_canonical"] += res["accepted_variants"]
        cnt["events_per_run_total"] += res["events"]
        cnt["programs_with_inline_comptime_block"] = cnt.get("programs_with_inline_comptime_block", 0) + res["inline_ct"]
        cnt["programs_with_inline_comptime_block_calling_recursive_fn"] = cnt.get("programs_with_inline_comptime_block_calling_recursive_fn", 0) + res["inline_ct_rec"]
        cnt["layouts_with_inline_comptime_user_before_or_in_other_file_than_recursive_callee"] = \
            cnt.get("layouts_with_inline_comptime_user_before_or_in_other_file_than_recursive_callee", 0) + res["inline_ct_user_before_rec"]
        if res["events"] and not [v for v in res["viol"] if v["key"] == "wrong_output"]:
            cnt["canonical_matching_python_reference"] += 1
        for kind, facts in res["facts"]:
            cnt["uses_before_definition"] += facts["uses_before_def"]
            cnt["cross_file_references"] += facts["cross_file_refs"]
            cnt["layouts_with_cyclic_imports"] += 1 if facts["cyclic_imports"] else 0
            cnt["multi_file_layouts"] += 1 if facts["files"] > 1 else 0
        for k in res["nontrivial"]:
            sigs.add((res["shape"], k))
        for k in res["shape"][0]:
            kinds_seen[k] = kinds_seen.get(k, 0) + 1
        if res.get("h2"):
            cnt["h2_layouts_with_scheduling_log"] = cnt.get("h2_layouts_with_scheduling_log", 0) + res["h2"][0]
            cnt["h2_distinct_schedule_shapes_summed_over_programs"] = cnt.get("h2_distinct_schedule_shapes_summed_over_programs", 0) + res["h2"][1]
            cnt["h2_programs_probed"] = cnt.get("h2_programs_probed", 0) + 1
        if res["sample"]:
            samples.append(res["sample"])
    for k, n in sorted(kinds_seen.items()):
        cnt["globals_of_kind_" + k] = n
    notes = []
    kf = os.path.join(C.VERIF, "kf")
    pinned = sorted(n for n in os.listdir(kf) if n.startswith("C20_") and os.path.exists(os.path.join(kf, n, "case.json")))
    for name, verdict, v, inc in C.pmap(run_pinned, [(work, n) for n in pinned]):
        if verdict == "inconc":
            inconc.append(inc)
            continue
        evals += 1
        cnt["pinned_cases"] = cnt.get("pinned_cases", 0) + 1
        if v:
            viol.append(v)
        else:
            notes.append(f"pinned case kf/{name}: both layouts now behave alike")
    seen, uniq = set(), []
    for v in viol:
        s = v["key"] + "|" + v["sig"]
        if s not in seen:
            seen.add(s)
            uniq.append(v)
    rep = {"evaluations": evals, "distinct_nontrivial": len(sigs), "violations": uniq, "samples": samples, "counters": cnt,
           "notes": notes + ([f"{len(viol) - len(uniq)} further violations share a signature with a reported one"] if len(viol) > len(uniq) else []),
           "exhaustive": False, "dropped_violations": len(viol) - len(uniq)}
    return C.finish("C20", tier, seed, t0, "exploration", rep, ASSUME, RULE, min_evals=300 if tier == "quick" else 5000, inconclusive=inconc)


def replay(path):
    w = json.load(open(os.path.join(path, "witness.json")))
    wt = w.get("witness") or {}
    files = wt.get("files")
    if not files:
        print(json.dumps(w, indent=1)[:3000])
        return run("quick", 0)
    C.build_cli()
    C.build_rt()
    work = C.fresh_dir("C20", "replay")
    cf = {k[len("canon/"):]: t for k, t in files.items() if k.startswith("canon/")}
    vf = {k[len("var/"):]: t for k, t in files.items() if k.startswith("var/")}
    canon = Obs(os.path.join(work, "canon"), cf, wt["canon_entry"])
    var = Obs(os.path.join(work, "var"), vf, wt["var_entry"]) if vf else None
    for tag, o in (("canonical", canon), ("variant " + str(wt.get("variant")), var)):
        if o is None:
            continue
        print(f"=== {tag} (entry {o.entry})")
        for name, text in o.files.items():
            print(f"--- {name}\n{text.replace(R.PRELUDE, '')}")
        print(f"--- accepted={o.c.accepted} rejected={o.c.rejected} internal_error={o.c.internal_error}\n{o.c.brief()[:1200] if not o.c.accepted else ''}")
        if o.r is not None:
            print(f"--- run rc={o.r.rc} sig={o.r.sig}\n{o.r.out[:600]}")
    viol, inc = None, None
    key = w.get("key")
    if canon.infra or (var is not None and var.infra):
        inc = canon.infra or var.infra
    elif canon.c.internal_error or (var is not None and var.c.internal_error):
        o = canon if canon.c.internal_error else var
        viol = {"key": "internal_error", "what": "internal compiler error: " + o.c.panic_sig()}
    elif key == "wrong_output":
        if canon.c.accepted:
            why = compare_reference([tuple(e) for e in wt.get("expected_log", [])], wt.get("expected_rc"), canon)
            if why:
                viol = {"key": key, "what": why}
    elif var is not None and canon.c.accepted != var.c.accepted:
        viol = {"key": "variant_rejected", "what": f"canonical accepted={canon.c.accepted}, variant accepted={var.c.accepted}: "
                                                    f"{(var.c if canon.c.accepted else canon.c).diag_kinds()[:3]}"}
    elif var is not None and canon.c.accepted and var.behaviour() != canon.behaviour():
        viol = {"key": "output_differs", "what": first_diff(norm(canon.r.out), norm(var.r.out)) + f" (exit {canon.r.rc} vs {var.r.rc})"}
    shutil.rmtree(work, ignore_errors=True)
    if viol:
        print(f"VIOLATION property=C20 replay={path}")
        print(f"  {viol['key']}: {viol['what'][:400]}")
        return 1
    if inc:
        print(f"INCONCLUSIVE property=C20: {inc}")
        return 2
    print("the recorded violation does not reproduce on the current tree")
    return 0
