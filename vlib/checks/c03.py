"""C03 — every reached defer runs exactly once, LIFO, on every exit path.

Workload: functions made of nested blocks / labeled blocks / while loops with defers and guarded jumps
(break, labeled break, continue, labeled continue, return, .try on nil); each function is called once per
selector value so that every jump is taken in isolation.
Monitor: the event log of the built program. Every `defer` statement is preceded by an R event ("reached")
and its deferred expression emits a D event ("ran"); loop bodies start with an iteration marker.
Oracles: (1) a trace-specification checker that only knows the static block nesting of the event ids;
(2) equality with the log of a small reference interpreter of the same shapes.
"""
import json
import os
import time

from .. import common as C
from .. import capyrun as R

RULE = ("shapes: nesting skeletons of blocks / labeled blocks / while loops up to depth 3 (quick) or 4 (thorough) with 0..3 defers per block, one "
        "guarded jump of every kind (fall-through, break, labeled break to every enclosing label, continue, labeled continue, return, .try on nil) at "
        "every level and every position relative to the defers, enumerated systematically, plus random shapes with several jumps, sibling blocks and "
        "loops with 0..3 iterations; every function is run once per selector value; non-trivial = a run in which at least one defer was pending when "
        "a jump executed; distinct = distinct (skeleton, defers, jump kind, jump level, target level, position) tuples")
ASSUME = ["an unlabeled break targets the innermost loop or labeled block, an unlabeled continue the innermost loop (README + hir lowering rule)",
          "jumps inside deferred expressions are not generated (the front end rejects them)"]

R_BASE, D_BASE, IT_BASE = 1_000_000, 2_000_000, 3_000_000


class Gen:
    def __init__(self):
        self.n_ev = 0
        self.n_def = 0
        self.n_blk = 0
        self.n_sel = 0

    def ev(self):
        self.n_ev += 1
        return self.n_ev

    def dfr(self):
        self.n_def += 1
        return self.n_def

    def blk(self):
        self.n_blk += 1
        return self.n_blk


# AST: block = {"id", "label", "stmts"}; stmts: ("ev", id) ("defer", id) ("block", blk) ("loop", {"id","label","trips","body"})
#      ("jump", kind, label_or_None, sel) ("try", sel)

def skeleton_shape(g, kinds, ndefers, jump, jump_level, jump_pos):
    """kinds: list like ['B','L','W'] outermost first; one jump placed in the block at jump_level (0-based) at position jump_pos
    (0 = before all defers of that block ... ndefers = after all of them)"""
    labels = []
    blocks = []

    def build(level):
        kind = kinds[level]
        b = {"id": g.blk(), "label": None, "stmts": []}
        blocks.append(b)
        st = b["stmts"]
        st.append(("ev", g.ev()))
        label = None
        if kind in ("L", "WL"):
            label = f"l{b['id']}"
        labels.append((kind, label))
        n = ndefers[level]
        for k in range(n + 1):
            if level == jump_level and k == jump_pos and jump is not None:
                st.append(jump_stmt(level))
            if k < n:
                st.append(("defer", g.dfr()))
                st.append(("ev", g.ev()))
        if level + 1 < len(kinds):
            st.append(child(level + 1))
            st.append(("ev", g.ev()))
        return b, label

    def child(level):
        kind = kinds[level]
        b, label = build(level)
        if kind in ("W", "WL"):
            return ("loop", {"id": b["id"], "label": label, "trips": 2, "body": b})
        b["label"] = label
        return ("block", b)

    def jump_stmt(level):
        kind, tgt = jump
        if kind in ("break_l", "continue_l"):
            return ("jump", kind, f"L{tgt}", 1)   # resolved to the label of level tgt below
        if kind == "try":
            return ("try", 1)
        return ("jump", kind, None, 1)

    top = child(0)
    # resolve label placeholders
    def fix(stmts):
        for i, s in enumerate(stmts):
            if s[0] == "jump" and s[2] and s[2].startswith("L"):
                lvl = int(s[2][1:])
                stmts[i] = ("jump", s[1], labels[lvl][1], s[3])
            elif s[0] == "block":
                fix(s[1]["stmts"])
            elif s[0] == "loop":
                fix(s[1]["body"]["stmts"])
    body = {"id": g.blk(), "label": None, "stmts": [("ev", g.ev()), ("defer", g.dfr()), top, ("ev", g.ev())]}
    fix(body["stmts"])
    return body


def valid_jumps(kinds, level):
    """jumps that have a target when placed in the block at `level`"""
    out = [None, ("return", None), ("try", None)]
    enclosing = list(range(level + 1))     # the block itself and its ancestors
    loops = [l for l in enclosing if kinds[l] in ("W", "WL")]
    labeled = [l for l in enclosing if kinds[l] in ("L", "WL", "W")]
    if labeled:
        out.append(("break", None))
    if loops:
        out.append(("continue", None))
    for l in enclosing:
        if kinds[l] in ("L", "WL"):
            out.append(("break_l", l))
        if kinds[l] == "WL":
            out.append(("continue_l", l))
    return out


def random_shape(g, rng, depth):
    sel = [0]

    def block(level, inside_loop, labels):
        b = {"id": g.blk(), "label": None, "stmts": []}
        n = rng.range(2, 6)
        for _ in range(n):
            r = rng.below(10)
            if r < 3:
                b["stmts"].append(("defer", g.dfr()))
            elif r < 5:
                b["stmts"].append(("ev", g.ev()))
            elif r < 7 and level < depth:
                k = rng.below(4)
                if k == 0:
                    nb = block(level + 1, inside_loop, labels)
                    nb["vblock"] = rng.chance(1, 3)
                    b["stmts"].append(("block", nb))
                elif k == 1:
                    lb = f"l{g.n_blk + 1}"
                    nb = block(level + 1, inside_loop, labels + [(lb, False)])
                    nb["label"] = lb
                    b["stmts"].append(("block", nb))
                else:
                    lb = f"l{g.n_blk + 1}" if k == 3 else None
                    nb = block(level + 1, True, labels + [(lb, True)])
                    b["stmts"].append(("loop", {"id": nb["id"], "label": lb, "trips": rng.range(0, 3), "body": nb}))
            else:
                sel[0] += 1
                choices = ["return", "try"]
                if any(True for (lb, is_loop) in labels if is_loop or lb):
                    choices.append("break")
                if inside_loop:
                    choices.append("continue")
                named = [(lb, is_loop) for (lb, is_loop) in labels if lb]
                if named:
                    choices.append("break_l")
                if any(is_loop for (_, is_loop) in named):
                    choices.append("continue_l")
                kind = rng.pick(choices)
                if kind == "try":
                    b["stmts"].append(("try", sel[0]))
                elif kind == "break_l":
                    b["stmts"].append(("jump", kind, rng.pick(named)[0], sel[0]))
                elif kind == "continue_l":
                    b["stmts"].append(("jump", kind, rng.pick([n for n in named if n[1]])[0], sel[0]))
                else:
                    b["stmts"].append(("jump", kind, None, sel[0]))
        b["stmts"].append(("ev", g.ev()))
        return b

    body = block(0, False, [])
    return body, sel[0]


# ---------------------------------------------------------------- printer

def emit_block_body(b, out, ind, counters):
    pad = "    " * ind
    for s in b["stmts"]:
        if s[0] == "ev":
            out.append(f"{pad}vr_ev({s[1]});")
        elif s[0] == "defer":
            out.append(f"{pad}vr_ev({R_BASE + s[1]});")
            out.append(f"{pad}defer vr_ev({D_BASE + s[1]});")
        elif s[0] == "block":
            nb = s[1]
            if nb.get("vblock") and not nb["label"]:
                # the same block as the value of a local of type ?void: falling off its end builds the value "from nothing"
                out.append(f"{pad}vb{nb['id']} : ?void = {{")
                emit_block_body(nb, out, ind + 1, counters)
                out.append(pad + "};")
            else:
                head = f"`{nb['label']}: {{" if nb["label"] else "{"
                out.append(pad + head)
                emit_block_body(nb, out, ind + 1, counters)
                out.append(pad + "}")
        elif s[0] == "loop":
            lp = s[1]
            c = f"c{lp['id']}"
            out.append(f"{pad}{c} := 0;")
            head = f"`{lp['label']}: while {c} < {lp['trips']} {{" if lp["label"] else f"while {c} < {lp['trips']} {{"
            out.append(pad + head)
            out.append(f"{pad}    {c} += 1;")
            out.append(f"{pad}    vr_ev({IT_BASE + lp['id']});")
            emit_block_body(lp["body"], out, ind + 1, counters)
            out.append(pad + "}")
        elif s[0] == "jump":
            kind, label, sel = s[1], s[2], s[3]
            fl = counters[1] if len(counters) > 1 else "opt_i64"
            ret = {"opt_i64": "return 7;", "opt_void": "return;" if sel % 2 else "return nil;", "err_void": "return;" if sel % 2 else "return \"e\";"}[fl]
            j = {"break": "break;", "continue": "continue;", "return": ret, "break_l": f"break `{label};", "continue_l": f"continue `{label};"}[kind]
            out.append(f"{pad}if sel == {sel} {{ {j} }}")
        elif s[0] == "try":
            counters[0] += 1
            o = f"o{counters[0]}"
            if len(counters) > 1 and counters[1] == "err_void":
                out.append(f"{pad}{o} : str!i64 = 1;")
                out.append(f"{pad}if sel == {s[1]} {{ {o} = \"x\"; }}")
            else:
                out.append(f"{pad}{o} : ?i64 = 1;")
                out.append(f"{pad}if sel == {s[1]} {{ {o} = nil; }}")
            out.append(f"{pad}t{counters[0]} := {o}.try;")


def emit_function(name, body):
    """flavour of the function result: ?i64 with a tail value, or ?void / str!void whose body falls off its end"""
    fl = body.get("flavour", "opt_i64")
    out = [f"{name} :: (sel: i64) -> " + {"opt_i64": "?i64", "opt_void": "?void", "err_void": "str!void"}[fl] + " {"]
    emit_block_body(body, out, 1, [0, fl])
    if fl == "opt_i64":
        out.append("    0")
    out.append("}")
    return "\n".join(out)


# ---------------------------------------------------------------- reference interpreter

class Jump(Exception):
    def __init__(self, kind, target):
        self.kind, self.target = kind, target


def interp(body, sel):
    log = []
    pending_at_jump = [0]

    def run_block(b, scopes):
        """scopes: list of (label, is_loop, id) of enclosing targets, innermost last"""
        pending = []
        try:
            for s in b["stmts"]:
                if s[0] == "ev":
                    log.append(("E", s[1]))
                elif s[0] == "defer":
                    log.append(("E", R_BASE + s[1]))
                    pending.append(s[1])
                elif s[0] == "block":
                    nb = s[1]
                    sc = scopes + [(nb["label"], False, nb["id"])]
                    try:
                        run_block(nb, sc)
                    except Jump as j:
                        if j.kind == "break" and j.target == nb["id"]:
                            pass
                        else:
                            raise
                elif s[0] == "loop":
                    lp = s[1]
                    sc = scopes + [(lp["label"], True, lp["id"])]
                    c = 0
                    while c < lp["trips"]:
                        c += 1
                        log.append(("E", IT_BASE + lp["id"]))
                        try:
                            run_block(lp["body"], sc)
                        except Jump as j:
                            if j.target == lp["id"] and j.kind == "break":
                                break
                            if j.target == lp["id"] and j.kind == "continue":
                                continue
                            raise
                elif s[0] == "jump":
                    kind, label, sv = s[1], s[2], s[3]
                    if sel != sv:
                        continue
                    pending_at_jump[0] += len(pending) + 1   # +1: there is always the function-level defer pending
                    if kind == "return":
                        raise Jump("return", None)
                    if kind in ("break", "continue"):
                        for (lb, is_loop, bid) in reversed(scopes):
                            if is_loop or (kind == "break" and lb):
                                raise Jump(kind, bid)
                        raise AssertionError("jump without target")
                    want = "break" if kind == "break_l" else "continue"
                    for (lb, is_loop, bid) in reversed(scopes):
                        if lb == label:
                            raise Jump(want, bid)
                    raise AssertionError("label not found")
                elif s[0] == "try":
                    if sel == s[1]:
                        pending_at_jump[0] += len(pending) + 1
                        raise Jump("return", None)
        finally:
            for d in reversed(pending):
                log.append(("E", D_BASE + d))

    try:
        run_block(body, [])
    except Jump as j:
        assert j.kind == "return", j.kind
    return log, pending_at_jump[0]


# ---------------------------------------------------------------- trace-specification checker (independent of interp)

def static_table(body):
    """event id -> tuple of enclosing block ids (outermost first); loop iteration markers -> (path of the body block, body id)"""
    path_of = {}
    iter_of = {}

    def walk(b, path):
        p = path + (b["id"],)
        for s in b["stmts"]:
            if s[0] == "ev":
                path_of[s[1]] = p
            elif s[0] == "defer":
                path_of[R_BASE + s[1]] = p
                path_of[D_BASE + s[1]] = p
            elif s[0] == "block":
                walk(s[1], p)
            elif s[0] == "loop":
                iter_of[IT_BASE + s[1]["id"]] = p + (s[1]["body"]["id"],)
                walk(s[1]["body"], p)
    walk(body, ())
    return path_of, iter_of


def check_trace(events, path_of, iter_of):
    """events: list of ids of one call. returns None or a message"""
    active = []   # stack of instances: {"id", "pending": [defer ids], "leaving": bool}

    def close_down_to(keep_len, why):
        while len(active) > keep_len:
            inst = active.pop()
            if inst["pending"]:
                return f"block {inst['id']} was left ({why}) with defers {inst['pending']} reached but not run"
        return None

    for e in events:
        if e in iter_of:
            p = iter_of[e]
            # a new iteration: the previous instance of the body block (and everything inside) must be complete
            common = 0
            while common < len(active) and common < len(p) - 1 and active[common]["id"] == p[common]:
                common += 1
            m = close_down_to(common, f"new iteration of loop body {p[-1]}")
            if m:
                return m
            for bid in p[len(active):]:
                active.append({"id": bid, "pending": [], "leaving": False})
            continue
        p = path_of.get(e)
        if p is None:
            return f"unknown event {e}"
        common = 0
        while common < len(active) and common < len(p) and active[common]["id"] == p[common]:
            common += 1
        m = close_down_to(common, f"event {e} outside of it")
        if m:
            return m
        for bid in p[len(active):]:
            active.append({"id": bid, "pending": [], "leaving": False})
        inst = active[-1]
        if e >= D_BASE and e < IT_BASE:
            d = e - D_BASE
            if not inst["pending"]:
                return f"defer {d} ran although it was not pending (not reached in this block instance, or run twice)"
            if inst["pending"][-1] != d:
                return f"defer {d} ran out of order: pending (in reach order) {inst['pending']}"
            inst["pending"].pop()
            inst["leaving"] = True
        else:
            if inst["leaving"]:
                return f"block {inst['id']} continued (event {e}) after one of its defers had run: its defers ran although the block was not being left"
            if e >= R_BASE:
                inst["pending"].append(e - R_BASE)
    return close_down_to(0, "function returned")


# ---------------------------------------------------------------- driver

def make_cases(tier, seed):
    g = Gen()
    rng = C.Rng(seed, 3)
    cases = []   # (name, body, nsel, signature)
    max_depth = 4 if tier == "thorough" else 3
    kinds_all = ["B", "L", "W", "WL"]

    def skeletons(depth):
        if depth == 0:
            yield []
            return
        for rest in skeletons(depth - 1):
            for k in kinds_all:
                yield rest + [k]

    systematic = []
    for depth in range(1, max_depth + 1):
        for kinds in skeletons(depth):
            for jl in range(depth):
                for jump in valid_jumps(kinds, jl):
                    for ndef in ((1,) * depth, (2,) * depth, tuple(0 if i % 2 else 2 for i in range(depth)), (3,) * depth):
                        for pos in range(ndef[jl] + 1):
                            systematic.append((tuple(kinds), ndef, jump, jl, pos))
    budget = 800 if tier == "quick" else 40000
    if len(systematic) > budget:
        # keep every (kinds, jump, level) combination at least once, sample the rest
        keyed = {}
        for s in systematic:
            keyed.setdefault((tuple(s[0]), s[2], s[3]), []).append(s)
        chosen = []
        for k, lst in keyed.items():
            chosen.append(rng.pick(lst))
        cs = set(chosen)
        rest = [s for s in systematic if s not in cs]
        rng.shuffle(rest)
        chosen.extend(rest[: max(0, budget - len(chosen))])
        systematic = chosen[:budget] if len(chosen) > budget else chosen
    for i, (kinds, ndef, jump, jl, pos) in enumerate(systematic):
        body = skeleton_shape(g, kinds, list(ndef), jump, jl, pos)
        sig = ("sys", tuple(kinds), ndef, jump[0] if jump else "fall", jl, jump[1] if jump else None, pos)
        body["flavour"] = ["opt_i64", "opt_void", "err_void"][i % 3]
        cases.append((f"s{i}", body, 1, sig + (body["flavour"],)))
    n_rand = 200 if tier == "quick" else 10000
    for i in range(n_rand):
        body, nsel = random_shape(g, rng, rng.range(1, max_depth))
        outer = {"id": g.blk(), "label": None, "stmts": [("defer", g.dfr()), ("block", body), ("ev", g.ev())], "flavour": rng.pick(["opt_i64", "opt_i64", "opt_void", "err_void"])}
        cases.append((f"r{i}", outer, nsel, ("rand", i)))
    return cases


def run_batch(job):
    idx, batch, work = job
    src = [R.PRELUDE]
    calls = []
    call_id = 10_000_000
    plan = []
    for name, body, nsel, sig in batch:
        src.append(emit_function(name, body))
        for sel in range(0, nsel + 1):
            call_id += 1
            calls.append(f"    vr_ev({call_id}); {name}({sel});")
            plan.append((call_id, name, body, sel, sig))
    call_id += 1
    calls.append(f"    vr_ev({call_id});")
    src.append("main :: () -> i32 {\n" + "\n".join(calls) + "\n    0\n}")
    text = "\n".join(src) + "\n"
    d = os.path.join(work, f"b{idx}")
    c = R.compile_capy(d, {"main.capy": text}, cpu_s=60)
    if c.timed_out:
        return idx, "inconclusive", "compile watchdog", text, plan
    if c.internal_error:
        return idx, "internal_error", c, text, plan
    if not c.accepted:
        return idx, "rejected", c, text, plan
    r = R.link_and_run(d, c.obj, cpu_s=10)
    if r.link_failed or r.timed_out:
        return idx, "inconclusive", f"link/run: {r.link_err[:200]} timed_out={r.timed_out}", text, plan
    evs = [i for tag, i, _ in R.parse_log(r.out) if tag == "E"]
    return idx, "ran", (r.rc, r.sig, evs), text, plan


def run(tier, seed):
    t0 = time.time()
    C.build_cli()
    C.build_rt()
    work = C.fresh_dir("C03")
    cases = make_cases(tier, seed)
    per = 20
    jobs = [(i // per, cases[i:i + per], work) for i in range(0, len(cases), per)]
    results = C.pmap(run_batch, jobs)
    viol, inconc, samples, sigs = [], [], [], set()
    evals = 0
    seen_keys = {}
    for idx, status, info, text, plan in results:
        if status == "inconclusive":
            inconc.append(f"batch {idx}: {info}")
            continue
        if status == "internal_error":
            viol.append({"key": "internal_error", "sig": "internal_error|" + info.panic_sig(), "what": f"a batch of defer shapes ends in an internal compiler error: {info.brief()[:300]}",
                         "witness": {"files": {"main.capy": text}}})
            continue
        if status == "rejected":
            viol.append({"key": "rejected", "sig": "rejected|" + ";".join(info.diag_kinds()[:2]), "what": f"well-formed defer shapes are rejected: {info.brief()[:400]}",
                         "witness": {"files": {"main.capy": text}}})
            continue
        rc, sig_, evs = info
        # split the log per call
        per_call = {}
        cur = None
        for e in evs:
            if e > 10_000_000:
                cur = e
                per_call[cur] = []
            elif cur is not None:
                per_call[cur].append(e)
        if rc != 0:
            viol.append({"key": "crash", "sig": "crash", "what": f"program with defer shapes exited with rc={rc} sig={sig_}", "witness": {"files": {"main.capy": text}}})
        for call_id, name, body, sel, sig in plan:
            got = per_call.get(call_id)
            if got is None:
                continue
            evals += 1
            want, pending_at_jump = interp(body, sel)
            want = [i for _, i in want]
            path_of, iter_of = static_table(body)
            msg = check_trace(got, path_of, iter_of)
            kind = sig[3] if sig[0] == "sys" else "random"
            if msg:
                k = f"trace_spec:{kind}"
                seen_keys[k] = seen_keys.get(k, 0) + 1
                if seen_keys[k] <= 2:
                    viol.append({"key": k, "sig": k, "what": f"{name}(sel={sel}): {msg}", "witness": {"function": emit_function(name, body), "sel": sel, "observed": got, "expected": want}})
            elif got != want:
                k = f"ref_mismatch:{kind}"
                seen_keys[k] = seen_keys.get(k, 0) + 1
                if seen_keys[k] <= 2:
                    viol.append({"key": k, "sig": k, "what": f"{name}(sel={sel}): event log differs from the reference semantics", "witness": {"function": emit_function(name, body), "sel": sel, "observed": got, "expected": want}})
            if pending_at_jump > 1 or (sig[0] == "sys" and sel == 1 and sig[3] != "fall"):
                sigs.add((sig, sel) if sig[0] == "rand" else sig)
            if len(samples) < 3 and pending_at_jump > 2 and sel > 0:
                samples.append({"function": emit_function(name, body), "sel": sel, "observed_events": got})
    rep = {"evaluations": evals, "distinct_nontrivial": len(sigs), "violations": viol, "samples": samples,
           "counters": {"functions": len(cases), "calls_checked": evals, "programs": len(jobs)}, "notes": [], "exhaustive": False}
    return C.finish("C03", tier, seed, t0, "exploration", rep, ASSUME, RULE, min_evals=500, inconclusive=inconc)


def replay(path):
    w = json.load(open(os.path.join(path, "witness.json")))
    print(json.dumps(w, indent=1)[:4000])
    return run("quick", 0)
