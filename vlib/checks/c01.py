"""C01 - well-typed programs are accepted and run exactly as the semantics prescribe.

Translation validation by execution: c01_gen builds WELL-TYPED programs as a typed AST, c01_ref (an interpreter
written from the README) gives each program its meaning (event log + exit status, or a runtime fault), the real
CLI compiles the printed program, gcc links it with the verification runtime, and the executable's event log
and exit status are compared with the reference, line by line.
"""
import copy
import json
import os
import re
import shutil
import time

from .. import common as C
from .. import capyrun as R
from .. import c01_gen as G
from .. import c01_ast as A
from .. import c01_ref as X

RULE = ("programs = random well-typed programs of the fragment (all integer widths, bool, char, f32/f64 (+ - * only), arrays, slices, structs, nested aggregates, enums with "
        "payloads / inline struct payloads / custom discriminants, optionals, error unions, distinct ints, pointers to locals/fields/elements, functions, recursion, "
        "non-capturing lambdas and function values, varargs, while/loop, labeled blocks with break values, break/continue/return, defer, switch (statement and expression, "
        "default arms), #unwrap/#is_variant, .try, casts, if/block expressions, global constants); <= 12 globals, <= 40 statements per function, nesting <= 6, loops <= 64 "
        "iterations; ~15% of the programs contain a planned runtime fault (index out of range on array/slice, #unwrap of the wrong variant), 50% return an integer of a random "
        "width from main; evaluation = one program compiled, linked, run and compared with the reference interpreter; distinct = distinct construct-set signatures")
ASSUME = ["integer + - * wrap modulo 2^width, / and % truncate toward zero, >> follows the signedness, casts extend by the source signedness (statement of C08)",
          "&& and || evaluate their right operand only when needed; apart from that programs never depend on the evaluation order of operands / arguments (README is silent): "
          "prints and writes happen at statement level only",
          "a deferred expression runs after the value of its block / the returned value has been computed",
          "an unlabeled break/continue is only generated where the innermost enclosing loop-or-labeled-block is a loop",
          "the exit status is compared modulo 256 (what the OS reports); a runtime fault = the events before it, then a non-empty message, exit status 1, no event after it",
          "programs whose meaning the language does not define (division by zero, MIN / -1, float->int out of range, float overflow/NaN, over-long runs) are discarded by the reference interpreter, never judged",
          "README is silent on whether the argument of a switch arm is a copy of the payload or an alias of the scrutinee (capy aliases): no generated program writes the scrutinee inside an arm, so the question is never judged",
          "recorded capy defects are produced only by programs that opt in (each 2.5-4% of the programs; the feature names are appended to the violation signature): "
          "weak_lit_errunion, empty_vararg_first, unused_varargs, array_arm_binding; all other programs stay away from exactly these spellings. variant_direct and "
          "selfref_literal_assign were defects that are fixed: about half of the programs use those spellings now",
          "`.try` on E!T inside a function returning ?E returns the error as a present value (README: `.try` is `switch .. { E => { return inner; } }`)"]

MAX_STMTS, MAX_DEPTH, MAX_GLOBALS = 40, 6, 12
LAYER = 4      # development only: lower layers switch off groups of constructs


# --------------------------------------------------------------------------- static bounds of the quantifier

def iter_blocks(x, out):
    if isinstance(x, A.Block):
        out.append(x)
        for s in x.stmts:
            iter_blocks(s, out)
        iter_blocks(x.tail, out)
    elif isinstance(x, A.N):
        for v in x.__dict__.values():
            iter_blocks(v, out)
    elif isinstance(x, (list, tuple)):
        for y in x:
            iter_blocks(y, out)


def measure(x, depth=0):
    """(number of statements, max block nesting depth) of a function body"""
    n, d = 0, depth
    if isinstance(x, A.Block):
        for s in x.stmts:
            a, b = measure(s, depth + 1)
            n += 1 + a
            d = max(d, b)
        a, b = measure(x.tail, depth + 1)
        return n + a, max(d, b, depth + 1)
    if isinstance(x, A.N):
        if x.k == "lambda":
            return 0, depth       # a lambda is a function of its own
        for v in x.__dict__.values():
            a, b = measure(v, depth)
            n += a
            d = max(d, b)
        return n, d
    if isinstance(x, (list, tuple)):
        for y in x:
            a, b = measure(y, depth)
            n += a
            d = max(d, b)
    return n, d


def within_bounds(prog):
    if len(prog.type_order) + len(prog.consts) + len(prog.funcs) + 1 > MAX_GLOBALS:
        return False
    for f in prog.funcs + [prog.main]:
        n, d = measure(f.body)
        if n > MAX_STMTS or d > MAX_DEPTH:
            return False
    return True


# --------------------------------------------------------------------------- one program

def make_program(seed, index):
    """(prog, text, expectation) - regenerates with sub-streams until the program is inside the bounds and defined"""
    skipped = {"undefined": 0, "bounds": 0}
    for attempt in range(40):
        rng = C.Rng(seed, index * 64 + attempt + 1000003)
        prog = G.generate(rng, LAYER)
        if not within_bounds(prog):
            skipped["bounds"] += 1
            continue
        try:
            log, status, fault, steps = X.run_program(prog)
        except X.Undefined:
            skipped["undefined"] += 1
            continue
        return prog, A.render(prog, R.PRELUDE), {"log": log, "status": status, "fault": fault}, skipped
    raise C.Inconclusive("no defined program after 40 attempts")


def event_kind(prog, ident):
    """construct kind of the statement that prints event `ident` (for the violation signature)"""
    found = []

    def walk(x, ctx):
        if isinstance(x, A.Block):
            for s in x.stmts:
                walk(s, ctx)
            walk(x.tail, ctx)
        elif isinstance(x, A.N):
            c = ctx
            if x.k in ("while", "loop", "switch", "defer", "lambda", "ife", "blocke"):
                c = ctx + [x.k]
            if x.k in ("print", "ev") and x.id == ident:
                kinds = set()
                if x.k == "print":
                    collect_kinds(x.e, kinds)
                found.append((c, sorted(kinds), x.e.ty if x.k == "print" else None))
            for v in x.__dict__.values():
                walk(v, c)
        elif isinstance(x, (list, tuple)):
            for y in x:
                walk(y, ctx)
    for f in prog.funcs + [prog.main]:
        walk(f.body, ["main" if f is prog.main else "fn"])
    if not found:
        return "unknown"
    c, kinds, ty = found[0]
    tyk = "ev" if ty is None else (ty[1] if ty[0] == "int" else ty[0])
    return "%s:%s:%s" % (tyk, "+".join(kinds) or "value", "/".join(c[-2:]))


def collect_kinds(e, out):
    if isinstance(e, A.N):
        if e.k in ("field", "index", "deref", "unwrap", "isvar", "call", "cast", "len", "bin", "un"):
            out.add(e.k if e.k != "bin" else "op" + e.op)
        for v in e.__dict__.values():
            collect_kinds(v, out)
    elif isinstance(e, (list, tuple)):
        for y in e:
            collect_kinds(y, out)


def mentions_name(x, name):
    if isinstance(x, A.Block):
        return any(mentions_name(s, name) for s in x.stmts) or mentions_name(x.tail, name)
    if isinstance(x, A.N):
        if x.k == "var" and x.name == name:
            return True
        return any(mentions_name(v, name) for v in x.__dict__.values())
    if isinstance(x, (list, tuple)):
        return any(mentions_name(y, name) for y in x)
    return False


def writes_to(x, name):
    """does x contain an assignment rooted at `name`, `^mut name...`, or any write through a pointer"""
    if isinstance(x, A.Block):
        return any(writes_to(s, name) for s in x.stmts) or writes_to(x.tail, name)
    if isinstance(x, A.N):
        if x.k == "assign":
            r = x.place
            via = False
            while r.k in ("field", "index", "deref"):
                via = via or r.k == "deref" or (r.base.ty[0] in ("ptr", "slice") if r.k != "deref" else False)
                r = r.base if r.k != "deref" else r.e
            if via or (r.k == "var" and r.name == name):
                return True
        if x.k == "addr" and x.mut and mentions_name(x.place, name):
            return True
        return any(writes_to(v, name) for v in x.__dict__.values())
    if isinstance(x, (list, tuple)):
        return any(writes_to(y, name) for y in x)
    return False


def has_literal(x):
    if isinstance(x, A.Block):
        return any(has_literal(s) for s in x.stmts) or has_literal(x.tail)
    if isinstance(x, A.N):
        return x.k in ("arrlit", "structlit", "variantlit") or any(has_literal(v) for v in x.__dict__.values())
    if isinstance(x, (list, tuple)):
        return any(has_literal(y) for y in x)
    return False


def feature_tags(prog):
    """the opt-in features (each one a recorded capy defect the generator otherwise avoids) that are present in a
    (possibly minimised) program; they are appended to the violation signature"""
    tags = set()

    def walk(x):
        if isinstance(x, A.Block):
            for s in x.stmts:
                walk(s)
            walk(x.tail)
        elif isinstance(x, A.N):
            if x.k == "wrap" and x.how == "ok" and x.e.k == "lit" and x.e.bare and x.e.ty[0] == "int" and (abs(x.e.val) >= (1 << 31) or x.e.val == -(1 << (X.INT_INFO[x.e.ty[1]][0] - 1))):
                tags.add("weak_lit_errunion")
            if x.k == "switch":
                r_ = x.scrut
                while r_.k in ("field", "index", "deref", "unwrap", "cast"):
                    r_ = r_.base if r_.k in ("field", "index") else r_.e
                if r_.k == "var" and writes_to([b_ for _, b_ in x.arms] + [x.default], r_.name):
                    tags.add("scrutinee_write")
                for pat, blk in x.arms:
                    if pat[0] == "type" and pat[1][0] == "array" and mentions_name(blk, x.bind):
                        tags.add("array_arm_binding")
            if x.k == "call":
                gs = x.groups
                for i, g in enumerate(gs):
                    if isinstance(g, list) and not g and any(not isinstance(h, list) for h in gs[i + 1:]):
                        tags.add("empty_vararg_first")
            if x.k == "assign" and x.op == "=" and x.place.ty[0] in ("struct", "array", "enum", "opt", "err") and x.e.k != "var":
                root = x.place
                while root.k in ("field", "index", "deref"):
                    root = root.base if root.k != "deref" else root.e
                if root.k == "var" and mentions_name(x.e, root.name) and has_literal(x.e):
                    pass      # 'selfref_literal_assign' and 'variant_direct' were capy defects, fixed since: regular constructs, no tag
            for v in x.__dict__.values():
                walk(v)
        elif isinstance(x, (list, tuple)):
            for y in x:
                walk(y)
    for f in prog.funcs + [prog.main]:
        walk(f.body)
        for pn, pt, va in f.params:
            if va and not mentions_name(f.body, pn):
                tags.add("unused_varargs")
    return sorted(tags)


def judge(prog, text, exp, d):
    """compile + link + run + compare. -> dict(status='ok'|'violation'|'inconclusive', ...)"""
    c = R.compile_capy(d, {"main.capy": text}, cpu_s=60)
    if c.timed_out or c.cpu_exceeded:
        return {"status": "inconclusive", "why": "compile watchdog"}
    if c.internal_error:
        return {"status": "violation", "key": "internal_error", "sig": "internal_error|" + norm_panic(c.panic_sig()),
                "what": "a well-typed program ends in an internal compiler error: " + c.panic_sig(), "observed": strip_noise(c.brief())[:600]}
    if not c.accepted:
        kinds = c.diag_kinds()
        shape = re.sub(r"`[^`]*`", "`_`", kinds[0]) if kinds else "no diagnostic"
        return {"status": "violation", "key": "rejected_welltyped", "sig": "rejected_welltyped|" + shape[:80],
                "what": "a well-typed program is rejected: " + (kinds[0] if kinds else c.brief()[:200]), "observed": strip_noise(c.brief())[:900]}
    r = R.link_and_run(d, c.obj, cpu_s=10)
    if r.link_failed:
        return {"status": "inconclusive", "why": "link failed: " + r.link_err[-200:]}
    if r.timed_out and not r.cpu_exceeded:
        return {"status": "inconclusive", "why": "run watchdog (wall clock)"}
    if r.cpu_exceeded:
        return {"status": "violation", "key": "hang", "sig": "hang|terminating_program", "what": "the executable of a terminating program does not terminate (10 s cpu)", "observed": ""}
    parsed = R.parse_log(r.out)
    got = [(t, i, v.strip()) for t, i, v in parsed if t != "T"]
    texts = [v for t, i, v in parsed if t == "T" and v.strip()]
    want = [(t, i, v) for t, i, v in exp["log"]]
    res = {"status": "ok", "events": len(want), "observed_log": got[-6:], "rc": r.rc, "texts": texts[:2]}
    k = 0
    while k < len(got) and k < len(want) and got[k] == want[k]:
        k += 1
    obs = {"exit": r.rc, "signal": r.sig, "log_tail": got[max(0, k - 3):k + 4], "text_lines": texts[:3]}
    expd = {"exit": exp["status"], "fault": exp["fault"], "log_tail": want[max(0, k - 3):k + 4]}
    if exp["fault"]:
        # everything before the fault, then a message, status 1, nothing after
        if got[:len(want)] != want:
            kind = event_kind(prog, (want[k][1] if k < len(want) else got[k][1]))
            return viol("output_differs", "output_differs|" + kind, "event log differs from the reference before the expected runtime fault (first difference at event #%d)" % k, expd, obs)
        if len(got) > len(want):
            return viol("fault_expected", "fault_expected|%s|continued" % exp["fault"], "the program continues after the point where the language defines a runtime fault (%s)" % exp["fault"], expd, obs)
        if r.rc != 1 or r.sig:
            return viol("fault_expected", "fault_expected|%s|exit_%s" % (exp["fault"], "signal" if r.sig else ("0" if r.rc == 0 else "other")),
                        "runtime fault (%s) must exit with status 1, observed exit %s signal %s" % (exp["fault"], r.rc, r.sig), expd, obs)
        if not texts:
            return viol("fault_expected", "fault_expected|%s|no_message" % exp["fault"], "runtime fault (%s) without a message" % exp["fault"], expd, obs)
        res["fault"] = exp["fault"]
        return res
    if k < len(want) or k < len(got):
        if r.rc == 1 and texts and got == want[:len(got)]:
            return viol("unexpected_fault", "unexpected_fault|" + re.sub(r"[^a-z #_]", "", texts[-1].split(":")[-1].lower()).strip()[:40],
                        "the program stops with a runtime fault where the semantics define none: " + texts[-1][:120], expd, obs)
        if r.sig:
            return viol("crash", "crash|signal_%d" % r.sig, "the executable is killed by signal %d" % r.sig, expd, obs)
        ident = want[k][1] if k < len(want) else got[k][1]
        return viol("output_differs", "output_differs|" + event_kind(prog, ident), "event log differs from the reference at event #%d (id %s)" % (k, ident), expd, obs)
    if r.sig:
        return viol("crash", "crash|signal_%d" % r.sig, "the executable is killed by signal %d after printing the full log" % r.sig, expd, obs)
    if r.rc != exp["status"]:
        mt = prog.main.ret
        return viol("exit_status", "exit_status|main_%s" % (mt[1] if mt[0] == "int" else "void"), "exit status %s, the semantics give %s" % (r.rc, exp["status"]), expd, obs)
    return res


def norm_panic(sig):
    """drops the type that happens to be printed in two assertion messages (one defect, many spellings)"""
    sig = re.sub(r"(the previous two arms should've caught this).*", r"\1", sig)
    sig = re.sub(r"\|[^|]* can not cast to .*", "|_ can not cast to _", sig)
    sig = re.sub(r"(cast_into_memory)\|(Concrete|UInt|IInt|Bool|Char|Void|Float|Enum|Slice|Pointer|Distinct|Optional|ErrorUnion)\w*\b.*", r"\1|_ can not cast to _", sig)
    return sig


def viol(key, sig, what, expd, obs):
    return {"status": "violation", "key": key, "sig": sig, "what": what, "expected": expd, "observed": obs}


def strip_noise(t):
    return "\n".join(l for l in t.splitlines() if not l.startswith("split_aggregate"))


# --------------------------------------------------------------------------- minimisation

def all_blocks(prog):
    out = []
    for f in prog.funcs + [prog.main]:
        iter_blocks(f.body, out)
    return out


def scope_ok(prog):
    """every name of a (reduced) program still resolves to a binding of the type recorded in the AST"""
    glob = {name: ty for name, ty, _ in prog.consts}
    for f in prog.funcs:
        glob[f.name] = None

    def look(name, env):
        for fr in reversed(env):
            if name in fr:
                return True, fr[name]
        if name in glob:
            return True, glob[name]
        return False, None

    def walk(x, env):
        if isinstance(x, A.Block):
            env.append({})
            ok = all(walk(s, env) for s in x.stmts) and walk(x.tail, env)
            env.pop()
            return ok
        if isinstance(x, A.N):
            if x.k == "var":
                found, ty = look(x.name, env)
                return found and (ty is None or ty == x.ty)
            if x.k == "decl":
                if not walk(x.init, env):
                    return False
                env[-1][x.name] = x.ty
                return True
            if x.k == "lambda":
                return walk(x.body, [{n: (("slice", t) if va else t) for n, t, va in x.params}])
            if x.k == "switch":
                if not walk(x.scrut, env):
                    return False
                env.append({x.bind: None})
                ok = all(walk(b, env) for _, b in x.arms) and walk(x.default, env)
                env.pop()
                return ok
            return all(walk(v, env) for k_, v in x.__dict__.items() if k_ != "ty")
        if isinstance(x, (list, tuple)):
            return all(walk(y, env) for y in x)
        return True
    for f in prog.funcs + [prog.main]:
        if not walk(f.body, [{n: (("slice", t) if va else t) for n, t, va in f.params}]):
            return False
    return True


def minimise(prog, verdict, d, max_tests=60):
    """greedy delta-minimisation on the AST: drop functions and statements while the same violation class persists"""
    tests = [0]

    def still(cand):
        if tests[0] >= max_tests:
            return None
        try:
            if not scope_ok(cand):
                return None
            log, status, fault, _ = X.run_program(cand)
            text = A.render(cand, R.PRELUDE)
        except Exception:
            return None
        tests[0] += 1
        v = judge(cand, text, {"log": log, "status": status, "fault": fault}, os.path.join(d, "m%d" % tests[0]))
        if v["status"] == "violation" and v["key"] == verdict["key"] and (v["key"] != "internal_error" or v["sig"] == verdict["sig"]):
            return v, text
        return None

    best, best_v, best_text = prog, verdict, None
    progress = True
    while progress and tests[0] < max_tests:
        progress = False
        # whole functions first
        for i in range(len(best.funcs) - 1, -1, -1):
            cand = copy.deepcopy(best)
            del cand.funcs[i]
            r = still(cand)
            if r:
                best, (best_v, best_text), progress = cand, r, True
        # then statements, biggest (outermost) blocks first, halves before single statements
        nb = len(all_blocks(best))
        for bi in range(nb):
            blocks = all_blocks(best)
            if bi >= len(blocks):
                break
            n = len(blocks[bi].stmts)
            size = max(1, n // 2)
            while size >= 1 and tests[0] < max_tests:
                si = len(all_blocks(best)[bi].stmts) - size
                while si >= 0 and tests[0] < max_tests:
                    if any(getattr(st, "keep", False) for st in all_blocks(best)[bi].stmts[si:si + size]):
                        si -= size       # generator-inserted guard statements stay (they keep a recorded defect away)
                        continue
                    cand = copy.deepcopy(best)
                    del all_blocks(cand)[bi].stmts[si:si + size]
                    r = still(cand)
                    if r:
                        best, (best_v, best_text), progress = cand, r, True
                    si -= size
                size //= 2
    return best, best_v, best_text


# --------------------------------------------------------------------------- driver

def run_case(job):
    seed, index, work = job
    d = os.path.join(work, "p%d" % index)
    try:
        prog, text, exp, skipped = make_program(seed, index)
    except C.Inconclusive as e:
        return {"index": index, "status": "inconclusive", "why": str(e)}
    except Exception as e:      # a bug of the generator / interpreter is never a verdict about capy
        return {"index": index, "status": "inconclusive", "why": "generator exception %s: %s" % (type(e).__name__, e)}
    v = judge(prog, text, exp, d)
    v.update({"index": index, "constructs": sorted(prog.constructs), "skipped": skipped, "text": text, "rt": dict(getattr(prog, "runtime_stats", {})), "prog": prog if v["status"] == "violation" else None,
              "exp": exp})
    return v


def run(tier, seed):
    t0 = time.time()
    C.build_cli()
    C.build_rt()
    work = C.fresh_dir("C01")
    n = 300 if tier == "quick" else 16000
    budget = 60 if tier == "quick" else 10 * 60
    viol_out, inconc, samples = [], [], []
    hist, sigs = {}, set()
    cnt = {"programs": 0, "accepted": 0, "events_compared": 0, "faults_observed": 0, "main_nonzero_exit": 0, "discarded_undefined": 0, "discarded_out_of_bounds": 0}
    seen_sig = {}
    evals = 0
    done = 0
    chunk = 32 if tier == "quick" else 256
    pending_min = []
    t_loop = time.time()      # the budget covers the workload, not the (possibly cold) builds before it
    while done < n and time.time() - t_loop < budget:
        jobs = [(seed, i, work) for i in range(done, min(n, done + chunk))]
        done += len(jobs)
        for v in C.pmap(run_case, jobs):
            if v["status"] == "inconclusive":
                inconc.append("program %d: %s" % (v["index"], v["why"]))
                continue
            evals += 1
            cnt["programs"] += 1
            cnt["discarded_undefined"] += v["skipped"]["undefined"]
            cnt["discarded_out_of_bounds"] += v["skipped"]["bounds"]
            for c_ in v["constructs"]:
                hist[c_] = hist.get(c_, 0) + 1
            for k_, n_ in v["rt"].items():
                cnt["programs_with_" + k_] = cnt.get("programs_with_" + k_, 0) + 1
            sigs.add(tuple(v["constructs"]))
            if v["status"] == "ok":
                cnt["accepted"] += 1
                cnt["events_compared"] += v["events"]
                if v.get("fault"):
                    cnt["faults_observed"] += 1
                    if sum(1 for s in samples if s.get("fault")) < 2:
                        samples.append({"fault": v["fault"], "source_tail": v["text"][-700:], "observed_log_tail": v["observed_log"], "message": v["texts"], "exit": v["rc"]})
                elif v["rc"]:
                    cnt["main_nonzero_exit"] += 1
                    if sum(1 for s in samples if "exit" in s and not s.get("fault")) < 2:
                        samples.append({"source_tail": v["text"][-500:], "observed_log_tail": v["observed_log"], "exit": v["rc"]})
                continue
            if v["key"] not in ("internal_error", "rejected_welltyped"):
                cnt["accepted"] += 1
            k = v["sig"]
            seen_sig[k] = seen_sig.get(k, 0) + 1
            cnt["violations_" + v["key"]] = cnt.get("violations_" + v["key"], 0) + 1
            if seen_sig[k] <= 1:
                pending_min.append(v)
        shutil_clean(work)
    # minimise (bounded) and report one witness per signature
    n_min = 4 if tier == "quick" else 12
    max_tests = 24 if tier == "quick" else 60

    def shrink(v):
        prog, vv, text = v["prog"], v, v["text"]
        try:
            mp, mv, mtext = minimise(v["prog"], v, os.path.join(work, "min%d" % v["index"]), max_tests=max_tests)
            if mtext is not None:
                prog, vv, text = mp, mv, mtext
        except Exception as e:   # minimisation is best effort
            vv = dict(v)
            vv["minimise_error"] = str(e)
        return prog, vv, text

    # violations that already match a registered finding are reported as they are; only news is minimised
    known = C.load_known()

    def is_known(v):
        feats = feature_tags(v["prog"])
        sig = v["sig"] + ("|" + ",".join(feats) if feats else "")
        return C.match_known("C01", {"key": v["key"], "sig": sig}, known) is not None

    news = [v for v in pending_min if not is_known(v)]
    olds = [v for v in pending_min if v not in news]
    pending_min = news + olds
    shrunk = C.pmap(shrink, news[:n_min]) + [(v["prog"], v, v["text"]) for v in news[n_min:] + olds]
    for v, (prog, vv, text) in zip(pending_min, shrunk):
        feats = feature_tags(prog)
        sig = v["sig"]
        if feats:
            sig = sig + "|" + ",".join(feats)
        viol_out.append({"key": v["key"], "sig": sig, "what": "program %d: %s" % (v["index"], vv["what"]),
                         "witness": {"files": {"main.capy": text}, "expected": vv.get("expected"), "observed": vv.get("observed"), "seed": seed, "index": v["index"],
                                     "features": feats, "original_sig": v["sig"], "original_program": v["text"] if text != v["text"] else None,
                                     "full_expected": reexpect(prog)}})
    pinned, notes = pinned_repros(work)
    viol_out.extend(pinned)
    total = max(1, cnt["programs"])
    low = sorted(k for k, c_ in hist.items() if c_ * 50 < total)
    if low:
        notes.append("constructs below 2%% of the programs in this run: %s" % ", ".join(low))
    if done < n:
        notes.append("time budget reached after %d of %d programs" % (done, n))
    cnt.update({"hist_" + k: c_ for k, c_ in sorted(hist.items())})
    for k, c_ in seen_sig.items():
        notes.append("violation class seen %dx: %s" % (c_, k))
    rep = {"evaluations": evals, "distinct_nontrivial": len(sigs), "violations": viol_out, "samples": samples, "counters": cnt, "notes": notes, "exhaustive": False}
    return C.finish("C01", tier, seed, t0, "exploration", rep, ASSUME, RULE, min_evals=48 if tier == "quick" else 1000, inconclusive=inconc)


def pinned_repros(work):
    """pinned repros of the known findings whose feature the generator stays away from (128-bit division,
    default arm over ?^T). The CRASH-* entries are invalid inputs (C06's business), not well-typed programs."""
    out, notes = [], []
    for f in C.load_known().get("findings", []):
        if (f.get("property") != "C01" and "C01" not in f.get("properties", [])) or f["id"].startswith("CRASH-") or not isinstance(f.get("repro"), str):
            continue
        path = os.path.join(C.VERIF, f["repro"])
        if not os.path.isfile(path):
            continue
        text = open(path, encoding="utf-8").read()
        c = R.compile_capy(os.path.join(work, "pinned_" + f["id"]), {"main.capy": text})
        if c.internal_error:
            out.append({"key": "internal_error", "sig": "internal_error|" + c.panic_sig(), "what": "pinned repro %s: internal compiler error" % f["repro"],
                        "witness": {"files": {"main.capy": text}}})
        else:
            notes.append("pinned repro %s of %s no longer ends in an internal error (accepted=%s)" % (f["repro"], f["id"], c.accepted))
    return out, notes


def reexpect(prog):
    try:
        log, status, fault, _ = X.run_program(prog)
        return {"log": [list(x) for x in log], "status": status, "fault": fault}
    except Exception:
        return None


def shutil_clean(work):
    for name in os.listdir(work):
        if name.startswith("p"):
            shutil.rmtree(os.path.join(work, name), ignore_errors=True)


def replay(path):
    """re-runs the witness program against its recorded expectation; 1 if it still violates"""
    w = json.load(open(os.path.join(path, "witness.json")))
    wit = w.get("witness") or {}
    text = wit["files"]["main.capy"]
    exp = wit.get("full_expected")
    C.build_cli()
    C.build_rt()
    d = C.fresh_dir("C01_replay")
    c = R.compile_capy(d, {"main.capy": text}, cpu_s=60)
    print(w.get("key"), w.get("sig"))
    if c.internal_error:
        print("internal error:", c.panic_sig())
        return 1
    if not c.accepted:
        print("rejected:", strip_noise(c.brief())[:600])
        return 1
    if exp is None:
        print("accepted; no recorded expectation")
        return 0
    r = R.link_and_run(d, c.obj, cpu_s=10)
    got = [[t, i, v.strip()] for t, i, v in R.parse_log(r.out) if t != "T"]
    texts = [v for t, i, v in R.parse_log(r.out) if t == "T" and v.strip()]
    want = [list(x) for x in exp["log"]]
    bad = False
    if exp["fault"]:
        bad = got != want or r.rc != 1 or not texts
    else:
        bad = got != want or r.rc != exp["status"]
    print("expected exit %s fault %s, observed exit %s signal %s; logs %s" % (exp["status"], exp["fault"], r.rc, r.sig, "differ" if got != want else "agree"))
    C.clean_work("C01_replay")
    return 1 if bad else 0
