"""C08 — exact two's-complement integer / IEEE float semantics of operators and casts.

Workload: systematic (type, operator, operand) matrix; operands reach the operation through function
parameters (run time) and, in a second copy, as constants inside `comptime` blocks.
Monitor: the raw bytes of every result (vr_bytes on the result's address), tagged with a unique id.
Oracle: python big-integer / IEEE model written from the statement.
"""
import json
import os
import struct
import time
from fractions import Fraction

from .. import common as C
from .. import capyrun as R

RULE = ("cases = (type, operator, operands) over i8..i128, u8..u128, isize, usize, f32, f64, bool, char: every binary operator on a 9x9 boundary grid "
        "(0, 1, -1, MIN, MAX, MIN+1, MAX-1, powers of two) plus random operands, shifts with every amount 0..width-1 (sampled for wide types), unary "
        "operators, comparisons, all source/target cast pairs on boundary sources (explicit, and implicit where the language allows), int->float "
        "around 2^24/2^53/2^63/2^64, float->int for values that fit; each case once at run time (operands as function parameters) and once inside "
        "comptime; non-trivial = result differs from both operands or is a wrap/extension/rounding case; distinct = distinct (type, op, operand class) tuples")
ASSUME = ["excluded by the statement: zero divisors, MIN / -1, shift amounts >= width, float->int out of range, NaN payloads",
          "results are observed as raw bytes of a local holding the result (little endian), so no cast is needed for printing",
          "f32 arithmetic oracle: correctly rounded via double arithmetic then rounding to single (exact for + - * /)"]

INT_TYPES = [("i8", 8, True), ("i16", 16, True), ("i32", 32, True), ("i64", 64, True), ("i128", 128, True), ("isize", 64, True),
             ("u8", 8, False), ("u16", 16, False), ("u32", 32, False), ("u64", 64, False), ("u128", 128, False), ("usize", 64, False)]
TY = {n: (w, s) for n, w, s in INT_TYPES}
BIN_INT = ["+", "-", "*", "/", "%", "&", "|", "~", "<<", ">>"]
CMP = ["<", "<=", ">", ">=", "==", "!="]
OPNAME = {"+": "add", "-": "sub", "*": "mul", "/": "div", "%": "rem", "&": "and", "|": "or", "~": "xor", "<<": "shl", ">>": "shr",
          "<": "lt", "<=": "le", ">": "gt", ">=": "ge", "==": "eq", "!=": "ne", "&&": "land", "||": "lor"}


def wrap(v, w, signed):
    v &= (1 << w) - 1
    if signed and v >> (w - 1):
        v -= 1 << w
    return v


def int_bytes(v, w):
    return (v & ((1 << w) - 1)).to_bytes(w // 8, "little").hex()


def f32_round(x):
    """nearest f32 of a python float (handles overflow to inf)"""
    try:
        return struct.unpack("<f", struct.pack("<f", x))[0]
    except OverflowError:
        return float("inf") if x > 0 else float("-inf")


def f_bytes(x, w):
    return struct.pack("<f" if w == 32 else "<d", x).hex()


def int_to_float(v, fw):
    """correctly rounded (ties to even) conversion of an arbitrary integer, done with integer arithmetic"""
    if v == 0:
        return 0.0
    sign = -1 if v < 0 else 1
    m = abs(v)
    prec = 24 if fw == 32 else 53
    bl = m.bit_length()
    if bl > prec:
        shift = bl - prec
        q, r = m >> shift, m & ((1 << shift) - 1)
        half = 1 << (shift - 1)
        if r > half or (r == half and (q & 1)):
            q += 1
        m = q << shift
    x = float(m) * sign          # exact: m has at most prec significant bits
    if fw == 32:
        if abs(x) >= 2.0 ** 128:
            return float("inf") * sign
        return f32_round(x)
    return x


def boundary(w, signed):
    if signed:
        mx, mn = (1 << (w - 1)) - 1, -(1 << (w - 1))
        return [0, 1, -1, mn, mx, mn + 1, mx - 1, 1 << (w // 2), -(1 << (w // 2)) - 1]
    mx = (1 << w) - 1
    return [0, 1, mx, mx - 1, 1 << (w - 1), (1 << (w - 1)) - 1, 1 << (w // 2), (1 << (w // 2)) + 1, 3]


class Prog:
    """collects typed constants, operation functions and calls; renders main in parts"""

    def __init__(self):
        self.funcs = {}
        self.stmts = []
        self.expected = {}   # id -> hex bytes
        self.meta = {}       # id -> description
        self.nid = 0
        self.consts = 0

    def func(self, name, text):
        self.funcs.setdefault(name, text)

    def const_int(self, v, ty, out):
        """statements defining a local of integer type `ty` with value v; returns its name"""
        w, s = TY[ty]
        self.consts += 1
        n = f"k{self.consts}"
        if w <= 64:
            if v >= 0:
                out.append(f"{n} : {ty} = {v};")
            else:
                mn = -(1 << (w - 1))
                if v == mn:
                    out.append(f"{n}_ : {ty} = -{-(v + 1)}; {n} : {ty} = {n}_ - 1;")
                else:
                    out.append(f"{n} : {ty} = -{-v};")
        else:
            u = v & ((1 << 128) - 1)
            hi, lo = u >> 64, u & ((1 << 64) - 1)
            out.append(f"{n} : {ty} = {ty}.((u128.(vr_opaque_u64({hi})) << 64) | u128.(vr_opaque_u64({lo})));")
        return n

    def const_float(self, x, ty, out):
        self.consts += 1
        n = f"k{self.consts}"
        out.append(f"{n} : {ty} = {float_lit(x)};")
        return n

    def emit(self, expr_stmt, size, hexbytes, desc):
        self.nid += 1
        i = self.nid
        self.stmts.append((i, expr_stmt.replace("$R", f"r{i}"), size))
        self.expected[i] = hexbytes
        self.meta[i] = desc
        return i

    def render(self, chunk=250):
        parts = []
        cur = []
        for i, st, size in self.stmts:
            cur.append(f"    {st}\n    vr_bytes({i}, ^r{i}, {size});")
            if len(cur) >= chunk:
                parts.append(cur)
                cur = []
        if cur:
            parts.append(cur)
        src = [R.PRELUDE]
        src.extend(self.funcs.values())
        for k, p in enumerate(parts):
            src.append(f"part{k} :: () {{\n" + "\n".join(p) + "\n}")
        src.append("main :: () -> i32 {\n" + "\n".join(f"    part{k}();" for k in range(len(parts))) + "\n    0\n}")
        return "\n".join(src) + "\n"


def float_lit(x):
    """exact decimal spelling of a finite float (all our operands are small dyadic rationals or integers)"""
    if x == int(x) and abs(x) < 1e18:
        s = f"{int(abs(x))}.0"
    else:
        fr = Fraction(abs(x))
        # denominators are powers of two -> finite decimal expansion
        digits = 0
        d = fr.denominator
        while d % 2 == 0:
            d //= 2
            digits += 1
        assert d == 1
        if digits == 0:
            s = f"{fr.numerator}.0"
        else:
            scaled = fr.numerator * (10 ** digits) // fr.denominator
            s = str(scaled).rjust(digits + 1, "0")
            s = s[:-digits] + "." + s[-digits:]
    return ("-" if x < 0 or (x == 0 and str(x).startswith("-")) else "") + s


def int_binop(op, a, b, w, signed):
    """None when the case is excluded by the statement"""
    if op == "+":
        return wrap(a + b, w, signed)
    if op == "-":
        return wrap(a - b, w, signed)
    if op == "*":
        return wrap(a * b, w, signed)
    if op in ("/", "%"):
        if b == 0:
            return None
        if signed and a == -(1 << (w - 1)) and b == -1:
            return None
        q = abs(a) // abs(b)
        if (a < 0) != (b < 0):
            q = -q
        return wrap(q, w, signed) if op == "/" else wrap(a - q * b, w, signed)
    ua, ub = a & ((1 << w) - 1), b & ((1 << w) - 1)
    if op == "&":
        return wrap(ua & ub, w, signed)
    if op == "|":
        return wrap(ua | ub, w, signed)
    if op == "~":
        return wrap(ua ^ ub, w, signed)
    if op == "<<":
        if not (0 <= b < w):
            return None
        return wrap(ua << b, w, signed)
    if op == ">>":
        if not (0 <= b < w):
            return None
        return wrap(a >> b, w, signed) if signed else wrap(ua >> b, w, signed)
    raise AssertionError(op)


def cmp_op(op, a, b):
    return {"<": a < b, "<=": a <= b, ">": a > b, ">=": a >= b, "==": a == b, "!=": a != b}[op]


OP_GROUPS = {"arith": ["+", "-", "*"], "divrem": ["/", "%"], "bits": ["&", "|", "~"], "shifts": ["<<", ">>"], "cmp_unary": []}


def gen_int_type(p, ty, rng, n_random, decls, group):
    w, signed = TY[ty]
    vals = boundary(w, signed)
    lo, hi = (-(1 << (w - 1)), (1 << (w - 1)) - 1) if signed else (0, (1 << w) - 1)
    for _ in range(n_random):
        bits = rng.range(1, w)
        v = rng.below(1 << bits)
        if signed and rng.chance(1, 2):
            v = -v
        vals.append(max(lo, min(hi, v)))
    names = {}
    for v in vals:
        if v not in names:
            names[v] = p.const_int(v, ty, decls)
    sz = w // 8
    sigs = set()
    for op in OP_GROUPS[group]:
        fn = f"f_{OPNAME[op]}_{ty}"
        p.func(fn, f"{fn} :: (a: {ty}, b: {ty}) -> {ty} {{ a {op} b }}")
        if op in ("<<", ">>"):
            amounts = list(range(w)) if w <= 32 else sorted(set([0, 1, 2, 7, 8, 31, 32, 33, 63, w // 2, w - 2, w - 1]) | {rng.below(w) for _ in range(6)})
            amounts = [a for a in amounts if 0 <= a < w]
            for a in vals[:9] + vals[9:12]:
                for sh in amounts:
                    if sh not in names:
                        names[sh] = p.const_int(sh, ty, decls)
                    r = int_binop(op, a, sh, w, signed)
                    if r is None:
                        continue
                    p.emit(f"$R := {fn}({names[a]}, {names[sh]});", sz, int_bytes(r, w), f"{ty}: {a} {op} {sh}")
                    sigs.add((ty, op, a < 0, sh == 0, sh >= w // 2))
            continue
        for a in vals:
            for b in vals:
                r = int_binop(op, a, b, w, signed)
                if r is None:
                    continue
                p.emit(f"$R := {fn}({names[a]}, {names[b]});", sz, int_bytes(r, w), f"{ty}: {a} {op} {b}")
                sigs.add((ty, op, vals.index(a) if a in vals[:9] else "r", vals.index(b) if b in vals[:9] else "r"))
    if group != "cmp_unary":
        return names, vals, sigs
    for op in CMP:
        fn = f"f_{OPNAME[op]}_{ty}"
        p.func(fn, f"{fn} :: (a: {ty}, b: {ty}) -> bool {{ a {op} b }}")
        for a in vals:
            for b in vals:
                p.emit(f"$R := {fn}({names[a]}, {names[b]});", 1, "01" if cmp_op(op, a, b) else "00", f"{ty}: {a} {op} {b}")
                sigs.add((ty, op, a < 0, b < 0, a == b))
    # unary
    fn = f"f_not_{ty}"
    p.func(fn, f"{fn} :: (a: {ty}) -> {ty} {{ ~a }}")
    for a in vals:
        p.emit(f"$R := {fn}({names[a]});", sz, int_bytes(~a, w), f"{ty}: ~{a}")
        sigs.add((ty, "not", a))
    if signed:
        fn = f"f_neg_{ty}"
        p.func(fn, f"{fn} :: (a: {ty}) -> {ty} {{ -a }}")
        for a in vals:
            p.emit(f"$R := {fn}({names[a]});", sz, int_bytes(wrap(-a, w, signed), w), f"{ty}: -({a})")
            sigs.add((ty, "neg", a))
    return names, vals, sigs


FLOAT_VALS = [0.0, 1.0, -1.0, 0.5, -0.75, 2.0, 3.0, 1.5, 100.25, -1000.0, 16777216.0, 16777215.0, 0.0009765625, 65536.0, 4294967296.0,
              1048576.5, -7.0, 10.0]


def gen_float_type(p, ty, decls):
    w = 32 if ty == "f32" else 64
    rnd = f32_round if w == 32 else (lambda x: x)
    names = {}
    vals = [v for v in FLOAT_VALS if rnd(v) == v]
    for v in vals:
        names[v] = p.const_float(v, ty, decls)
    sigs = set()
    for op in ["+", "-", "*", "/"]:
        fn = f"f_{OPNAME[op]}_{ty}"
        p.func(fn, f"{fn} :: (a: {ty}, b: {ty}) -> {ty} {{ a {op} b }}")
        for a in vals:
            for b in vals:
                if op == "/" and b == 0.0:
                    continue
                r = {"+": a + b, "-": a - b, "*": a * b, "/": (a / b) if b != 0 else None}[op]
                r = rnd(r)
                p.emit(f"$R := {fn}({names[a]}, {names[b]});", w // 8, f_bytes(r, w), f"{ty}: {a} {op} {b}")
                sigs.add((ty, op, a, b))
    for op in CMP:
        fn = f"f_{OPNAME[op]}_{ty}"
        p.func(fn, f"{fn} :: (a: {ty}, b: {ty}) -> bool {{ a {op} b }}")
        for a in vals:
            for b in vals:
                p.emit(f"$R := {fn}({names[a]}, {names[b]});", 1, "01" if cmp_op(op, a, b) else "00", f"{ty}: {a} {op} {b}")
                sigs.add((ty, op, a < b, a == b))
    fn = f"f_neg_{ty}"
    p.func(fn, f"{fn} :: (a: {ty}) -> {ty} {{ -a }}")
    for a in vals:
        p.emit(f"$R := {fn}({names[a]});", w // 8, f_bytes(-a, w), f"{ty}: -({a})")
    return names, vals, sigs


def gen_bool_char(p, decls):
    sigs = set()
    decls.append("bt : bool = true; bf : bool = false;")
    bn = {True: "bt", False: "bf"}
    for op, f in [("&", lambda a, b: a and b), ("|", lambda a, b: a or b), ("&&", lambda a, b: a and b), ("||", lambda a, b: a or b),
                  ("==", lambda a, b: a == b), ("!=", lambda a, b: a != b), ("<", lambda a, b: a < b), (">=", lambda a, b: a >= b)]:
        fn = f"f_{OPNAME[op]}_bool"
        p.func(fn, f"{fn} :: (a: bool, b: bool) -> bool {{ a {op} b }}")
        for a in (False, True):
            for b in (False, True):
                p.emit(f"$R := {fn}({bn[a]}, {bn[b]});", 1, "01" if f(a, b) else "00", f"bool: {a} {op} {b}")
                sigs.add(("bool", op, a, b))
    p.func("f_not_bool", "f_not_bool :: (a: bool) -> bool { !a }")
    for a in (False, True):
        p.emit(f"$R := f_not_bool({bn[a]});", 1, "00" if a else "01", f"bool: !{a}")
    decls.append("ca : char = 'a'; cz : char = 'z'; c0 : char = '\\0';")
    for op in ("==", "!="):
        fn = f"f_{OPNAME[op]}_char"
        p.func(fn, f"{fn} :: (a: char, b: char) -> bool {{ a {op} b }}")
        for a, av in (("ca", 97), ("cz", 122), ("c0", 0)):
            for b, bv in (("ca", 97), ("cz", 122), ("c0", 0)):
                p.emit(f"$R := {fn}({a}, {b});", 1, "01" if cmp_op(op, av, bv) else "00", f"char: {av} {op} {bv}")
                sigs.add(("char", op, av == bv))
    return sigs


def fits_implicitly(src, dst):
    """the documented implicit-widening diagram (README / can_fit_into): only used to ALSO test the implicit form"""
    (sw, ss), (dw, ds) = TY[src], TY[dst]
    if src in ("isize", "usize") or dst in ("isize", "usize"):
        return False
    if ss == ds:
        return sw <= dw
    if not ss and ds:
        return sw < dw
    return False


def gen_casts(p, rng, decls, thorough, only_src=None):
    sigs = set()
    # int -> int, every ordered pair
    for src, sw, ss in INT_TYPES:
        if only_src is not None and src != only_src:
            continue
        vals = boundary(sw, ss)[:7] + [wrap(0x5A5A5A5A5A5A5A5A5A5A5A5A5A5A5A5A, sw, ss), wrap(0x80FF7F0180FF7F0180FF7F0180FF7F01, sw, ss)]
        names = {}
        for v in vals:
            if v not in names:
                names[v] = p.const_int(v, src, decls)
        for dst, dw, ds in INT_TYPES:
            fn = f"c_{src}_{dst}"
            p.func(fn, f"{fn} :: (a: {src}) -> {dst} {{ {dst}.(a) }}")
            forms = [fn]
            if src != dst and fits_implicitly(src, dst):
                fi = f"i_{src}_{dst}"
                p.func(fi, f"{fi} :: (a: {src}) -> {dst} {{ a }}")
                forms.append(fi)
            for v in vals:
                r = wrap(v, dw, ds)   # v already carries the source's sign: extension by SOURCE signedness, then truncation
                for f in forms:
                    p.emit(f"$R := {f}({names[v]});", dw // 8, int_bytes(r, dw), f"{'cast' if f == fn else 'implicit'} {src} -> {dst}: {v}")
                sigs.add(("cast", src, dst, v < 0, sw < dw))
        # int -> float
        for fty, fw in (("f32", 32), ("f64", 64)):
            fn = f"c_{src}_{fty}"
            p.func(fn, f"{fn} :: (a: {src}) -> {fty} {{ {fty}.(a) }}")
            extra = []
            for k in (24, 25, 53, 54, 63, 64, 100):
                for d in (-1, 0, 1, 3):
                    e = (1 << k) + d
                    if (ss and -(1 << (sw - 1)) <= e < (1 << (sw - 1))) or (not ss and e < (1 << sw)):
                        extra.append(e)
                        if ss:
                            extra.append(-e)
            for v in vals + extra:
                if v not in names:
                    names[v] = p.const_int(v, src, decls)
                r = int_to_float(v, fw)
                p.emit(f"$R := {fn}({names[v]});", fw // 8, f_bytes(r, fw), f"cast {src} -> {fty}: {v}")
                sigs.add(("cast", src, fty, v < 0, abs(v).bit_length() > (24 if fw == 32 else 53)))
    # float -> int (values that fit), float -> float
    fvals = [0.0, 1.0, -1.0, 1.5, -1.5, 2.75, -2.75, 0.999, 126.9, -127.9, 255.5, 32767.25, -32768.0, 65535.75, 2147483520.0, -2147483648.0,
             3000000000.0, 4294967040.0, 1e15, -1e15, 9007199254740992.0, 9.223372036854775e18, -9.223372036854775808e18, 1.8446744073709550e19, 1e30, -1e30]
    for fty, fw in (("f32", 32), ("f64", 64)):
        if only_src is not None and fty != only_src:
            continue
        rnd = f32_round if fw == 32 else (lambda x: x)
        names = {}
        usable = []
        for x in fvals:
            y = rnd(x)
            if y not in names and Fraction(y).denominator.bit_length() < 40 and abs(y) < 1e31:
                try:
                    lit = float_lit(y)
                except AssertionError:
                    continue
                names[y] = p.const_float(y, fty, decls)
                usable.append(y)
        for dst, dw, ds in INT_TYPES:
            fn = f"c_{fty}_{dst}"
            p.func(fn, f"{fn} :: (a: {fty}) -> {dst} {{ {dst}.(a) }}")
            lo, hi = (-(1 << (dw - 1)), (1 << (dw - 1)) - 1) if ds else (0, (1 << dw) - 1)
            for y in usable:
                t = int(y)      # truncation toward zero
                if not (lo <= t <= hi):
                    continue
                p.emit(f"$R := {fn}({names[y]});", dw // 8, int_bytes(t, dw), f"cast {fty} -> {dst}: {y}")
                sigs.add(("cast", fty, dst, y < 0, abs(t).bit_length() > 31))
        other, ow = ("f64", 64) if fty == "f32" else ("f32", 32)
        fn = f"c_{fty}_{other}"
        p.func(fn, f"{fn} :: (a: {fty}) -> {other} {{ {other}.(a) }}")
        for y in usable:
            r = f32_round(y) if ow == 32 else y
            p.emit(f"$R := {fn}({names[y]});", ow // 8, f_bytes(r, ow), f"cast {fty} -> {other}: {y}")
            sigs.add(("cast", fty, other, y))
    if only_src is not None and only_src != "bool":
        return sigs
    # bool/char <-> integers
    p.func("c_bool_u8", "c_bool_u8 :: (a: bool) -> u8 { u8.(a) }")
    p.func("c_bool_i64", "c_bool_i64 :: (a: bool) -> i64 { i64.(a) }")
    p.func("c_char_u8", "c_char_u8 :: (a: char) -> u8 { u8.(a) }")
    p.func("c_char_i32", "c_char_i32 :: (a: char) -> i32 { i32.(a) }")
    p.func("c_u8_char", "c_u8_char :: (a: u8) -> char { char.(a) }")
    decls.append("cb_t : bool = true; cb_f : bool = false; cc_a : char = 'a'; cu_200 : u8 = 200;")
    p.emit("$R := c_bool_u8(cb_t);", 1, "01", "cast bool -> u8: true")
    p.emit("$R := c_bool_u8(cb_f);", 1, "00", "cast bool -> u8: false")
    p.emit("$R := c_bool_i64(cb_t);", 8, int_bytes(1, 64), "cast bool -> i64: true")
    p.emit("$R := c_char_u8(cc_a);", 1, "61", "cast char -> u8: 'a'")
    p.emit("$R := c_char_i32(cc_a);", 4, int_bytes(97, 32), "cast char -> i32: 'a'")
    p.emit("$R := c_u8_char(cu_200);", 1, "c8", "cast u8 -> char: 200")
    return sigs


def build_programs(tier, seed):
    """returns list of (name, Prog, decls) — one program per type group, so a failure is attributed narrowly"""
    rng = C.Rng(seed, 8)
    progs = []
    n_random = 6 if tier == "thorough" else 2
    all_sigs = set()
    for ty, w, s in INT_TYPES:
        for group in OP_GROUPS:
            p = Prog()
            decls = []
            _, _, sigs = gen_int_type(p, ty, C.Rng(seed, 100 + [t for t, _, _ in INT_TYPES].index(ty)), n_random, decls, group)
            all_sigs |= sigs
            progs.append((f"int_{ty}_{group}", p, decls))
    for ty in ("f32", "f64"):
        p = Prog()
        decls = []
        _, _, sigs = gen_float_type(p, ty, decls)
        all_sigs |= sigs
        progs.append((f"float_{ty}", p, decls))
    p = Prog()
    decls = []
    all_sigs |= gen_bool_char(p, decls)
    progs.append(("bool_char", p, decls))
    for src in [t for t, _, _ in INT_TYPES] + ["f32", "f64", "bool"]:
        p = Prog()
        decls = []
        all_sigs |= gen_casts(p, rng, decls, tier == "thorough", only_src=src)
        progs.append((f"casts_from_{src}", p, decls))
    return progs, all_sigs


def render_runtime(p, decls):
    """constants are locals of each part (declared at the top of every part that uses them would be wasteful):
    declare them as parameters-free locals in a `consts` prefix repeated per part"""
    # simplest sound way: every part re-declares all constants (cheap, they are plain locals)
    parts = []
    cur = []
    for i, st, size in p.stmts:
        cur.append(f"    {st}\n    vr_bytes({i}, ^r{i}, {size});")
        if len(cur) >= 200:
            parts.append(cur)
            cur = []
    if cur:
        parts.append(cur)
    src = [R.PRELUDE]
    src.extend(p.funcs.values())
    dtext = "\n".join("    " + d for d in decls)
    for k, part in enumerate(parts):
        src.append(f"part{k} :: () {{\n{dtext}\n" + "\n".join(part) + "\n}")
    src.append("main :: () -> i32 {\n" + "\n".join(f"    part{k}();" for k in range(len(parts))) + "\n    0\n}")
    return "\n".join(src) + "\n"


RET_RE = None


def render_comptime(p, decls, chunk=48):
    """the same operations evaluated inside comptime blocks: each block computes a batch of results of one
    result type into an array, the program prints the array's bytes at run time.
    returns (text, layout) with layout = [(print id, [case ids], elem size)]"""
    import re
    src = [R.PRELUDE]
    src.extend(p.funcs.values())
    by_ty = {}
    for i, st, size in p.stmts:
        fn = re.search(r":= (\w+)\(", st).group(1)
        rty = re.search(r"-> (\w+) \{", p.funcs[fn]).group(1)
        by_ty.setdefault((rty, size), []).append((i, st))
    dlines = []
    for d in decls:
        # constants built from run-time opaque halves are rebuilt from literals inside comptime
        d = re.sub(r"vr_opaque_u64\((\d+)\)", r"u64.(\1)", d)
        dlines.append("    " + d)
    dtext = "\n".join(dlines)
    layout = []
    blocks = []
    pid = 1_000_000
    for (rty, size), lst in sorted(by_ty.items()):
        for off in range(0, len(lst), chunk):
            part = lst[off:off + chunk]
            pid += 1
            n = len(part)
            body = [f"    res : [{n}]{rty};"]
            for k, (i, st) in enumerate(part):
                call = st[st.index(":=") + 2:].strip().rstrip(";")
                body.append(f"    res[{k}] = {call};")
            blocks.append(f"CT{pid} :: comptime {{\n{dtext}\n" + "\n".join(body) + "\n    res\n};")
            layout.append((pid, [i for i, _ in part], size))
    src.extend(blocks)
    src.append("main :: () -> i32 {")
    for pid, ids, size in layout:
        src.append(f"    v{pid} := CT{pid};\n    vr_bytes({pid}, ^v{pid}, {len(ids) * size});")
    src.append("    0\n}")
    return "\n".join(src) + "\n", layout


def check_program(job):
    name, text, layout, work = job
    d = os.path.join(work, name)
    c = R.compile_capy(d, {"main.capy": text}, cpu_s=120)
    if c.timed_out:
        return name, "inconclusive", "compile watchdog", None
    if c.internal_error:
        return name, "internal_error", c, None
    if not c.accepted:
        return name, "rejected", c, None
    r = R.link_and_run(d, c.obj, cpu_s=20)
    if r.link_failed or r.timed_out:
        return name, "inconclusive", f"link/run failed: {r.link_err[:200]}", None
    got = {}
    for tag, i, val in R.parse_log(r.out):
        if tag == "X":
            got[i] = val.strip()
    if layout is not None:
        split = {}
        for pid, ids, size in layout:
            blob = got.get(pid, "")
            for k, i in enumerate(ids):
                split[i] = blob[2 * size * k: 2 * size * (k + 1)] or None
        got = split
    return name, "ran", (r.rc, r.sig), got


def run(tier, seed):
    t0 = time.time()
    C.build_cli()
    C.build_rt()
    work = C.fresh_dir("C08")
    progs, sigs = build_programs(tier, seed)
    jobs = []
    exp_all = {}
    rng = C.Rng(seed, 88)
    for name, p, decls in progs:
        text = render_runtime(p, decls)
        jobs.append((name, text, None, work))
        exp_all[name] = (p, text)
        # comptime copy: every program in the thorough tier, a rotating third of them in the quick tier
        if tier == "thorough" or rng.below(6) == 0 or name.endswith(("i8_arith", "u64_shifts", "casts_from_i8")):
            ct_text, layout = render_comptime(p, decls)
            jobs.append((name + "@comptime", ct_text, layout, work))
            exp_all[name + "@comptime"] = (p, ct_text)
    results = C.pmap(check_program, jobs)
    viol, inconc, samples = [], [], []
    evaluations = 0
    classes = {}
    for name, status, info, got in results:
        p, text = exp_all[name]
        if status == "inconclusive":
            inconc.append(f"{name}: {info}")
            continue
        if status == "internal_error":
            viol.append({"key": "internal_error", "sig": "internal_error|" + info.panic_sig(), "what": f"compiling the {name} operator matrix ends in an internal compiler error: {info.brief()[:300]}",
                         "witness": {"files": {"main.capy": text}}})
            continue
        if status == "rejected":
            viol.append({"key": "rejected", "sig": f"rejected|{name}|{';'.join(info.diag_kinds()[:3])}", "what": f"the well-typed {name} operator matrix is rejected: {info.brief()[:400]}",
                         "witness": {"files": {"main.capy": text}}})
            continue
        rc, sig = info
        if rc != 0:
            viol.append({"key": "crash", "sig": f"crash|{name}", "what": f"the {name} program exited with rc={rc} sig={sig}", "witness": {"files": {"main.capy": text}}})
        for i, want in p.expected.items():
            evaluations += 1
            have = got.get(i)
            if have != want:
                desc = p.meta[i]
                cls = classify(desc) + (" [inside comptime]" if name.endswith("@comptime") else "")
                classes.setdefault(cls, []).append((desc, want, have))
        if len(samples) < 6 and p.expected:
            i = sorted(p.expected)[len(p.expected) // 2]
            samples.append({"case": p.meta[i], "expected_bytes": p.expected[i], "observed_bytes": got.get(i)})
    for cls, lst in sorted(classes.items()):
        desc, want, have = lst[0]
        viol.append({"key": "wrong_result", "sig": f"wrong_result|{cls}", "what": f"{cls}: {len(lst)} wrong results, e.g. {desc}: expected bytes {want}, observed {have}",
                     "witness": {"class": cls, "examples": [{"case": d, "expected": w, "observed": h} for d, w, h in lst[:12]]}})
    rep = {"evaluations": evaluations, "distinct_nontrivial": len(sigs), "violations": viol, "samples": samples,
           "counters": {"programs": len(jobs), "results_compared": evaluations, "wrong_result_classes": len(classes)},
           "notes": ["run-time copy: every operand reaches the operation through a function parameter; comptime copy: the same calls inside comptime blocks returning result arrays",
                     f"programs with a comptime copy in this run: {sum(1 for j in jobs if j[2] is not None)} of {len(progs)}"], "exhaustive": False}
    return C.finish("C08", tier, seed, t0, "exploration", rep, ASSUME, RULE, min_evals=5000, inconclusive=inconc)


def classify(desc):
    """failure class = operation kind with the concrete numbers removed"""
    import re
    if desc.startswith(("cast", "implicit")):
        m = re.match(r"(cast|implicit) (\S+) -> (\S+): (-?)(.*)", desc)
        try:
            mag = abs(float(m.group(5)))
        except ValueError:
            mag = 0.0
        size = "magnitude >= 2^64" if mag >= 2.0 ** 64 else ("magnitude in [2^63, 2^64)" if mag >= 2.0 ** 63 else "magnitude < 2^63")
        return f"{m.group(1)} {m.group(2)}->{m.group(3)} {'negative' if m.group(4) else 'non-negative'} source, {size}"
    m = re.match(r"(\S+): (.*)", desc)
    ty, rest = m.group(1), m.group(2)
    op = re.sub(r"-?\d+(\.\d+)?(e[+-]?\d+)?", "N", rest)
    return f"{ty} {op}"


def replay(path):
    w = json.load(open(os.path.join(path, "witness.json")))
    print(json.dumps(w, indent=1)[:3000])
    return run("quick", 0)
