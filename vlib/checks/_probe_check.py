"""generic driver for checks that live entirely in the probe binary"""
import json
import os
import time

from .. import common as C


def run_probe_check(prop, tier, seed, rule, assume, level="exploration", corpus=False, shards=1, extra=(), min_evals=1000,
                    full=False, extra_cov=None, miri=None):
    """miri: {"quick": [probe args], "thorough": [probe args], "shards": n, "shard_by_seed": bool} - the same probe check is
    additionally interpreted by Miri (undefined behaviour / invalid memory accesses in the front end's unsafe code are violations)"""
    t0 = time.time()
    C.build_probe(full=True)
    rep = C.run_probe(prop.lower(), tier, seed, extra=extra, shards=shards, corpus=corpus)
    if miri:
        mrep, ub = C.run_probe_miri(prop.lower(), seed, extra=miri[tier], shards=miri.get("shards", 16), corpus=corpus,
                                    shard_by_seed=miri.get("shard_by_seed", False))
        rep["violations"] = list(rep.get("violations", [])) + list(mrep.get("violations", [])) + ub
        c = rep.setdefault("counters", {})
        c["miri_evaluations"] = int(mrep.get("evaluations", 0))
        c["miri_ub_reports"] = len(ub)
        for k, v in mrep.get("counters", {}).items():
            c["miri_" + k] = v
        rep.setdefault("notes", []).append(
            f"the same oracle was also run under Miri (nightly, front-end crates only, hooks on) on {mrep.get('evaluations', 0)} inputs: "
            f"{len(ub)} undefined-behaviour report(s)")
        if not ub and int(mrep.get("evaluations", 0)) == 0:
            raise C.Inconclusive("the Miri run evaluated nothing")
    return C.finish(prop, tier, seed, t0, level, rep, assume, rule, min_evals=min_evals, extra_cov=extra_cov)


def replay_text(prop, path):
    w = json.load(open(os.path.join(path, "witness.json")))
    C.build_probe(full=True)
    wit = w.get("witness") or {}
    text = wit.get("text")
    if text is None:
        print(json.dumps(w, indent=1, ensure_ascii=False)[:4000])
        print("this witness has no single input text; re-run the check to reproduce")
        return 2
    tmp = C.fresh_dir(prop, "replay")
    fn = os.path.join(tmp, "input.txt")
    with open(fn, "w", encoding="utf-8") as fh:
        fh.write(text)
    r = C.run_proc([C.PROBE, prop.lower(), "--one", fn], cpu_s=60)
    rep = [json.loads(l[9:]) for l in r.out.splitlines() if l.startswith("@@REPORT ")]
    C.clean_work(prop)
    if not rep:
        print(f"VIOLATION property={prop} replay={path}")
        print(f"  probe died: rc={r.rc} sig={r.sig}")
        return 1
    if rep[-1]["violations"]:
        for v in rep[-1]["violations"]:
            print(f"  {v['key']}: {v['what'][:300]}")
        print(f"VIOLATION property={prop} replay={path}")
        return 1
    print("replay: no violation")
    return 0
